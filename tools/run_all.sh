#!/usr/bin/env bash
# tools/run_all.sh [tier] [props...] — runs checks, prints one line per property
TIER="${1:-quick}"; shift || true
PROPS="${@:-C01 C02 C03 C04 C05 C06 C07 C08 C09 C10 C11 C12 C13 C14 C15 C16 C17 C18 C19 C20 C21 C22 C23 C24 C25 C26 C27 C28 C29 C30 C31 C32 C33 C34 C35 C36}"
mkdir -p /verif/target/runlogs
for p in $PROPS; do
  s=$(date +%s)
  /verif/bin/check $p $TIER > /verif/target/runlogs/$p.out 2> /verif/target/runlogs/$p.err; rc=$?
  e=$(date +%s)
  kf=$(grep -c "^KNOWN-FINDING" /verif/target/runlogs/$p.out)
  v=$(grep -c "^VIOLATION" /verif/target/runlogs/$p.out)
  echo "$p rc=$rc time=$((e-s))s known=$kf violations=$v"
done
