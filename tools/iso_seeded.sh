#!/usr/bin/env bash
# tools/iso_seeded.sh <dir with patch.diff> <Cxx> [tier]
# Same as try_seeded.sh but never touches /repo: the patch is applied to a scratch git worktree of
# /repo's HEAD under /tmp/iso, and a copy of the harness (paths rewritten) is built against it with
# its own target dir. Used while other work needs /repo clean. Scratch only — nothing registered in
# MANIFEST.json depends on /tmp/iso. Remove with: tools/iso_seeded.sh --clean
set -u
ISO=/tmp/iso
if [ "${1:-}" = "--clean" ]; then
  git -C /repo worktree remove --force $ISO/repo 2>/dev/null; git -C /repo worktree prune
  rm -rf $ISO; exit 0
fi
D="$1"; P="$2"; TIER="${3:-quick}"
HEAD=${ISO_REV:-$(git -C /repo rev-parse HEAD)}
mkdir -p $ISO
if [ ! -d $ISO/repo ]; then git -C /repo worktree add --detach $ISO/repo "$HEAD" >/dev/null 2>&1 || exit 2; fi
git -C $ISO/repo checkout -q -- . ; git -C $ISO/repo checkout -q --detach "$HEAD" || exit 2
# hard-link copy of the harness target dir (no extra disk); everything that will be rebuilt here
# (the samyama crates — their path differs — and the harness itself) is unlinked first so the
# originals are never written through a shared inode, and the cargo lock is private
if [ ! -d $ISO/target ]; then
  mkdir -p $ISO/target; cp -al /verif/target/release $ISO/target/release
  rm -f $ISO/target/release/.cargo-lock
  rm -rf $ISO/target/release/.fingerprint/vcheck-* $ISO/target/release/.fingerprint/samyama* $ISO/target/release/incremental
  find $ISO/target/release $ISO/target/release/deps -maxdepth 1 \( -name 'libsamyama*' -o -name 'samyama*' -o -name 'vc_*' -o -name 'libvcheck*' -o -name 'vcheck*' \) -exec rm -rf {} +
fi
# harness copy
mkdir -p $ISO/harness $ISO/verif/evidence $ISO/verif/replays
rsync -a --delete --exclude target /verif/harness/ $ISO/harness/
sed -i "s#\"/repo#\"$ISO/repo#g" $ISO/harness/Cargo.toml
sed -i "s#/verif/target#$ISO/target#" $ISO/harness/.cargo/config.toml
sed -i "s#pub const VERIF_ROOT: &str = \"/verif\";#pub const VERIF_ROOT: \&str = \"$ISO/verif\";#" $ISO/harness/src/lib.rs
rsync -a --delete /verif/corpus/ $ISO/verif/corpus/
rsync -a --delete /verif/baselines/ $ISO/verif/baselines/
mkdir -p $ISO/verif/replays/known; rsync -a --delete /verif/replays/known/ $ISO/verif/replays/known/
cp /verif/known_findings.json $ISO/verif/known_findings.json
case "$P" in
  C01|C02|C03|C04|C05|C35) BIN=vc_query ;; C06|C10|C30) BIN=vc_store ;; C07|C08|C09) BIN=vc_mvcc ;;
  C11|C29) BIN=vc_index ;; C12|C13|C14) BIN=vc_snap ;; C15|C17) BIN=vc_wal ;; C16|C18|C32) BIN=vc_persist ;;
  C19|C23) BIN=vc_server ;; C20|C21|C22|C24) BIN=vc_proto ;; C25) BIN=vc_parse ;; C26|C27) BIN=vc_algo ;;
  C28) BIN=vc_hier ;; C31|C33) BIN=vc_raft ;; C34) BIN=vc_opt ;; C36) BIN=vc_rdf ;; *) exit 2 ;;
esac
cd $ISO/repo || exit 2
if ! git apply --check "$D/patch.diff" 2>/dev/null; then echo "PATCH-DOES-NOT-APPLY $P"; exit 3; fi
git apply "$D/patch.diff"
# make sure cargo sees the change even with a copied target dir
git diff --name-only | while read -r f; do touch "$f"; done
s=$(date +%s)
( cd $ISO/harness && CARGO_NET_OFFLINE=true cargo build --release --offline --bin $BIN > $ISO/build-$BIN.log 2>&1 )
brc=$?
if [ $brc -ne 0 ]; then git checkout -q -- .; echo "BUILD-FAILED $P (see $ISO/build-$BIN.log)"; grep -E '^error' -A6 $ISO/build-$BIN.log | head -20; exit 2; fi
cd $ISO/verif
RUST_BACKTRACE=0 $ISO/target/release/$BIN "$P" "$TIER" > $ISO/$P.$TIER.out 2> $ISO/$P.$TIER.err; rc=$?
e=$(date +%s)
git -C $ISO/repo checkout -q -- .
if [ $rc -eq 1 ] && grep -q "^VIOLATION property=$P" $ISO/$P.$TIER.out; then
  echo "CAUGHT $P tier=$TIER time=$((e-s))s: $(grep -m1 '^VIOLATION' $ISO/$P.$TIER.out)"
  grep -m1 "detail:" $ISO/$P.$TIER.err | cut -c1-300
else
  echo "MISSED $P tier=$TIER rc=$rc time=$((e-s))s"
  tail -3 $ISO/$P.$TIER.err | cut -c1-300
fi
