#!/usr/bin/env python3
"""Rewrites the §0.2 table of DESIGN.md from evidence/*.json and known_findings.json."""
import json, re, subprocess
V='/verif'
kf=json.load(open(f'{V}/known_findings.json'))
binmap={}
for line in open(f'{V}/bin/check'):
    m=re.match(r'\s*([C0-9|]+)\) BIN=(\w+)',line)
    if m:
        for p in m.group(1).split('|'): binmap[p]=m.group(2)
fixed={}
for s in kf['fixed']:
    m=re.match(r'fixed: property=(C\d+) ([0-9a-f]{7})',s)
    if m: fixed.setdefault(m.group(1),[]).append(m.group(2))
openf={}
for f in kf['findings']:
    openf.setdefault(f['property'],[]).append(f['id'])
rows=[]
for i in range(1,37):
    p=f'C{i:02d}'
    e=json.load(open(f'{V}/evidence/{p}.json'))
    c=e['coverage']
    rows.append(f"| {p} | {binmap[p]} | {e['level']} | {c['evaluations']:,} | {c['distinct_nontrivial']:,} | {round(e.get('wall_s',0))} s | {', '.join(sorted(set(fixed.get(p,[])))) or '—'} | {', '.join(openf.get(p,[])) or '—'} |")
d=open(f'{V}/DESIGN.md').read().split('\n')
a=next(i for i,l in enumerate(d) if l.startswith('| C01 | vc_query'))
b=next(i for i,l in enumerate(d) if l.startswith('| C36 | vc_rdf'))
d[a:b+1]=rows
open(f'{V}/DESIGN.md','w').write('\n'.join(d))
print(f"fixed={len(kf['fixed'])} open={len(kf['findings'])}")
