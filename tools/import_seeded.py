#!/usr/bin/env python3
"""tools/import_seeded.py <Cxx> <result-line> — copies /tmp/mut-out/<Cxx>/ into /verif/seeded/<Cxx>/ and
extends meta.json with what the verification run showed."""
import json, os, shutil, sys, glob
p = sys.argv[1]; result = sys.argv[2]; extra = sys.argv[3] if len(sys.argv) > 3 else ""
src = f"/tmp/mut-out/{p}"; dst = f"/verif/seeded/{p}"
os.makedirs(dst, exist_ok=True)
for f in glob.glob(src + "/*"):
    if os.path.isfile(f): shutil.copy(f, dst)
m = json.load(open(dst + "/meta.json"))
m["verified_by_main"] = result
if extra: m["verification_notes"] = extra
json.dump(m, open(dst + "/meta.json", "w"), indent=1)
print("imported", p)
