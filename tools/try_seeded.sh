#!/usr/bin/env bash
# tools/try_seeded.sh <dir with patch.diff> <Cxx> [tier] — applies a seeded change to /repo, runs the
# property's check, restores /repo. Prints CAUGHT / MISSED and the first VIOLATION line.
set -u
D="$1"; P="$2"; TIER="${3:-quick}"
cd /repo || exit 2
if [ -n "$(git status --porcelain --untracked-files=no)" ]; then echo "/repo is dirty; refusing"; exit 2; fi
if ! git apply --check "$D/patch.diff" 2>/dev/null; then echo "PATCH-DOES-NOT-APPLY $P"; exit 3; fi
git apply "$D/patch.diff"
mkdir -p /verif/target/seeded
s=$(date +%s)
/verif/bin/check "$P" "$TIER" > /verif/target/seeded/$P.$TIER.out 2> /verif/target/seeded/$P.$TIER.err; rc=$?
e=$(date +%s)
git checkout -q -- .
if [ $rc -eq 1 ] && grep -q "^VIOLATION property=$P" /verif/target/seeded/$P.$TIER.out; then
  echo "CAUGHT $P tier=$TIER time=$((e-s))s: $(grep -m1 '^VIOLATION' /verif/target/seeded/$P.$TIER.out)"
  grep -m1 "detail:" /verif/target/seeded/$P.$TIER.err | cut -c1-300
else
  echo "MISSED $P tier=$TIER rc=$rc time=$((e-s))s"
  tail -3 /verif/target/seeded/$P.$TIER.err | cut -c1-300
fi
