#!/usr/bin/env python3
"""Regenerates /verif/MANIFEST.json from tools/checks.json (one record per claimed property).
Properties that are not in checks.json are listed under not_applicable with the reason
given in tools/not_claimed.json (or 'check not built yet')."""
import json, os
R = '/verif'
checks = json.load(open(f'{R}/tools/checks.json'))
try:
    notc = json.load(open(f'{R}/tools/not_claimed.json'))
except FileNotFoundError:
    notc = {}
props = [json.loads(l) for l in open(f'{R}/properties.jsonl')]
ids = [p['id'] for p in props]
engines = {
 'vc_query': ['C01','C02','C03','C04','C05','C35'],
 'vc_store': ['C06','C10','C30'],
 'vc_mvcc': ['C07','C08','C09'],
 'vc_index': ['C11','C29'],
 'vc_snap': ['C12','C13','C14'],
 'vc_wal': ['C15','C17'],
 'vc_persist': ['C16','C18','C32'],
 'vc_server': ['C19','C23'],
 'vc_proto': ['C20','C21','C22','C24'],
 'vc_parse': ['C25'],
 'vc_algo': ['C26','C27'],
 'vc_hier': ['C28'],
 'vc_raft': ['C31','C33'],
 'vc_opt': ['C34'],
 'vc_rdf': ['C36'],
}
def engine_of(pid):
    for k, v in engines.items():
        if pid in v: return k
m = {
 'version': 1,
 'setup_cmd': 'bash /verif/bin/setup',
 'hooks': {
   'guard': 'cfg(samyama_ai_samyama_graph_verif)',
   'enable': 'RUSTFLAGS --cfg samyama_ai_samyama_graph_verif via /verif/harness/.cargo/config.toml (harness depends on /repo by path, so every check rebuilds /repo with the hooks on)',
   'baseline_off_cmd': 'cd /repo && cargo nextest run --workspace --no-fail-fast --tool-config-file pb:/w/lib/nextest.toml --profile pb --test-threads 8 --offline || cargo test --workspace --no-fail-fast --offline',
   'source_commits': json.load(open(f'{R}/tools/hook_commits.json')) if os.path.exists(f'{R}/tools/hook_commits.json') else [],
   'add_only': True,
 },
 'engines': [
   {'name': k, 'path': f'harness/src/bin/{k}.rs', 'serves_properties': [p for p in v if p in checks],
    'kind_free_text': 'Rust binary: proptest strategies / bounded-exhaustive enumerators + explicit oracle, built against /repo by path'}
   for k, v in engines.items()
 ],
 'checks': [],
 'not_applicable': [],
 'notes': 'All checks: bin/check <Cxx> <quick|thorough> [--replay FILE]. Exit 0 held, 1 VIOLATION, 2 inconclusive. Known findings: known_findings.json (read-only at run time). See DESIGN.md.',
}
for pid in ids:
    if pid in checks:
        c = checks[pid]
        m['checks'].append({
          'property_id': pid,
          'quick_cmd': f'bin/check {pid} quick',
          'thorough_cmd': f'bin/check {pid} thorough',
          'evidence_file': f'/verif/evidence/{pid}.json',
          'replay_cmd_template': f'bin/check {pid} --replay {{path}}',
          'engine': engine_of(pid),
          'level_claimed': {'category': c['category'], 'text': c['text'], 'design_ref': f'DESIGN.md §4 {pid}'},
          'level_note': c['note'],
          'technique': c['technique'],
        })
    else:
        m['not_applicable'].append({'property_id': pid, 'reason': notc.get(pid, 'check not built yet (work in progress); nothing is claimed for this property')})
json.dump(m, open(f'{R}/MANIFEST.json', 'w'), indent=1)
print('claimed', len(m['checks']), 'not claimed', len(m['not_applicable']))
