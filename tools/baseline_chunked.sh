#!/usr/bin/env bash
# tools/baseline_chunked.sh — the repository's test suite (guard off) in disk-friendly chunks:
# a full `cargo nextest run --workspace` links ~190 test executables (60-80 GB) at once; this runs
# them 24 at a time and deletes the executables in between. Prints one summary line per chunk and a total.
cd /repo || exit 2
export CARGO_NET_OFFLINE=true CARGO_INCREMENTAL=0
OUT=${1:-/verif/target/baseline_chunked.log}; : > $OUT
clean() { find /repo/target/debug/deps -maxdepth 1 -type f -perm -u+x -size +5M -delete; }
run() { cargo nextest run --offline --no-fail-fast --test-threads 8 "$@" 2>&1 | grep -E "Summary|FAIL |error:|error\[" | sort -u | tee -a $OUT; clean; }
run --workspace --exclude samyama
run -p samyama --lib --bins
ls tests/*.rs | xargs -n1 basename | sed 's/\.rs$//' | xargs -n 24 | while read -r chunk; do
  args=""; for t in $chunk; do args="$args --test $t"; done
  run -p samyama $args
done
awk '/Summary/ {for(i=1;i<=NF;i++){ if($i=="run:") r+=$(i+1); if($i=="passed,"||$i=="passed") p+=$(i-1); if($i=="failed,"||$i=="failed") f+=$(i-1); if($i=="skipped") s+=$(i-1)}} END {print "TOTAL run="r" passed="p" failed="f+0" skipped="s+0}' $OUT | tee -a $OUT
