//! libFuzzer target for C25 (thorough-tier extra): `samyama::query::parse_query` on arbitrary
//! UTF-8. The semantic oracle is inside the target:
//!   * the call returns (no panic) -- except panics whose message and input have the exact
//!     shape of listed finding KF-C25-1 (ParseIntError unwrap in parse_length_pattern on a
//!     var-length bound that usize::from_str rejects);
//!   * accepted query => text-only numeral cross-check (`c25_lex::lexical_check`): every AST
//!     numeral has a numeral of that magnitude in the text, no non-finite float (tolerated:
//!     KF-C25-4 when the text holds an overflowing float), no SKIP/LIMIT clause vanished
//!     (tolerated: KF-C25-3 when its count is not a plain usize).
//! Pre-screened out (counted by libFuzzer as ordinary executions): inputs nested deeper than
//! 10 brackets or with prefix-operator runs > 64 (abort class KF-C25-5 / backtracking hangs)
//! and inputs above 4 KiB.
#![no_main]
use libfuzzer_sys::fuzz_target;
use std::cell::RefCell;
use std::sync::Once;

#[path = "c25_lex.rs"]
mod c25_lex;

thread_local! {
    static LAST_PANIC: RefCell<Option<String>> = RefCell::new(None);
}
static HOOK: Once = Once::new();

fn prefix_run_too_long(s: &str) -> bool {
    let mut run = 0usize;
    for w in s.split(|c: char| c.is_whitespace() || c == '(') {
        if w.is_empty() {
            continue;
        }
        if w.eq_ignore_ascii_case("NOT") || w.bytes().all(|b| b == b'-') {
            run += w.len().max(1);
            if run > 64 {
                return true;
            }
        } else {
            run = 0;
        }
    }
    false
}

fn fail(input: &str, msg: &str) -> ! {
    eprintln!("C25 VIOLATION (fuzz parse_query): {msg}\n  input: {:?}", input);
    std::process::abort()
}

fuzz_target!(|data: &[u8]| {
    // libfuzzer-sys installs an aborting panic hook at start-up; replace it so that the
    // allow-list below can look at the message first
    HOOK.call_once(|| {
        std::panic::set_hook(Box::new(|info| {
            let msg = if let Some(s) = info.payload().downcast_ref::<&str>() {
                s.to_string()
            } else if let Some(s) = info.payload().downcast_ref::<String>() {
                s.clone()
            } else {
                "<non-string panic>".to_string()
            };
            let loc = info.location().map(|l| format!("{}:{}", l.file(), l.line())).unwrap_or_default();
            LAST_PANIC.with(|p| *p.borrow_mut() = Some(format!("{msg} @ {loc}")));
        }));
    });
    let Ok(s) = std::str::from_utf8(data) else { return };
    if s.len() > 4096 || c25_lex::bracket_depth(s) > 10 || prefix_run_too_long(s) {
        return;
    }
    match std::panic::catch_unwind(|| samyama::query::parse_query(s)) {
        Err(_) => {
            let msg = LAST_PANIC.with(|p| p.borrow_mut().take()).unwrap_or_default();
            let known = msg.contains("ParseIntError") && msg.contains("query/parser.rs") && c25_lex::has_nonplain_varlen_bound(s);
            if !known {
                fail(s, &format!("parse_query panicked: {msg}"));
            }
        }
        Ok(Err(_)) => {}
        Ok(Ok(q)) => {
            let tokens = c25_lex::scan_tokens(&format!("{:?}", q));
            match c25_lex::lexical_check(s, &tokens) {
                Ok(()) => {}
                Err((_, Some(_listed))) => {}
                Err((m, None)) => fail(s, &m),
            }
        }
    }
});
