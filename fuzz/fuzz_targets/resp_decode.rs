//! libFuzzer target for C21 (thorough-tier extra): `RespValue::decode` on arbitrary bytes.
//! Oracle inside the target: the call returns value / need-more / protocol error without
//! panicking; the decoder never consumes more than it was given; if it returns a value,
//! encode -> decode reproduces exactly that value and consumes exactly the encoding
//! (stable round trip).
//! Tolerated (listed, pinned tree): the `$-2` family -- a bulk length below -1 panics on
//! `len + 2` overflow / slice bounds (message allow-list + input predicate).
//! Pre-screened out (abort classes that would end the campaign, counted as plain runs):
//! an array header with a count above 65 536 (Vec::with_capacity of the announced count
//! aborts on allocation) and more than 256 `*` headers (unbounded recursion).
#![no_main]
use bytes::BytesMut;
use libfuzzer_sys::fuzz_target;
use samyama::protocol::RespValue;
use std::cell::RefCell;
use std::sync::Once;

thread_local! {
    static LAST_PANIC: RefCell<Option<String>> = RefCell::new(None);
}
static HOOK: Once = Once::new();

/// any `*<digits>` with a count above the cap, or too many array headers
fn abort_class(data: &[u8]) -> bool {
    let mut stars = 0usize;
    let mut i = 0;
    while i < data.len() {
        if data[i] == b'*' {
            stars += 1;
            let mut j = i + 1;
            let mut v: u64 = 0;
            let mut digits = 0;
            while j < data.len() && data[j].is_ascii_digit() {
                v = v.saturating_mul(10).saturating_add((data[j] - b'0') as u64);
                j += 1;
                digits += 1;
            }
            if digits > 0 && v > 65_536 {
                return true;
            }
            // `+` sign is accepted by usize::from_str
            if j < data.len() && data[j] == b'+' {
                return true;
            }
        }
        i += 1;
    }
    stars > 256
}

/// input predicate of the listed bulk-length finding: a `$` header with a length < -1
fn has_negative_bulk_len(data: &[u8]) -> bool {
    let mut i = 0;
    while i + 2 < data.len() {
        if data[i] == b'$' && data[i + 1] == b'-' {
            let mut j = i + 2;
            let mut v: u64 = 0;
            while j < data.len() && data[j].is_ascii_digit() {
                v = v.saturating_mul(10).saturating_add((data[j] - b'0') as u64);
                j += 1;
            }
            if j > i + 2 && v >= 2 {
                return true;
            }
        }
        i += 1;
    }
    false
}

fn fail(data: &[u8], msg: &str) -> ! {
    eprintln!("C21 VIOLATION (fuzz resp_decode): {msg}\n  input: {:?}", String::from_utf8_lossy(data));
    std::process::abort()
}

fuzz_target!(|data: &[u8]| {
    HOOK.call_once(|| {
        std::panic::set_hook(Box::new(|info| {
            let msg = if let Some(s) = info.payload().downcast_ref::<&str>() {
                s.to_string()
            } else if let Some(s) = info.payload().downcast_ref::<String>() {
                s.clone()
            } else {
                "<non-string panic>".to_string()
            };
            let loc = info.location().map(|l| format!("{}:{}", l.file(), l.line())).unwrap_or_default();
            LAST_PANIC.with(|p| *p.borrow_mut() = Some(format!("{msg} @ {loc}")));
        }));
    });
    if data.len() > 65_536 || abort_class(data) {
        return;
    }
    let mut buf = BytesMut::from(data);
    let res = std::panic::catch_unwind(std::panic::AssertUnwindSafe(|| RespValue::decode(&mut buf)));
    match res {
        Err(_) => {
            let msg = LAST_PANIC.with(|p| p.borrow_mut().take()).unwrap_or_default();
            let known = msg.contains("protocol/resp.rs") && has_negative_bulk_len(data);
            if !known {
                fail(data, &format!("decode panicked: {msg}"));
            }
        }
        Ok(Err(_)) | Ok(Ok(None)) => {}
        Ok(Ok(Some(v))) => {
            if buf.len() > data.len() {
                fail(data, "decoder grew the buffer");
            }
            let mut enc = Vec::new();
            if v.encode(&mut enc).is_err() {
                fail(data, "encode of a decoded value failed");
            }
            // a simple string / error holding CR LF cannot come out of the decoder (lines end
            // at the first CRLF), so the re-encoding is a single well-formed frame
            let mut b2 = BytesMut::from(&enc[..]);
            let again = std::panic::catch_unwind(std::panic::AssertUnwindSafe(|| RespValue::decode(&mut b2)));
            match again {
                Ok(Ok(Some(v2))) => {
                    if v2 != v {
                        fail(data, &format!("re-decoding the encoding gives a different value: {:?} vs {:?}", v, v2));
                    }
                    if !b2.is_empty() {
                        fail(data, "re-decoding left bytes of the encoding unconsumed");
                    }
                }
                other => fail(data, &format!("encoding of a decoded value does not decode: {:?}", other.map(|r| r.map(|o| o.is_some()).map_err(|e| e.to_string())).map_err(|_| "panic"))),
            }
        }
    }
});
