//! Text-only C25 oracle shared by the libFuzzer target. COPY of the helper functions of
//! /verif/harness/src/bin/vc_parse.rs (same names, same bodies) -- regenerate when they change.
#![allow(dead_code)]

pub const KF_DROP: &str = "KF-C25-3";
pub const KF_INF: &str = "KF-C25-4";

#[derive(Clone, Debug, PartialEq)]
pub struct NumTok {
    pub start: usize,
    pub end: usize,
    pub float: bool,
}

pub fn tok_int(v: i128) -> String {
    format!("int:{v}")
}

pub fn tok_flt(x: f64) -> String {
    format!("flt:{:016x}", x.to_bits())
}

pub fn flt_of_tok(t: &str) -> Option<f64> {
    t.strip_prefix("flt:").and_then(|h| u64::from_str_radix(h, 16).ok()).map(f64::from_bits)
}

pub fn scan_tokens(dbg: &str) -> Vec<String> {
    const MINUS: &str = "Unary { op: Minus, expr: ";
    const LIT: &str = "Literal(";
    let b = dbg.as_bytes();
    let mut out = Vec::new();
    let mut i = 0usize;
    let until_paren = |from: usize| -> (usize, &str) {
        let mut j = from;
        while j < b.len() && b[j] != b')' && b[j] != b',' && b[j] != b' ' {
            j += 1;
        }
        (j, &dbg[from..j])
    };
    let minus_count = |at: usize| -> usize {
        // `at` = index of "Integer(" / "Float("; count directly enclosing unary minuses
        let mut p = at;
        if dbg[..p].ends_with(LIT) {
            p -= LIT.len();
        } else {
            return 0;
        }
        let mut n = 0;
        while dbg[..p].ends_with(MINUS) {
            p -= MINUS.len();
            n += 1;
        }
        n
    };
    while i < b.len() {
        let c = b[i];
        if c == b'"' {
            i += 1;
            while i < b.len() && b[i] != b'"' {
                if b[i] == b'\\' {
                    i += 1;
                }
                i += 1;
            }
            i += 1;
            continue;
        }
        let prev_ident = i > 0 && (b[i - 1].is_ascii_alphanumeric() || b[i - 1] == b'_');
        let rest = &dbg[i..];
        if !prev_ident {
            if rest.starts_with("Integer(") {
                let (j, s) = until_paren(i + 8);
                if let Ok(v) = s.parse::<i128>() {
                    let v = if minus_count(i) % 2 == 1 { -v } else { v };
                    out.push(tok_int(v));
                } else {
                    out.push(format!("int:?{s}"));
                }
                i = j;
                continue;
            }
            if rest.starts_with("Float(") {
                let (j, s) = until_paren(i + 6);
                match s.parse::<f64>() {
                    Ok(x) => {
                        let x = if minus_count(i) % 2 == 1 { -x } else { x };
                        out.push(tok_flt(x));
                    }
                    Err(_) => out.push(format!("flt:?{s}")),
                }
                i = j;
                continue;
            }
            let mut matched = false;
            for (pat, name) in [
                ("skip: Some(", "skip"),
                ("limit: Some(", "limit"),
                ("min: Some(", "min"),
                ("max: Some(", "max"),
                ("dimensions: ", "dim"),
            ] {
                if rest.starts_with(pat) {
                    let (j, s) = until_paren(i + pat.len());
                    out.push(format!("{name}:{s}"));
                    i = j;
                    matched = true;
                    break;
                }
            }
            if matched {
                continue;
            }
        }
        i += 1;
    }
    out.sort();
    out
}

pub fn is_ident_byte(c: u8) -> bool {
    c.is_ascii_alphanumeric() || c == b'_'
}

/// numerals of a query per the grammar's `integer` / `float` rules, outside strings,
/// comments, identifiers and parameters (sign not included)
pub fn lex_numerals(q: &str) -> Vec<NumTok> {
    let b = q.as_bytes();
    let mut out = Vec::new();
    let mut i = 0;
    let digits = |mut j: usize, pred: &dyn Fn(u8) -> bool| -> usize {
        while j < b.len() && pred(b[j]) {
            j += 1;
        }
        j
    };
    let dec = |c: u8| c.is_ascii_digit();
    let exponent = |j: usize| -> Option<usize> {
        if j < b.len() && (b[j] == b'e' || b[j] == b'E') {
            let mut k = j + 1;
            if k < b.len() && (b[k] == b'-' || b[k] == b'+') {
                k += 1;
            }
            let e = digits(k, &dec);
            if e > k {
                return Some(e);
            }
        }
        None
    };
    while i < b.len() {
        let c = b[i];
        if c == b'\'' || c == b'"' {
            let q0 = c;
            i += 1;
            while i < b.len() && b[i] != q0 {
                if b[i] == b'\\' {
                    i += 1;
                }
                i += 1;
            }
            i += 1;
        } else if c == b'/' && i + 1 < b.len() && b[i + 1] == b'/' {
            while i < b.len() && b[i] != b'\n' {
                i += 1;
            }
        } else if c == b'/' && i + 1 < b.len() && b[i + 1] == b'*' {
            i += 2;
            while i + 1 < b.len() && !(b[i] == b'*' && b[i + 1] == b'/') {
                i += 1;
            }
            i += 2;
        } else if c == b'$' || c.is_ascii_alphabetic() || c == b'_' {
            i += 1;
            while i < b.len() && is_ident_byte(b[i]) {
                i += 1;
            }
        } else if c == b'.' && i + 1 < b.len() && b[i + 1] == b'.' {
            i += 2;
        } else if c == b'.' && i + 1 < b.len() && b[i + 1].is_ascii_digit() && !(i > 0 && (is_ident_byte(b[i - 1]) || b[i - 1] == b')' || b[i - 1] == b']')) {
            let mut e = digits(i + 1, &dec);
            if let Some(x) = exponent(e) {
                e = x;
            }
            out.push(NumTok { start: i, end: e, float: true });
            i = e;
        } else if c.is_ascii_digit() {
            if c == b'0' && i + 2 < b.len() && (b[i + 1] == b'x' || b[i + 1] == b'X') && b[i + 2].is_ascii_hexdigit() {
                let e = digits(i + 2, &|c| c.is_ascii_hexdigit());
                out.push(NumTok { start: i, end: e, float: false });
                i = e;
            } else if c == b'0' && i + 2 < b.len() && (b[i + 1] == b'o' || b[i + 1] == b'O') && (b'0'..=b'7').contains(&b[i + 2]) {
                let e = digits(i + 2, &|c| (b'0'..=b'7').contains(&c));
                out.push(NumTok { start: i, end: e, float: false });
                i = e;
            } else {
                let e = digits(i, &dec);
                if e + 1 < b.len() && b[e] == b'.' && b[e + 1].is_ascii_digit() {
                    let mut f = digits(e + 1, &dec);
                    if let Some(x) = exponent(f) {
                        f = x;
                    }
                    out.push(NumTok { start: i, end: f, float: true });
                    i = f;
                } else if let Some(x) = exponent(e) {
                    out.push(NumTok { start: i, end: x, float: true });
                    i = x;
                } else {
                    out.push(NumTok { start: i, end: e, float: false });
                    i = e;
                }
            }
        } else {
            i += 1;
        }
    }
    out
}

/// does the text contain a float numeral whose correctly rounded value is not finite?
pub fn has_overflowing_float(q: &str) -> bool {
    lex_numerals(q).iter().any(|t| t.float && q[t.start..t.end].parse::<f64>().map(|x| !x.is_finite()).unwrap_or(false))
}

/// structural predicate of KF-C25-1 on raw text: a `*` followed by a bound (exact or
/// upper) whose source slice `str::parse::<usize>` rejects
pub fn has_nonplain_varlen_bound(q: &str) -> bool {
    let b = q.as_bytes();
    let skip_ws = |mut j: usize| -> usize {
        loop {
            while j < b.len() && (b[j] == b' ' || b[j] == b'\t' || b[j] == b'\r' || b[j] == b'\n') {
                j += 1;
            }
            if j + 1 < b.len() && b[j] == b'/' && b[j + 1] == b'*' {
                let mut k = j + 2;
                while k + 1 < b.len() && !(b[k] == b'*' && b[k + 1] == b'/') {
                    k += 1;
                }
                if k + 1 < b.len() {
                    j = k + 2;
                    continue;
                }
            }
            if j + 1 < b.len() && b[j] == b'/' && b[j + 1] == b'/' {
                while j < b.len() && b[j] != b'\n' {
                    j += 1;
                }
                continue;
            }
            return j;
        }
    };
    let int_at = |j: usize| -> Option<usize> {
        let mut k = j;
        if k < b.len() && b[k] == b'-' {
            k += 1;
        }
        let t = lex_numerals(&q[k..]);
        match t.first() {
            Some(t0) if t0.start == 0 && !t0.float => Some(k + t0.end),
            // a float-shaped token such as 1e5 is not an `integer`; digits prefix still is
            Some(t0) if t0.start == 0 => {
                let mut e = k;
                while e < b.len() && b[e].is_ascii_digit() {
                    e += 1;
                }
                if e > k {
                    Some(e)
                } else {
                    None
                }
            }
            _ => None,
        }
    };
    for (i, c) in b.iter().enumerate() {
        if *c != b'*' {
            continue;
        }
        let j = skip_ws(i + 1);
        let first = int_at(j);
        let after_first = first.unwrap_or(j);
        let k = skip_ws(after_first);
        if k + 1 < b.len() && b[k] == b'.' && b[k + 1] == b'.' {
            let m = k + 2;
            let n = skip_ws(m);
            let e = int_at(n).unwrap_or(n);
            if e > m && q.is_char_boundary(e) && q[m..e].parse::<usize>().is_err() {
                return true;
            }
        } else if let Some(e) = first {
            if q[j..e].parse::<usize>().is_err() {
                return true;
            }
        }
    }
    false
}

/// magnitude of an integer numeral token (any radix); None = above u128
pub fn int_token_mag(s: &str) -> Option<u128> {
    if let Some(h) = s.strip_prefix("0x").or_else(|| s.strip_prefix("0X")) {
        u128::from_str_radix(h, 16).ok()
    } else if let Some(o) = s.strip_prefix("0o").or_else(|| s.strip_prefix("0O")) {
        u128::from_str_radix(o, 8).ok()
    } else {
        s.parse::<u128>().ok()
    }
}

/// Superset of the numerals the grammar can tokenise. Keywords need no whitespace before a
/// numeral (`ORDER BY2`, `LIMIT5`, `u1e-0` = variable `u1e` minus `0`), so the sources are
/// taken very loosely from the text outside strings and comments: every suffix of every
/// maximal digit run (decimal), every `0x` / `0o` followed by digits of that radix, and
/// every float shape starting at any digit or dot.
pub fn loose_numeral_sources(q: &str) -> (Vec<Option<u128>>, Vec<u64>) {
    let b = q.as_bytes();
    let mut clean: Vec<u8> = Vec::with_capacity(b.len());
    let mut i = 0;
    while i < b.len() {
        let c = b[i];
        if c == b'\'' || c == b'"' {
            i += 1;
            while i < b.len() && b[i] != c {
                if b[i] == b'\\' {
                    i += 1;
                }
                i += 1;
            }
            i += 1;
            clean.push(b' ');
        } else if c == b'/' && i + 1 < b.len() && b[i + 1] == b'/' {
            while i < b.len() && b[i] != b'\n' {
                i += 1;
            }
            clean.push(b' ');
        } else if c == b'/' && i + 1 < b.len() && b[i + 1] == b'*' {
            i += 2;
            while i + 1 < b.len() && !(b[i] == b'*' && b[i + 1] == b'/') {
                i += 1;
            }
            i += 2;
            clean.push(b' ');
        } else {
            clean.push(if c >= 0x80 { b'?' } else { c });
            i += 1;
        }
    }
    let t = clean;
    let text = String::from_utf8_lossy(&t).to_string();
    let run = |mut j: usize, pred: &dyn Fn(u8) -> bool| -> usize {
        while j < t.len() && pred(t[j]) {
            j += 1;
        }
        j
    };
    let dec = |c: u8| c.is_ascii_digit();
    let mut ints: Vec<Option<u128>> = Vec::new();
    let mut flts: Vec<u64> = Vec::new();
    let mut p = 0;
    while p < t.len() {
        let c = t[p];
        if c.is_ascii_digit() {
            let e = run(p, &dec);
            // every suffix of the run, but only from the run's start scan once
            if p == 0 || !t[p - 1].is_ascii_digit() {
                for s0 in p..e {
                    ints.push(text[s0..e].parse::<u128>().ok());
                }
            }
            if c == b'0' && p + 2 < t.len() + 1 && p + 1 < t.len() {
                if t[p + 1] == b'x' || t[p + 1] == b'X' {
                    let h = run(p + 2, &|c| c.is_ascii_hexdigit());
                    if h > p + 2 {
                        ints.push(u128::from_str_radix(&text[p + 2..h], 16).ok());
                    }
                } else if t[p + 1] == b'o' || t[p + 1] == b'O' {
                    let o = run(p + 2, &|c| (b'0'..=b'7').contains(&c));
                    if o > p + 2 {
                        ints.push(u128::from_str_radix(&text[p + 2..o], 8).ok());
                    }
                }
            }
        }
        if c.is_ascii_digit() || c == b'.' {
            // float shapes starting here: d+ . d+ [exp] | d+ exp | . d+ [exp]
            let d1 = run(p, &dec);
            let exp = |j: usize| -> Option<usize> {
                if j < t.len() && (t[j] == b'e' || t[j] == b'E') {
                    let mut k = j + 1;
                    if k < t.len() && (t[k] == b'-' || t[k] == b'+') {
                        k += 1;
                    }
                    let e = run(k, &dec);
                    if e > k {
                        return Some(e);
                    }
                }
                None
            };
            let mut ends: Vec<usize> = Vec::new();
            if d1 < t.len() && t[d1] == b'.' {
                let d2 = run(d1 + 1, &dec);
                if d2 > d1 + 1 && (d1 > p || c == b'.') {
                    ends.push(d2);
                    if let Some(x) = exp(d2) {
                        ends.push(x);
                    }
                }
            }
            if d1 > p {
                if let Some(x) = exp(d1) {
                    ends.push(x);
                }
            }
            for e in ends {
                if let Ok(x) = text[p..e].parse::<f64>() {
                    flts.push(x.abs().to_bits());
                }
            }
        }
        p += 1;
    }
    (ints, flts)
}

/// SKIP / LIMIT keywords followed by an integer numeral (outside strings and comments):
/// returns the numeral texts including a leading minus
pub fn count_clauses(q: &str) -> Vec<String> {
    let nums = lex_numerals(q);
    let b = q.as_bytes();
    let mut out = Vec::new();
    for t in nums.iter().filter(|t| !t.float) {
        // walk back over an optional minus and whitespace to the preceding word
        let mut j = t.start;
        let mut neg = false;
        if j > 0 && b[j - 1] == b'-' {
            j -= 1;
            neg = true;
        }
        let ws_end = j;
        while j > 0 && (b[j - 1] == b' ' || b[j - 1] == b'\t' || b[j - 1] == b'\r' || b[j - 1] == b'\n') {
            j -= 1;
        }
        if j == ws_end && !neg {
            continue;
        }
        let we = j;
        while j > 0 && is_ident_byte(b[j - 1]) {
            j -= 1;
        }
        let w = &q[j..we];
        let before_ok = j == 0 || !(b[j - 1] == b'.' || b[j - 1] == b':' || b[j - 1] == b'$');
        if before_ok && (w.eq_ignore_ascii_case("SKIP") || w.eq_ignore_ascii_case("LIMIT")) {
            // the numeral must really be lexed at top level (lex_numerals skipped strings/comments)
            out.push(format!("{}{}", if neg { "-" } else { "" }, &q[t.start..t.end]));
        }
    }
    out
}

/// Universal, text-only oracle for an accepted query: every numeral in the AST has a
/// numeral of the same magnitude in the text (all AST numerals are built from `integer` /
/// `float` tokens), no float is non-finite, and no `SKIP n` / `LIMIT n` clause vanished.
/// Err((message, Some(kf))) when the deviation has the shape of a listed finding.
pub fn lexical_check(q: &str, tokens: &[String]) -> Result<(), (String, Option<&'static str>)> {
    if let Some(t) = nonfinite(tokens) {
        let kf = if has_overflowing_float(q) { Some(KF_INF) } else { None };
        return Err((format!("accepted query whose AST holds a non-finite float ({t})"), kf));
    }
    let (int_mags, flt_vals) = loose_numeral_sources(q);
    for t in tokens {
        let Some((k, v)) = t.split_once(':') else { continue };
        if t == "min:1" || t == "dim:1536" {
            continue;
        }
        if k == "flt" {
            let x = flt_of_tok(t).map(|x| x.abs().to_bits());
            if !x.map(|x| flt_vals.contains(&x)).unwrap_or(false) {
                return Err((format!("AST float {t} is not the correctly rounded value of any float numeral in the text"), None));
            }
        } else {
            let m = v.trim_start_matches('-').parse::<u128>().ok();
            if m.is_none() || !int_mags.contains(&m) {
                return Err((format!("AST numeral {t} does not equal any integer numeral in the text"), None));
            }
        }
    }
    let clauses = count_clauses(q);
    let in_ast = tokens.iter().filter(|t| t.starts_with("skip:") || t.starts_with("limit:")).count();
    if in_ast < clauses.len() {
        let all_plain = clauses.iter().all(|c| c.parse::<usize>().is_ok());
        let kf = if all_plain { None } else { Some(KF_DROP) };
        return Err((format!("the text has {} SKIP/LIMIT clauses with a count ({:?}) but the AST holds {}", clauses.len(), clauses, in_ast), kf));
    }
    Ok(())
}

pub fn bracket_depth(q: &str) -> usize {
    let mut d = 0usize;
    let mut m = 0usize;
    for c in q.bytes() {
        match c {
            b'(' | b'[' | b'{' => {
                d += 1;
                m = m.max(d);
            }
            b')' | b']' | b'}' => d = d.saturating_sub(1),
            _ => {}
        }
    }
    m
}

pub fn nonfinite(tokens: &[String]) -> Option<String> {
    tokens.iter().find(|t| t.starts_with("flt:?") || flt_of_tok(t).map(|x| !x.is_finite()).unwrap_or(false)).cloned()
}
