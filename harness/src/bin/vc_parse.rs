//! C25 — the Cypher parser never panics and never silently changes numbers.
//!
//! Generated inputs: (a) grammar templates with boundary numerals in every numeric slot
//! (var-length bounds, SKIP/LIMIT in every statement form, integer / float literals in
//! expression and value positions), (b) numeral substitution into the repo's own test
//! queries (slot kinds discovered by a sentinel differential), (c) byte-level mutation of
//! those queries, (d) homogeneous deep nesting. Oracle: under fork isolation the call
//! returns; `Ok` ⇒ the numerals read back from the AST are exactly the mathematical values
//! written (floats: correctly rounded, finite); a value that does not fit ⇒ `Err`.
//! `Err` is always acceptable (counted as refusal when everything fitted).

use proptest::prelude::*;
use proptest::strategy::ValueTree;
use proptest::test_runner::TestRunner;
use serde::{Deserialize, Serialize};
use serde_json::{json, Value};
use std::collections::BTreeMap;
use vcheck::forkrun::{run_isolated, Outcome};
use vcheck::*;

const KF_UNWRAP: &str = "KF-C25-1"; // var-length max/exact bound: parse().unwrap() panics
const KF_MIN1: &str = "KF-C25-2"; // var-length lower bound: unwrap_or(1)
const KF_DROP: &str = "KF-C25-3"; // SKIP/LIMIT: .parse().ok() drops the bound
const KF_INF: &str = "KF-C25-4"; // float literal overflowing to inf accepted
const KF_STACK: &str = "KF-C25-5"; // unbounded recursion on nesting depth
/// KF-C25-5 explains a stack overflow only at generator nesting depth >= this.
const STACK_KF_MIN_DEPTH: u64 = 256;
const PER_CASE_TIMEOUT_MS: i32 = 5000;
const MAX_BRACKET_DEPTH: usize = 10;

// =======================================================================================
// Case representation (also the replay format)

#[derive(Clone, Debug, Serialize, Deserialize, PartialEq)]
struct Quirk {
    kf: String,
    /// the listed defect panics on this slot (ParseIntError unwrap) instead of answering
    panic: bool,
    /// tokens the AST holds for this slot under the listed defect
    tokens: Vec<String>,
}

#[derive(Clone, Debug, Serialize, Deserialize, PartialEq)]
struct Slot {
    kind: String,
    text: String,
    /// AST tokens when the written value fits the slot's type; None = does not fit
    fit: Option<Vec<String>>,
    quirk: Option<Quirk>,
    boundary: bool,
}

#[derive(Clone, Debug, Serialize, Deserialize, PartialEq)]
struct Case {
    class: String,
    query: String,
    /// "numerals": full oracle; "lexical": returns + text-only numeral cross-check;
    /// "strings": returns + the AST string literals equal `fixed` (str:<hex> tokens);
    /// "returns": returns (AST is not inspected: nest class, implementation-defined escapes)
    oracle: String,
    #[serde(default)]
    fixed: Vec<String>,
    #[serde(default)]
    slots: Vec<Slot>,
    /// run the parse on a thread with this stack (KiB); 0 = worker main thread
    #[serde(default)]
    stack_kib: u64,
    /// generator nesting parameter (nest class), else 0
    #[serde(default)]
    depth: u64,
}

#[derive(Clone, Debug, PartialEq)]
enum Actual {
    Ok(Vec<String>),
    Err(String),
    Panic(String),
    Crash(String),
    Timeout,
}

// =======================================================================================
// Reading numerals back from the AST (Debug rendering, string contents skipped)

fn tok_int(v: i128) -> String {
    format!("int:{v}")
}
fn tok_flt(x: f64) -> String {
    format!("flt:{:016x}", x.to_bits())
}
fn flt_of_tok(t: &str) -> Option<f64> {
    t.strip_prefix("flt:").and_then(|h| u64::from_str_radix(h, 16).ok()).map(f64::from_bits)
}

fn scan_tokens(dbg: &str) -> Vec<String> {
    const MINUS: &str = "Unary { op: Minus, expr: ";
    const LIT: &str = "Literal(";
    let b = dbg.as_bytes();
    let mut out = Vec::new();
    let mut i = 0usize;
    let until_paren = |from: usize| -> (usize, &str) {
        let mut j = from;
        while j < b.len() && b[j] != b')' && b[j] != b',' && b[j] != b' ' {
            j += 1;
        }
        (j, &dbg[from..j])
    };
    let minus_count = |at: usize| -> usize {
        // `at` = index of "Integer(" / "Float("; count directly enclosing unary minuses
        let mut p = at;
        if dbg[..p].ends_with(LIT) {
            p -= LIT.len();
        } else {
            return 0;
        }
        let mut n = 0;
        while dbg[..p].ends_with(MINUS) {
            p -= MINUS.len();
            n += 1;
        }
        n
    };
    while i < b.len() {
        let c = b[i];
        if c == b'"' {
            i += 1;
            while i < b.len() && b[i] != b'"' {
                if b[i] == b'\\' {
                    i += 1;
                }
                i += 1;
            }
            i += 1;
            continue;
        }
        let prev_ident = i > 0 && (b[i - 1].is_ascii_alphanumeric() || b[i - 1] == b'_');
        let rest = &dbg[i..];
        if !prev_ident {
            if rest.starts_with("Integer(") {
                let (j, s) = until_paren(i + 8);
                if let Ok(v) = s.parse::<i128>() {
                    let v = if minus_count(i) % 2 == 1 { -v } else { v };
                    out.push(tok_int(v));
                } else {
                    out.push(format!("int:?{s}"));
                }
                i = j;
                continue;
            }
            if rest.starts_with("Float(") {
                let (j, s) = until_paren(i + 6);
                match s.parse::<f64>() {
                    Ok(x) => {
                        let x = if minus_count(i) % 2 == 1 { -x } else { x };
                        out.push(tok_flt(x));
                    }
                    Err(_) => out.push(format!("flt:?{s}")),
                }
                i = j;
                continue;
            }
            let mut matched = false;
            for (pat, name) in [
                ("skip: Some(", "skip"),
                ("limit: Some(", "limit"),
                ("min: Some(", "min"),
                ("max: Some(", "max"),
                ("dimensions: ", "dim"),
            ] {
                if rest.starts_with(pat) {
                    let (j, s) = until_paren(i + pat.len());
                    out.push(format!("{name}:{s}"));
                    i = j;
                    matched = true;
                    break;
                }
            }
            if matched {
                continue;
            }
        }
        i += 1;
    }
    out.sort();
    out
}


fn hex_of(s: &str) -> String {
    s.bytes().map(|b| format!("{b:02x}")).collect()
}
fn tok_str(s: &str) -> String {
    format!("str:{}", hex_of(s))
}
fn show_str_tok(t: &str) -> String {
    let h = t.strip_prefix("str:").unwrap_or(t);
    let bytes: Vec<u8> = (0..h.len() / 2).filter_map(|i| u8::from_str_radix(&h[2 * i..2 * i + 2], 16).ok()).collect();
    format!("{:?}", String::from_utf8_lossy(&bytes))
}

/// String literals of the AST: every `String("...")` of the Debug rendering, with Rust's
/// Debug escaping undone, as `str:<hex of the UTF-8 bytes>` tokens (sorted).
fn scan_str_tokens(dbg: &str) -> Vec<String> {
    let b = dbg.as_bytes();
    let mut out = Vec::new();
    let mut i = 0usize;
    while i < b.len() {
        if b[i] != b'"' {
            i += 1;
            continue;
        }
        let is_value = dbg[..i].ends_with("String(") && !(i >= 8 && is_ident_byte(b[i - 8]));
        // undo Debug escaping up to the closing quote
        let mut val = String::new();
        let mut chars = dbg[i + 1..].char_indices();
        let mut end = dbg.len();
        while let Some((off, c)) = chars.next() {
            if c == '"' {
                end = i + 1 + off + 1;
                break;
            }
            if c != '\\' {
                val.push(c);
                continue;
            }
            match chars.next().map(|x| x.1) {
                Some('n') => val.push('\n'),
                Some('r') => val.push('\r'),
                Some('t') => val.push('\t'),
                Some('0') => val.push('\0'),
                Some('u') => {
                    // \u{hex}
                    let mut hex = String::new();
                    for (_, h) in chars.by_ref() {
                        if h == '}' {
                            break;
                        }
                        if h != '{' {
                            hex.push(h);
                        }
                    }
                    if let Some(ch) = u32::from_str_radix(&hex, 16).ok().and_then(char::from_u32) {
                        val.push(ch);
                    }
                }
                Some(other) => val.push(other),
                None => {}
            }
        }
        if is_value {
            out.push(tok_str(&val));
        }
        i = end;
    }
    out.sort();
    out
}

// =======================================================================================
// Worker side: run one case, return a compact verdict

fn exec_query(query: &str, scan: bool, mark_pipeline: bool) -> Vec<u8> {
    exec_query_mode(query, scan, mark_pipeline, false)
}

fn exec_query_mode(query: &str, scan: bool, mark_pipeline: bool, strings: bool) -> Vec<u8> {
    match catch(|| samyama::query::parse_query(query)) {
        Ok(Ok(q)) => {
            if scan {
                let dbg = format!("{:?}", q);
                let mut toks = if strings { scan_str_tokens(&dbg) } else { scan_tokens(&dbg) };
                if mark_pipeline && q.needs_clause_pipeline {
                    toks.push("pipeline".into());
                }
                let mut v = vec![b'O'];
                v.extend_from_slice(toks.join("\n").as_bytes());
                v
            } else {
                // deep ASTs: neither rendering nor dropping is part of the parse call
                std::mem::forget(q);
                vec![b'O']
            }
        }
        Ok(Err(e)) => {
            let mut v = vec![b'E'];
            v.extend_from_slice(truncate(&e.to_string(), 160).as_bytes());
            v
        }
        Err(p) => {
            let mut v = vec![b'P'];
            v.extend_from_slice(truncate(&p, 300).as_bytes());
            v
        }
    }
}

fn child_run(case: &Case) -> Vec<u8> {
    let scan = case.oracle != "returns";
    if case.stack_kib == 0 {
        exec_query_mode(&case.query, scan, case.class == "probe", case.oracle == "strings")
    } else {
        // the runtime's "has overflowed its stack" message is expected noise here
        unsafe {
            let devnull = libc::open(b"/dev/null\0".as_ptr() as *const libc::c_char, libc::O_WRONLY);
            if devnull >= 0 {
                libc::dup2(devnull, 2);
                libc::close(devnull);
            }
        }
        let q = case.query.clone();
        let h = std::thread::Builder::new()
            .stack_size((case.stack_kib as usize) * 1024)
            .spawn(move || {
                let r = exec_query(&q, scan, false);
                std::mem::forget(q);
                r
            })
            .expect("spawn");
        h.join().unwrap_or_else(|_| b"Pthread panicked".to_vec())
    }
}

fn decode_outcome(o: &Outcome) -> Actual {
    match o {
        Outcome::Done(p) => {
            let body = String::from_utf8_lossy(&p[1.min(p.len())..]).to_string();
            match p.first() {
                Some(b'O') => Actual::Ok(if body.is_empty() { vec![] } else { body.split('\n').map(|s| s.to_string()).collect() }),
                Some(b'E') => Actual::Err(body),
                Some(b'P') => Actual::Panic(body),
                _ => Actual::Crash("malformed worker payload".into()),
            }
        }
        Outcome::Timeout => Actual::Timeout,
        other => Actual::Crash(other.describe()),
    }
}

fn eval_cases(cases: &[Case]) -> Vec<Actual> {
    run_isolated(cases, PER_CASE_TIMEOUT_MS, &|_i, c: &Case| child_run(c)).iter().map(decode_outcome).collect()
}

// =======================================================================================
// Lexical helpers on query text

fn is_ident_byte(c: u8) -> bool {
    c.is_ascii_alphanumeric() || c == b'_'
}

#[derive(Clone, Debug, PartialEq)]
struct NumTok {
    start: usize,
    end: usize,
    float: bool,
}

/// numerals of a query per the grammar's `integer` / `float` rules, outside strings,
/// comments, identifiers and parameters (sign not included)
fn lex_numerals(q: &str) -> Vec<NumTok> {
    let b = q.as_bytes();
    let mut out = Vec::new();
    let mut i = 0;
    let digits = |mut j: usize, pred: &dyn Fn(u8) -> bool| -> usize {
        while j < b.len() && pred(b[j]) {
            j += 1;
        }
        j
    };
    let dec = |c: u8| c.is_ascii_digit();
    let exponent = |j: usize| -> Option<usize> {
        if j < b.len() && (b[j] == b'e' || b[j] == b'E') {
            let mut k = j + 1;
            if k < b.len() && (b[k] == b'-' || b[k] == b'+') {
                k += 1;
            }
            let e = digits(k, &dec);
            if e > k {
                return Some(e);
            }
        }
        None
    };
    while i < b.len() {
        let c = b[i];
        if c == b'\'' || c == b'"' {
            let q0 = c;
            i += 1;
            while i < b.len() && b[i] != q0 {
                if b[i] == b'\\' {
                    i += 1;
                }
                i += 1;
            }
            i += 1;
        } else if c == b'/' && i + 1 < b.len() && b[i + 1] == b'/' {
            while i < b.len() && b[i] != b'\n' {
                i += 1;
            }
        } else if c == b'/' && i + 1 < b.len() && b[i + 1] == b'*' {
            i += 2;
            while i + 1 < b.len() && !(b[i] == b'*' && b[i + 1] == b'/') {
                i += 1;
            }
            i += 2;
        } else if c == b'$' || c.is_ascii_alphabetic() || c == b'_' {
            i += 1;
            while i < b.len() && is_ident_byte(b[i]) {
                i += 1;
            }
        } else if c == b'.' && i + 1 < b.len() && b[i + 1] == b'.' {
            i += 2;
        } else if c == b'.' && i + 1 < b.len() && b[i + 1].is_ascii_digit() && !(i > 0 && (is_ident_byte(b[i - 1]) || b[i - 1] == b')' || b[i - 1] == b']')) {
            let mut e = digits(i + 1, &dec);
            if let Some(x) = exponent(e) {
                e = x;
            }
            out.push(NumTok { start: i, end: e, float: true });
            i = e;
        } else if c.is_ascii_digit() {
            if c == b'0' && i + 2 < b.len() && (b[i + 1] == b'x' || b[i + 1] == b'X') && b[i + 2].is_ascii_hexdigit() {
                let e = digits(i + 2, &|c| c.is_ascii_hexdigit());
                out.push(NumTok { start: i, end: e, float: false });
                i = e;
            } else if c == b'0' && i + 2 < b.len() && (b[i + 1] == b'o' || b[i + 1] == b'O') && (b'0'..=b'7').contains(&b[i + 2]) {
                let e = digits(i + 2, &|c| (b'0'..=b'7').contains(&c));
                out.push(NumTok { start: i, end: e, float: false });
                i = e;
            } else {
                let e = digits(i, &dec);
                if e + 1 < b.len() && b[e] == b'.' && b[e + 1].is_ascii_digit() {
                    let mut f = digits(e + 1, &dec);
                    if let Some(x) = exponent(f) {
                        f = x;
                    }
                    out.push(NumTok { start: i, end: f, float: true });
                    i = f;
                } else if let Some(x) = exponent(e) {
                    out.push(NumTok { start: i, end: x, float: true });
                    i = x;
                } else {
                    out.push(NumTok { start: i, end: e, float: false });
                    i = e;
                }
            }
        } else {
            i += 1;
        }
    }
    out
}

/// does the text contain a float numeral whose correctly rounded value is not finite?
fn has_overflowing_float(q: &str) -> bool {
    lex_numerals(q).iter().any(|t| t.float && q[t.start..t.end].parse::<f64>().map(|x| !x.is_finite()).unwrap_or(false))
}

/// structural predicate of KF-C25-1 on raw text: a `*` followed by a bound (exact or
/// upper) whose source slice `str::parse::<usize>` rejects
fn has_nonplain_varlen_bound(q: &str) -> bool {
    let b = q.as_bytes();
    let skip_ws = |mut j: usize| -> usize {
        loop {
            while j < b.len() && (b[j] == b' ' || b[j] == b'\t' || b[j] == b'\r' || b[j] == b'\n') {
                j += 1;
            }
            if j + 1 < b.len() && b[j] == b'/' && b[j + 1] == b'*' {
                let mut k = j + 2;
                while k + 1 < b.len() && !(b[k] == b'*' && b[k + 1] == b'/') {
                    k += 1;
                }
                if k + 1 < b.len() {
                    j = k + 2;
                    continue;
                }
            }
            if j + 1 < b.len() && b[j] == b'/' && b[j + 1] == b'/' {
                while j < b.len() && b[j] != b'\n' {
                    j += 1;
                }
                continue;
            }
            return j;
        }
    };
    let int_at = |j: usize| -> Option<usize> {
        let mut k = j;
        if k < b.len() && b[k] == b'-' {
            k += 1;
        }
        let t = lex_numerals(&q[k..]);
        match t.first() {
            Some(t0) if t0.start == 0 && !t0.float => Some(k + t0.end),
            // a float-shaped token such as 1e5 is not an `integer`; digits prefix still is
            Some(t0) if t0.start == 0 => {
                let mut e = k;
                while e < b.len() && b[e].is_ascii_digit() {
                    e += 1;
                }
                if e > k {
                    Some(e)
                } else {
                    None
                }
            }
            _ => None,
        }
    };
    for (i, c) in b.iter().enumerate() {
        if *c != b'*' {
            continue;
        }
        let j = skip_ws(i + 1);
        let first = int_at(j);
        let after_first = first.unwrap_or(j);
        let k = skip_ws(after_first);
        if k + 1 < b.len() && b[k] == b'.' && b[k + 1] == b'.' {
            let m = k + 2;
            let n = skip_ws(m);
            let e = int_at(n).unwrap_or(n);
            if e > m && q.is_char_boundary(e) && q[m..e].parse::<usize>().is_err() {
                return true;
            }
        } else if let Some(e) = first {
            if q[j..e].parse::<usize>().is_err() {
                return true;
            }
        }
    }
    false
}


/// magnitude of an integer numeral token (any radix); None = above u128
fn int_token_mag(s: &str) -> Option<u128> {
    if let Some(h) = s.strip_prefix("0x").or_else(|| s.strip_prefix("0X")) {
        u128::from_str_radix(h, 16).ok()
    } else if let Some(o) = s.strip_prefix("0o").or_else(|| s.strip_prefix("0O")) {
        u128::from_str_radix(o, 8).ok()
    } else {
        s.parse::<u128>().ok()
    }
}


/// Superset of the numerals the grammar can tokenise. Keywords need no whitespace before a
/// numeral (`ORDER BY2`, `LIMIT5`, `u1e-0` = variable `u1e` minus `0`), so the sources are
/// taken very loosely from the text outside strings and comments: every suffix of every
/// maximal digit run (decimal), every `0x` / `0o` followed by digits of that radix, and
/// every float shape starting at any digit or dot.
fn loose_numeral_sources(q: &str) -> (Vec<Option<u128>>, Vec<u64>) {
    let b = q.as_bytes();
    let mut clean: Vec<u8> = Vec::with_capacity(b.len());
    let mut i = 0;
    while i < b.len() {
        let c = b[i];
        if c == b'\'' || c == b'"' {
            i += 1;
            while i < b.len() && b[i] != c {
                if b[i] == b'\\' {
                    i += 1;
                }
                i += 1;
            }
            i += 1;
            clean.push(b' ');
        } else if c == b'/' && i + 1 < b.len() && b[i + 1] == b'/' {
            while i < b.len() && b[i] != b'\n' {
                i += 1;
            }
            clean.push(b' ');
        } else if c == b'/' && i + 1 < b.len() && b[i + 1] == b'*' {
            i += 2;
            while i + 1 < b.len() && !(b[i] == b'*' && b[i + 1] == b'/') {
                i += 1;
            }
            i += 2;
            clean.push(b' ');
        } else {
            clean.push(if c >= 0x80 { b'?' } else { c });
            i += 1;
        }
    }
    let t = clean;
    let text = String::from_utf8_lossy(&t).to_string();
    let run = |mut j: usize, pred: &dyn Fn(u8) -> bool| -> usize {
        while j < t.len() && pred(t[j]) {
            j += 1;
        }
        j
    };
    let dec = |c: u8| c.is_ascii_digit();
    let mut ints: Vec<Option<u128>> = Vec::new();
    let mut flts: Vec<u64> = Vec::new();
    let mut p = 0;
    while p < t.len() {
        let c = t[p];
        if c.is_ascii_digit() {
            let e = run(p, &dec);
            // every suffix of the run, but only from the run's start scan once
            if p == 0 || !t[p - 1].is_ascii_digit() {
                for s0 in p..e {
                    ints.push(text[s0..e].parse::<u128>().ok());
                }
            }
            if c == b'0' && p + 2 < t.len() + 1 && p + 1 < t.len() {
                if t[p + 1] == b'x' || t[p + 1] == b'X' {
                    let h = run(p + 2, &|c| c.is_ascii_hexdigit());
                    if h > p + 2 {
                        ints.push(u128::from_str_radix(&text[p + 2..h], 16).ok());
                    }
                } else if t[p + 1] == b'o' || t[p + 1] == b'O' {
                    let o = run(p + 2, &|c| (b'0'..=b'7').contains(&c));
                    if o > p + 2 {
                        ints.push(u128::from_str_radix(&text[p + 2..o], 8).ok());
                    }
                }
            }
        }
        if c.is_ascii_digit() || c == b'.' {
            // float shapes starting here: d+ . d+ [exp] | d+ exp | . d+ [exp]
            let d1 = run(p, &dec);
            let exp = |j: usize| -> Option<usize> {
                if j < t.len() && (t[j] == b'e' || t[j] == b'E') {
                    let mut k = j + 1;
                    if k < t.len() && (t[k] == b'-' || t[k] == b'+') {
                        k += 1;
                    }
                    let e = run(k, &dec);
                    if e > k {
                        return Some(e);
                    }
                }
                None
            };
            let mut ends: Vec<usize> = Vec::new();
            if d1 < t.len() && t[d1] == b'.' {
                let d2 = run(d1 + 1, &dec);
                if d2 > d1 + 1 && (d1 > p || c == b'.') {
                    ends.push(d2);
                    if let Some(x) = exp(d2) {
                        ends.push(x);
                    }
                }
            }
            if d1 > p {
                if let Some(x) = exp(d1) {
                    ends.push(x);
                }
            }
            for e in ends {
                if let Ok(x) = text[p..e].parse::<f64>() {
                    flts.push(x.abs().to_bits());
                }
            }
        }
        p += 1;
    }
    (ints, flts)
}

/// SKIP / LIMIT keywords followed by an integer numeral (outside strings and comments):
/// returns the numeral texts including a leading minus
fn count_clauses(q: &str) -> Vec<String> {
    let nums = lex_numerals(q);
    let b = q.as_bytes();
    let mut out = Vec::new();
    for t in nums.iter().filter(|t| !t.float) {
        // walk back over an optional minus and whitespace to the preceding word
        let mut j = t.start;
        let mut neg = false;
        if j > 0 && b[j - 1] == b'-' {
            j -= 1;
            neg = true;
        }
        let ws_end = j;
        while j > 0 && (b[j - 1] == b' ' || b[j - 1] == b'\t' || b[j - 1] == b'\r' || b[j - 1] == b'\n') {
            j -= 1;
        }
        if j == ws_end && !neg {
            continue;
        }
        let we = j;
        while j > 0 && is_ident_byte(b[j - 1]) {
            j -= 1;
        }
        let w = &q[j..we];
        let before_ok = j == 0 || !(b[j - 1] == b'.' || b[j - 1] == b':' || b[j - 1] == b'$');
        if before_ok && (w.eq_ignore_ascii_case("SKIP") || w.eq_ignore_ascii_case("LIMIT")) {
            // the numeral must really be lexed at top level (lex_numerals skipped strings/comments)
            out.push(format!("{}{}", if neg { "-" } else { "" }, &q[t.start..t.end]));
        }
    }
    out
}

/// Universal, text-only oracle for an accepted query: every numeral in the AST has a
/// numeral of the same magnitude in the text (all AST numerals are built from `integer` /
/// `float` tokens), no float is non-finite, and no `SKIP n` / `LIMIT n` clause vanished.
/// Err((message, Some(kf))) when the deviation has the shape of a listed finding.
fn lexical_check(q: &str, tokens: &[String]) -> Result<(), (String, Option<&'static str>)> {
    if let Some(t) = nonfinite(tokens) {
        let kf = if has_overflowing_float(q) { Some(KF_INF) } else { None };
        return Err((format!("accepted query whose AST holds a non-finite float ({t})"), kf));
    }
    let (int_mags, flt_vals) = loose_numeral_sources(q);
    for t in tokens {
        let Some((k, v)) = t.split_once(':') else { continue };
        if t == "min:1" || t == "dim:1536" {
            continue;
        }
        if k == "flt" {
            let x = flt_of_tok(t).map(|x| x.abs().to_bits());
            if !x.map(|x| flt_vals.contains(&x)).unwrap_or(false) {
                return Err((format!("AST float {t} is not the correctly rounded value of any float numeral in the text"), None));
            }
        } else {
            let m = v.trim_start_matches('-').parse::<u128>().ok();
            if m.is_none() || !int_mags.contains(&m) {
                return Err((format!("AST numeral {t} does not equal any integer numeral in the text"), None));
            }
        }
    }
    let clauses = count_clauses(q);
    let in_ast = tokens.iter().filter(|t| t.starts_with("skip:") || t.starts_with("limit:")).count();
    if in_ast < clauses.len() {
        let all_plain = clauses.iter().all(|c| c.parse::<usize>().is_ok());
        let kf = if all_plain { None } else { Some(KF_DROP) };
        return Err((format!("the text has {} SKIP/LIMIT clauses with a count ({:?}) but the AST holds {}", clauses.len(), clauses, in_ast), kf));
    }
    Ok(())
}

fn bracket_depth(q: &str) -> usize {
    let mut d = 0usize;
    let mut m = 0usize;
    for c in q.bytes() {
        match c {
            b'(' | b'[' | b'{' => {
                d += 1;
                m = m.max(d);
            }
            b')' | b']' | b'}' => d = d.saturating_sub(1),
            _ => {}
        }
    }
    m
}

/// blank out opening brackets that would push the running depth above the cap
fn cap_brackets(q: &str) -> String {
    let mut d = 0usize;
    let mut out = String::with_capacity(q.len());
    for ch in q.chars() {
        match ch {
            '(' | '[' | '{' => {
                if d >= MAX_BRACKET_DEPTH {
                    out.push(' ');
                } else {
                    d += 1;
                    out.push(ch);
                }
            }
            ')' | ']' | '}' => {
                d = d.saturating_sub(1);
                out.push(ch);
            }
            _ => out.push(ch),
        }
    }
    out
}

// =======================================================================================
// The oracle

#[derive(Clone, Debug, PartialEq)]
enum Verdict {
    Pass { refusal: bool },
    Known(Vec<String>),
    Timeout,
    Violation(String),
}

struct Kfs<'a> {
    known: &'a Known,
    strict: bool,
}
impl<'a> Kfs<'a> {
    fn on(&self, id: &str) -> bool {
        !self.strict && self.known.active(id)
    }
}

fn nonfinite(tokens: &[String]) -> Option<String> {
    tokens.iter().find(|t| t.starts_with("flt:?") || flt_of_tok(t).map(|x| !x.is_finite()).unwrap_or(false)).cloned()
}

fn judge(case: &Case, actual: &Actual, kfs: &Kfs) -> Verdict {
    match actual {
        Actual::Timeout => Verdict::Timeout,
        Actual::Crash(how) => {
            if kfs.on(KF_STACK) && case.class.starts_with("nest:") && case.depth >= STACK_KF_MIN_DEPTH && (how.contains("SIGSEGV") || how.contains("SIGABRT")) {
                Verdict::Known(vec![KF_STACK.into()])
            } else {
                Verdict::Violation(format!("parse_query did not return: {how} (bracket depth {}, generator depth {})", bracket_depth(&case.query), case.depth))
            }
        }
        Actual::Panic(msg) => {
            let unwrap_sig = msg.contains("ParseIntError") && msg.contains("query/parser.rs");
            let explained = if case.oracle == "numerals" {
                case.slots.iter().any(|s| s.quirk.as_ref().map(|q| q.panic && q.kf == KF_UNWRAP).unwrap_or(false))
            } else {
                has_nonplain_varlen_bound(&case.query)
            };
            if kfs.on(KF_UNWRAP) && unwrap_sig && explained {
                Verdict::Known(vec![KF_UNWRAP.into()])
            } else {
                Verdict::Violation(format!("parse_query panicked: {msg}"))
            }
        }
        Actual::Err(_) => Verdict::Pass { refusal: case.oracle != "numerals" || case.slots.iter().all(|s| s.fit.is_some()) },
        Actual::Ok(tokens) => match case.oracle.as_str() {
            "returns" => Verdict::Pass { refusal: false },
            "strings" => {
                let mut e = case.fixed.clone();
                e.sort();
                if &e == tokens {
                    Verdict::Pass { refusal: false }
                } else {
                    Verdict::Violation(format!(
                        "accepted with string literals {:?}; the text denotes {:?}",
                        tokens.iter().map(|t| show_str_tok(t)).collect::<Vec<_>>(),
                        e.iter().map(|t| show_str_tok(t)).collect::<Vec<_>>()
                    ))
                }
            }
            "finite" | "lexical" => match lexical_check(&case.query, tokens) {
                Ok(()) => Verdict::Pass { refusal: false },
                Err((m, Some(kf))) if kfs.on(kf) => {
                    let _ = m;
                    Verdict::Known(vec![kf.into()])
                }
                Err((m, _)) => Verdict::Violation(m),
            },
            _ => {
                let mut strict: Option<Vec<String>> = Some(case.fixed.clone());
                for s in &case.slots {
                    match (&mut strict, &s.fit) {
                        (Some(v), Some(f)) => v.extend(f.iter().cloned()),
                        _ => strict = None,
                    }
                }
                if let Some(mut e) = strict.clone() {
                    e.sort();
                    if &e == tokens {
                        return Verdict::Pass { refusal: false };
                    }
                }
                // can listed defects explain it? every non-empty subset of quirky slots
                let quirky: Vec<usize> = (0..case.slots.len())
                    .filter(|i| case.slots[*i].quirk.as_ref().map(|q| !q.panic && kfs.on(&q.kf)).unwrap_or(false))
                    .collect();
                for mask in 1u32..(1u32 << quirky.len()) {
                    let mut e = case.fixed.clone();
                    let mut ids: Vec<String> = Vec::new();
                    let mut valid = true;
                    for (i, s) in case.slots.iter().enumerate() {
                        let pos = quirky.iter().position(|x| *x == i);
                        if pos.map(|p| mask & (1 << p) != 0).unwrap_or(false) {
                            let q = s.quirk.as_ref().unwrap();
                            e.extend(q.tokens.iter().cloned());
                            if !ids.contains(&q.kf) {
                                ids.push(q.kf.clone());
                            }
                        } else if let Some(f) = &s.fit {
                            e.extend(f.iter().cloned());
                        } else {
                            valid = false;
                        }
                    }
                    e.sort();
                    if valid && &e == tokens {
                        return Verdict::Known(ids);
                    }
                }
                let unfit: Vec<String> = case.slots.iter().filter(|s| s.fit.is_none()).map(|s| format!("{} `{}`", s.kind, s.text)).collect();
                let want = match strict {
                    Some(mut e) => {
                        e.sort();
                        format!("expected AST numerals {:?}", e)
                    }
                    None => format!("expected a parse error: {} does not fit its type", unfit.join(", ")),
                };
                Verdict::Violation(format!("accepted with AST numerals {:?}; {want}", tokens))
            }
        },
    }
}

// =======================================================================================
// Boundary numerals

const P31: u128 = 1 << 31;
const P32: u128 = 1 << 32;
const P63: u128 = 1 << 63;
const P64: u128 = 1 << 64;

fn int_bases() -> Vec<u128> {
    let p10 = |n: u32| 10u128.pow(n);
    vec![
        0, 0, 1, 5, 42, 1000, 1 << 7, 1 << 8, 1 << 15, 1 << 16, P31, P31, P32, P32, 1 << 53, P63, P63, P63, P64, P64, P64,
        p10(19), p10(20), p10(23), p10(25), 1 << 127, u128::MAX - 2,
    ]
}

#[derive(Clone, Debug)]
struct NumSpec {
    base: u16,
    delta: i8,
    style: u8,
    pad: u8,
    huge: u8,
    neg: u8,
}

fn num_spec() -> impl Strategy<Value = NumSpec> {
    (any::<u16>(), -2i8..=2, 0u8..10, 0u8..3, 0u8..24, 0u8..6).prop_map(|(base, delta, style, pad, huge, neg)| NumSpec { base, delta, style, pad, huge, neg })
}

#[derive(Clone, Debug)]
struct NumText {
    /// unsigned numeral text
    text: String,
    /// magnitude; None = above u128::MAX
    mag: Option<u128>,
}

fn render_num(s: &NumSpec) -> NumText {
    let bases = int_bases();
    let base = bases[pick_idx(s.base, bases.len())];
    let mag: Option<u128> = if s.huge == 0 {
        None
    } else if s.delta < 0 {
        Some(base.checked_sub((-s.delta) as u128).unwrap_or((-s.delta) as u128))
    } else {
        base.checked_add(s.delta as u128)
    };
    let pad = "0".repeat(s.pad as usize);
    let text = match (s.style, mag) {
        (0..=5, Some(v)) => v.to_string(),
        (6, Some(v)) => format!("0x{pad}{:x}", v),
        (7, Some(v)) => format!("0X{pad}{:X}", v),
        (8, Some(v)) => format!("0o{pad}{:o}", v),
        (_, Some(v)) => format!("0O{pad}{:o}", v),
        (0..=5, None) => format!("{}{}", 1 + (s.base % 9), "0".repeat(39 + (s.base % 30) as usize)),
        (6 | 7, None) => format!("0x{pad}1{}", "0".repeat(32 + (s.base % 9) as usize)),
        (_, None) => format!("0o{pad}1{}", "0".repeat(43 + (s.base % 9) as usize)),
    };
    NumText { text, mag }
}

fn near(v: u128, c: u128) -> bool {
    v.saturating_add(2) >= c && v <= c + 2
}
fn int_boundary(mag: Option<u128>, neg: bool) -> bool {
    match mag {
        None => true,
        Some(v) => neg || v <= 2 || near(v, P31) || near(v, P32) || near(v, P63) || near(v, P64) || v > P63,
    }
}

/// literal slot: signed value, i64
fn int_slot(text: String, mag: Option<u128>, negative: bool) -> Slot {
    let fit = mag.and_then(|m| {
        if (!negative && m < P63) || (negative && m <= P63) {
            Some(vec![tok_int(if negative { -(m as i128) } else { m as i128 })])
        } else {
            None
        }
    });
    Slot { kind: "int".into(), boundary: int_boundary(mag, negative), text, fit, quirk: None }
}

/// count slot (usize): kind ∈ skip, limit, min, max, exact. `seen` = the source slice the
/// parser hands to str::parse (differs from the numeral by interior whitespace in ranges)
/// `drop_path`: the slot sits in one of the statement forms whose SKIP/LIMIT code is the
/// listed `.parse().ok()` copy (KF-C25-3 explains nothing anywhere else)
fn count_slot(kind: &str, text: String, seen: &str, mag: Option<u128>, negative: bool, drop_path: bool) -> Slot {
    let names: Vec<&str> = if kind == "exact" { vec!["min", "max"] } else { vec![kind] };
    let fit = mag.and_then(|m| {
        if (!negative && m < P64) || (negative && m == 0) {
            Some(names.iter().map(|n| format!("{n}:{m}")).collect::<Vec<_>>())
        } else {
            None
        }
    });
    let naive_ok = seen.parse::<usize>().is_ok();
    let quirk = if naive_ok || ((kind == "skip" || kind == "limit") && !drop_path) {
        None
    } else {
        Some(match kind {
            "min" => Quirk { kf: KF_MIN1.into(), panic: false, tokens: vec!["min:1".into()] },
            "max" | "exact" => Quirk { kf: KF_UNWRAP.into(), panic: true, tokens: vec![] },
            _ => Quirk { kf: KF_DROP.into(), panic: false, tokens: vec![] },
        })
    };
    Slot { kind: kind.into(), boundary: int_boundary(mag, negative), text, fit, quirk }
}

fn dim_slot(text: String, mag: Option<u128>, negative: bool) -> Slot {
    // dimensions: usize taken from a positive i64 literal
    let fit = mag.and_then(|m| if !negative && m < P63 { Some(vec![format!("dim:{m}")]) } else { None });
    Slot { kind: "dim".into(), boundary: int_boundary(mag, negative), text, fit, quirk: None }
}

fn float_texts() -> Vec<String> {
    let mut v: Vec<String> = [
        "0.0", "1.0", "1.5", "0.1", "3.14159", "1e0", "1E5", "1e+5", "1e-5", ".5", ".5e1", ".0", "123456789.125", "1.50", "00.5", "0.1e1",
        "1e308", "1.7976931348623157e308", "1.7976931348623157E+308", "1.7976931348623158e308", "1.7976931348623159e308", "1.8e308",
        "1e309", "2e308", "1e999", "1E+400", ".1e310", "17976931348623157e292", "17976931348623159e292", "0e999", "0.0e999", ".0e-999",
        "1e-400", "4.9e-324", "5e-324", "2.4e-324", "2.5e-324", "1e-323", "2.2250738585072014e-308", "2.2250738585072011e-308", "1e-308",
        "9007199254740993.0", "9007199254740992.0", "4e18", "9223372036854775807.0", "9223372036854775808.0", "1e19", "1e25",
        "18446744073709551616.0", "0.30000000000000004", "0.1000000000000000055511151231257827", "1.0e-0",
    ]
    .iter()
    .map(|s| s.to_string())
    .collect();
    v.push(format!("17976931348623157{}.0", "0".repeat(292)));
    v.push(format!("17976931348623159{}.0", "0".repeat(292)));
    v.push(format!("1{}.0", "0".repeat(309)));
    v.push(format!("0.{}1", "0".repeat(400)));
    v.push(format!("0.{}49", "0".repeat(323)));
    v
}

fn float_slot(text_unsigned: &str, full_text: String, negative: bool) -> Slot {
    let x: f64 = text_unsigned.parse().expect("generator float");
    let x = if negative { -x } else { x };
    let fit = if x.is_finite() { Some(vec![tok_flt(x)]) } else { None };
    let quirk = if x.is_finite() { None } else { Some(Quirk { kf: KF_INF.into(), panic: false, tokens: vec![tok_flt(x)] }) };
    let a = x.abs();
    let boundary = !x.is_finite() || a >= 1e306 || (a != 0.0 && a < 1e-306) || (a == 0.0 && text_unsigned.bytes().any(|c| (b'1'..=b'9').contains(&c)));
    Slot { kind: "float".into(), text: full_text, fit, quirk, boundary }
}

/// plain integers written in a template (outside the markers) are expected verbatim
fn fixed_tokens(template_text: &str) -> Vec<String> {
    lex_numerals(template_text)
        .iter()
        .map(|t| {
            let s = &template_text[t.start..t.end];
            if t.float {
                tok_flt(s.parse::<f64>().unwrap())
            } else {
                tok_int(s.parse::<i128>().expect("plain template numeral"))
            }
        })
        .collect()
}

// =======================================================================================
// Templates

const VARLEN_CTX: &[&str] = &[
    "MATCH (a)-[@E@]->(b) RETURN a",
    "MATCH (a:P)<-[@E@]-(b:Q) RETURN b",
    "MATCH (a)-[@E@]-(b) RETURN a, b",
    "OPTIONAL MATCH (a)-[@E@]->(b) RETURN a",
    "MATCH (a), (b) WHERE (a)-[@E@]->(b) RETURN a",
    "MATCH (a) WHERE EXISTS { MATCH (a)-[@E@]->(b) } RETURN a",
    "MATCH (a) RETURN [(a)-[@E@]->(b) | b.x] AS xs",
    "MATCH p = shortestPath((a)-[@E@]->(b)) RETURN p",
    "MATCH p = allShortestPaths((a)-[@E@]-(b)) RETURN p",
    "CALL db.labels() YIELD label MATCH (a)-[@E@]->(b) RETURN a",
    "MATCH (a) WITH a MATCH (a)-[@E@]->(b) RETURN b",
    "UNWIND [1] AS x MATCH (a)-[@E@]->(b) RETURN b",
    "CREATE (c:C) WITH c MATCH (a)-[@E@]->(b) RETURN b",
    "MATCH (a)-[@E@]->(b)-[:T]->(c) RETURN c",
    "MATCH (a)-[:T]->(b)<-[@E@]-(c) RETURN c",
    "EXPLAIN MATCH (a)-[@E@]->(b) RETURN a",
    "MATCH (a)-[@E@]->(b) SET a.k = 1 RETURN a",
    "MATCH (a {k: 2})-[@E@]->(b) WHERE b.k > 3 RETURN b.k AS k ORDER BY k LIMIT 7",
    "MATCH p = (a)-[@E@]->(b) RETURN length(p) AS l",
    "RETURN 1 AS x UNION MATCH (a)-[@E@]->(b) RETURN 2 AS x",
];

const EDGE_DECO: &[(&str, &str)] = &[("", ""), ("r", ""), (":T", ""), ("r:T", ""), (":T|U", ""), ("", " {w: 1}"), (":T", " {w: 1}")];

const SKIPLIMIT_FORMS: &[&str] = &[
    "RETURN 1 AS x@T@",
    "RETURN 1 AS x ORDER BY x@T@",
    "WITH 1 AS x RETURN x@T@",
    "WITH 1 AS x@W@ RETURN x",
    "MATCH (n) RETURN n@T@",
    "MATCH (n:L) WHERE n.p > 0 RETURN n.p AS p ORDER BY p DESC@T@",
    "MATCH (n) WITH n@W@ RETURN n",
    "MATCH (n) WITH n ORDER BY n.p@W@ RETURN n@T@",
    "UNWIND [1, 2, 3] AS x RETURN x@T@",
    "CREATE (n:L) RETURN n@T@",
    "CREATE (n:L) CREATE (m:L) RETURN n, m@T@",
    "CALL db.labels() YIELD label RETURN label@T@",
    "CALL { MATCH (n) RETURN n@T@ } RETURN n",
    "CALL { MATCH (n) RETURN n } RETURN n@T@",
    "CREATE (a:A) WITH a MATCH (b) RETURN b@T@",
    "CREATE (a:A) WITH a@W@ RETURN a@T@",
    "RETURN 1 AS x@T@ UNION RETURN 2 AS x",
    "RETURN 1 AS x UNION ALL RETURN 2 AS x@T@",
    "EXPLAIN MATCH (n) RETURN n@T@",
    "PROFILE RETURN 1 AS x@T@",
    "MATCH (n) OPTIONAL MATCH (n)-[:R]->(m) RETURN n, m@T@",
    "UNWIND [1] AS x WITH x@W@ RETURN x@T@",
    "MATCH (n) WITH n@W@ WHERE n.p = 1 RETURN n",
    "CALL db.labels() YIELD label WHERE label = 'A' RETURN label ORDER BY label@T@",
    "MATCH (n) WITH n.p AS p, count(*) AS c@W@ RETURN p, c@T@",
    "MATCH (a)-[:R]->(b) RETURN DISTINCT b.k AS k ORDER BY k@T@",
    "MATCH (n) SET n.k = 1 RETURN n@T@",
    "WITH 1 AS x@W@ RETURN x@T@",
    "MATCH (n) RETURN n@T@;",
    "UNWIND [1, 2] AS x UNWIND [3] AS y RETURN x, y@T@",
    "MATCH (n) DELETE n WITH 1 AS one RETURN one@T@",
];

/// forms whose trailing (@T@) SKIP/LIMIT is handled by one of the five `.parse().ok()` copies
/// (return_stmt, with_return_stmt, create_stmt, call_stmt, clause pipeline); every other @T@
/// and every WITH-level @W@ goes through parse_count_literal and is searched strictly
const T_DROPS: &[usize] = &[0, 1, 2, 9, 10, 11, 13, 14, 15, 16, 17, 19, 23, 27, 30];

/// @N@ = the literal under test
const LIT_CTX: &[&str] = &[
    "RETURN @N@",
    "RETURN @N@ AS v",
    "MATCH (n) WHERE n.p = @N@ RETURN n",
    "MATCH (n) WHERE n.p > @N@ AND n.q < 1 RETURN n",
    "MATCH (n) WHERE n.p IN [@N@, 1] RETURN n",
    "RETURN [@N@, 2, 3] AS xs",
    "MATCH (n) RETURN [@N@, n.x] AS xs",
    "RETURN {k: @N@} AS m",
    "MATCH (n) RETURN {k: @N@, j: n.x} AS m",
    "CREATE (n:L {p: @N@})",
    "CREATE (n:L {p: @N@ + 1})",
    "MATCH (n:L {p: @N@}) RETURN n",
    "MERGE (n:L {p: @N@}) ON CREATE SET n.q = 1 RETURN n",
    "MATCH (n) SET n.p = @N@",
    "MATCH (n) SET n += {p: @N@} RETURN n",
    "MERGE (n:L {k: 1}) ON MATCH SET n.p = @N@",
    "RETURN abs(@N@) AS v",
    "RETURN coalesce(null, @N@) AS v",
    "WITH [1, 2, 3] AS xs RETURN xs[@N@] AS v",
    "WITH [1, 2, 3] AS xs RETURN xs[@N@..] AS v",
    "WITH [1, 2, 3] AS xs RETURN xs[..@N@] AS v",
    "WITH [1, 2, 3] AS xs RETURN xs[1..@N@] AS v",
    "MATCH (n) RETURN CASE WHEN n.p > @N@ THEN 1 ELSE 2 END AS v",
    "RETURN CASE @N@ WHEN 1 THEN 'a' ELSE 'b' END AS v",
    "MATCH (n) RETURN CASE WHEN n.p THEN @N@ ELSE 2 END AS v",
    "UNWIND [@N@] AS x RETURN x",
    "UNWIND range(1, @N@) AS x RETURN x",
    "MATCH (n) RETURN n ORDER BY n.p + @N@",
    "CALL algo.pageRank(@N@) YIELD nodeId RETURN nodeId",
    "FOREACH (i IN [@N@] | CREATE (:L {p: i}))",
    "MATCH (n) FOREACH (i IN [1] | SET n.p = @N@)",
    "RETURN reduce(acc = @N@, x IN [1, 2] | acc + x) AS v",
    "RETURN all(x IN [1, 2] WHERE x < @N@) AS v",
    "RETURN [x IN [1, 2] WHERE x > @N@ | x * 2] AS v",
    "RETURN [x IN range(0, 3) | x + @N@] AS v",
    "RETURN 2 * @N@ AS v",
    "RETURN 1 + @N@ AS v",
    "RETURN 1 - @N@ AS v",
    "MATCH (a)-[r:T {w: @N@}]->(b) RETURN r",
    "RETURN @N@ = 1 AS b",
    "MATCH (n) WHERE n.p >= @N@ RETURN count(*) AS c",
    "RETURN {a: [@N@, {b: 1}]} AS m",
    "MATCH (n) WHERE n.name STARTS WITH 'a' AND n.age <= @N@ RETURN n.name",
    "MATCH (n) WHERE NOT n.p = @N@ RETURN n",
    "MATCH (n) WITH n, @N@ AS c RETURN n, c",
    "MATCH (n) WHERE (n.p = @N@) OR (n.q <> 3) RETURN n",
    "CREATE (a:A {p: @N@})-[:R {w: 2}]->(b:B {q: 3})",
    "RETURN 1 AS a UNION RETURN @N@ AS a",
    "CALL { RETURN @N@ AS x } RETURN x",
    "MATCH (n) RETURN sum(n.p * @N@) AS s",
    "CREATE (n:L {p: [@N@, 2]})",
    "CREATE (n:L {p: 1, q: @N@, r: 'x'})",
    "RETURN \"s\" AS s, @N@ AS v // trailing comment 9",
    "CREATE (a:A) WITH a CREATE (b:B {p: @N@})",
];
const DIM_CTX: &[&str] = &[
    "CREATE VECTOR INDEX idx FOR (n:L) ON (n.e) OPTIONS {dimensions: @N@}",
    "CREATE VECTOR INDEX FOR (n:L) ON (n.e) OPTIONS {dimensions: @N@, similarity: 'l2'}",
];


/// @S@ = the string literal under test (value position: read back as `String(..)`)
const STR_CTX: &[&str] = &[
    "RETURN @S@",
    "RETURN @S@ AS s",
    "MATCH (n) WHERE n.name = @S@ RETURN n",
    "MATCH (n) WHERE n.name STARTS WITH @S@ RETURN n",
    "MATCH (n) WHERE n.name =~ @S@ RETURN n",
    "MATCH (n) WHERE n.name IN [@S@, 'b'] RETURN n",
    "CREATE (n:L {name: @S@})",
    "MATCH (n:L {name: @S@}) RETURN n",
    "MERGE (n:L {k: 1}) ON CREATE SET n.name = @S@",
    "MATCH (n) SET n.name = @S@",
    "RETURN [@S@, 'x'] AS xs",
    "MATCH (n) RETURN [@S@, n.x] AS xs",
    "RETURN {k: @S@} AS m",
    "MATCH (n) RETURN {k: @S@, j: n.x} AS m",
    "RETURN toUpper(@S@) AS v",
    "RETURN coalesce(null, @S@) AS v",
    "RETURN substring(@S@, 1) AS v",
    "RETURN @S@ + 'z' AS v",
    "UNWIND [@S@] AS x RETURN x",
    "RETURN CASE WHEN true THEN @S@ ELSE 'e' END AS v",
    "MATCH (a)-[r:T {w: @S@}]->(b) RETURN r",
    "CALL db.idx(@S@) YIELD x RETURN x",
    "RETURN {a: [@S@, {b: 'q'}]} AS m",
    "MATCH (n) WHERE n.a = @S@ OR n.b CONTAINS @S@ RETURN n",
    "FOREACH (s IN [@S@] | CREATE (:L {name: s}))",
    "RETURN [x IN [@S@] WHERE x <> 'n' | x] AS v",
    "RETURN @S@ AS s // 'comment' \"text\"",
    "WITH @S@ AS s RETURN s",
    "MATCH (n) RETURN n ORDER BY n.name + @S@",
    "CREATE (a:A) WITH a CREATE (b:B {name: @S@})",
    "RETURN 'a' AS a UNION RETURN @S@ AS a",
    "MATCH (n) WHERE n.name ENDS WITH @S@ RETURN count(*) AS c",
    "CREATE (n:L {tags: [@S@, 't'], name: 'n'})",
];
/// string used where the AST does not keep it as a `String(..)` value (map keys, options):
/// only "returns" is asserted there
const STR_KEY_CTX: &[&str] = &[
    "RETURN {@S@: 1} AS m",
    "MATCH (n) RETURN {@S@: n.x} AS m",
    "CREATE (n:L {p: {@S@: 1}})",
    "CREATE VECTOR INDEX idx FOR (n:L) ON (n.e) OPTIONS {dimensions: 4, similarity: @S@}",
];

const STR_PLAIN: &[&str] = &["a", "abc", "Hello World", " x y ", "123", "a-b_c", "%", "#;:,.()[]{}", "$p", "/*c*/", "// c", " ", "1e999", "*..2", "u0041", "n"];
const STR_NONASCII: &[&str] = &["\u{e9}", "\u{65e5}\u{672c}", "\u{1F600}", "e\u{301}", "\u{df}", "\u{202e}", "\u{feff}", "\u{a0}", "\u{10FFFF}", "\u{7f}", "\u{80}"];
const STR_RAWCTL: &[&str] = &["\t", "\n", "\r\n", "\u{1}", "\u{0}"];
/// escapes whose meaning openCypher fixes: (text, value)
const STR_STD_ESC: &[(&str, &str)] = &[("\\\\", "\\"), ("\\'", "'"), ("\\\"", "\""), ("\\n", "\n"), ("\\t", "\t"), ("\\r", "\r"), ("\\b", "\u{8}"), ("\\f", "\u{c}")];
/// \uXXXX code points that are Unicode scalar values (boundaries around the surrogate gap)
const STR_U_VALID: &[u32] = &[0x0000, 0x0041, 0x007F, 0x0080, 0x00E9, 0x07FF, 0x0800, 0xD7FF, 0xE000, 0xFFFD, 0xFFFE, 0xFFFF];
/// escape forms whose meaning is implementation-defined here: only "returns" is asserted
const STR_IMPL_ESC: &[&str] = &[
    "\\0", "\\uD800", "\\uDBFF", "\\uDC00", "\\uDFFF", "\\ud800", "\\udead", "\\uD83D\\uDE00", "\\uDE00\\uD83D", "\\uD800\\uD800", "\\uD83Dx",
    "\\u", "\\u1", "\\u12", "\\u123", "\\u12G4", "\\uZZZZ", "\\u+123", "\\u-123", "\\u 123", "\\u{1F600}", "\\u00\u{e9}9", "\\u\u{1F600}",
    "\\U0001F600", "\\UD800DC00", "\\x41", "\\xZZ", "\\q", "\\\u{e9}", "\\\u{1F600}", "\\ ", "\\/", "\\-", "\\1", "\\\n", "\\\u{0}", "\\a", "\\v", "\\e",
    "\\N{BULLET}", "\\101", "\\u0041\\uD800",
];

const WS: &[&str] = &[" ", " ", " ", "\n", "\t", "  ", " /*c*/ ", "\r\n"];

// =======================================================================================
// Specs (what proptest generates and shrinks) and their rendering

#[derive(Clone, Debug)]
enum Spec {
    VarLen { ctx: u16, deco: u16, form: u8, ws: u8, a: NumSpec, b: NumSpec },
    SkipLimit { form: u16, which_t: u8, which_w: u8, kw: u8, ws: u8, a: NumSpec, b: NumSpec, c: NumSpec, d: NumSpec },
    IntLit { ctx: u16, sign: u8, n: NumSpec },
    FloatLit { ctx: u16, sign: u8, f: u16 },
    Dim { ctx: u16, n: NumSpec },
    Subst { slot: u16, n: NumSpec, f: u16, use_float: u8 },
    Mutate { seed: u16, ops: Vec<(u8, u16, u16, u16)> },
    Str { ctx: u16, quote: u8, key_ctx: u8, pieces: Vec<(u8, u16)> },
}

fn spec_strategy() -> impl Strategy<Value = Spec> {
    let mutate = (any::<u16>(), proptest::collection::vec((0u8..12, any::<u16>(), any::<u16>(), any::<u16>()), 1..6)).prop_map(|(seed, ops)| Spec::Mutate { seed, ops });
    prop_oneof![
        22 => (any::<u16>(), any::<u16>(), 0u8..5, 0u8..12, num_spec(), num_spec()).prop_map(|(ctx, deco, form, ws, a, b)| Spec::VarLen { ctx, deco, form, ws, a, b }),
        22 => (any::<u16>(), 0u8..3, 0u8..3, 0u8..3, 0u8..8, num_spec(), num_spec(), num_spec(), num_spec())
            .prop_map(|(form, which_t, which_w, kw, ws, a, b, c, d)| Spec::SkipLimit { form, which_t, which_w, kw, ws, a, b, c, d }),
        16 => (any::<u16>(), 0u8..8, num_spec()).prop_map(|(ctx, sign, n)| Spec::IntLit { ctx, sign, n }),
        10 => (any::<u16>(), 0u8..8, any::<u16>()).prop_map(|(ctx, sign, f)| Spec::FloatLit { ctx, sign, f }),
        1 => (any::<u16>(), num_spec()).prop_map(|(ctx, n)| Spec::Dim { ctx, n }),
        12 => (any::<u16>(), num_spec(), any::<u16>(), 0u8..4).prop_map(|(slot, n, f, use_float)| Spec::Subst { slot, n, f, use_float }),
        17 => mutate,
        14 => (any::<u16>(), 0u8..2, 0u8..12, proptest::collection::vec((0u8..16, any::<u16>()), 0..6)).prop_map(|(ctx, quote, key_ctx, pieces)| Spec::Str { ctx, quote, key_ctx, pieces }),
    ]
}

/// numeral slot of a seed query, discovered by substituting a sentinel (see `discover`)
#[derive(Clone, Debug, Serialize, Deserialize)]
struct SeedSlot {
    seed: usize,
    start: usize,
    end: usize,
    float: bool,
    /// token kinds that changed with the sentinel: ["int"], ["flt"], ["skip"], ["min","max"], …
    kinds: Vec<String>,
    /// the sentinel came back negated (a unary minus in front was folded)
    neg: bool,
    /// the seed is parsed by the general clause pipeline (`needs_clause_pipeline`)
    pipeline: bool,
    /// AST tokens of the unmodified seed without this slot's own tokens
    rest: Vec<String>,
}

struct Seeds {
    texts: Vec<String>,
    slots: Vec<SeedSlot>,
}

fn signed_text(sign: u8, t: &str) -> (String, bool) {
    // (text, value is negated)
    match sign {
        0..=2 => (t.to_string(), false),
        3 | 4 => (format!("-{t}"), true),
        5 => (format!("- {t}"), true),
        6 => (format!("-({t})"), true),
        _ => (format!("--{t}"), false),
    }
}

fn render(spec: &Spec, seeds: &Seeds) -> Case {
    match spec {
        Spec::VarLen { ctx, deco, form, ws, a, b } => {
            let ci = pick_idx(*ctx, VARLEN_CTX.len());
            let (pre, post) = EDGE_DECO[pick_idx(*deco, EDGE_DECO.len())];
            let a_t = render_num(a);
            let b_t = render_num(b);
            let a_neg = a.neg == 0;
            let b_neg = b.neg == 0;
            let a_txt = if a_neg { format!("-{}", a_t.text) } else { a_t.text.clone() };
            let b_txt = if b_neg { format!("-{}", b_t.text) } else { b_t.text.clone() };
            // interior whitespace of a range (ws 8..=11), otherwise none
            let (w1, w2) = match ws {
                8 => (" ", ""),
                9 => ("", " "),
                10 => (" ", " "),
                11 => ("", "/*c*/"),
                _ => ("", ""),
            };
            let star = if *ws == 7 { "* " } else { "*" };
            let mut slots = Vec::new();
            let mut fixed = Vec::new();
            let (range, cls) = match form {
                0 => {
                    slots.push(count_slot("exact", a_txt.clone(), &a_txt, a_t.mag, a_neg, false));
                    (format!("{star}{a_txt}"), "exact")
                }
                1 => {
                    slots.push(count_slot("min", a_txt.clone(), &format!("{a_txt}{w1}"), a_t.mag, a_neg, false));
                    slots.push(count_slot("max", b_txt.clone(), &format!("{w2}{b_txt}"), b_t.mag, b_neg, false));
                    (format!("{star}{a_txt}{w1}..{w2}{b_txt}"), "range")
                }
                2 => {
                    fixed.push("min:1".to_string());
                    slots.push(count_slot("max", b_txt.clone(), &format!("{w2}{b_txt}"), b_t.mag, b_neg, false));
                    (format!("{star}..{w2}{b_txt}"), "upto")
                }
                3 => {
                    slots.push(count_slot("min", a_txt.clone(), &format!("{a_txt}{w1}"), a_t.mag, a_neg, false));
                    // `*m..` followed by whitespace: the range's source slice ends with that
                    // whitespace, which the parser hands to str::parse as an upper bound
                    let trailing_ws = post.starts_with(' ');
                    slots.push(Slot {
                        kind: "max(absent)".into(),
                        text: String::new(),
                        fit: Some(vec![]),
                        quirk: if trailing_ws { Some(Quirk { kf: KF_UNWRAP.into(), panic: true, tokens: vec![] }) } else { None },
                        boundary: false,
                    });
                    (format!("{star}{a_txt}{w1}.."), "from")
                }
                _ => {
                    fixed.push("min:1".to_string());
                    (star.trim_end().to_string(), "star")
                }
            };
            let tpl = VARLEN_CTX[ci].replace("@E@", &format!("{pre}@R@{post}"));
            fixed.extend(fixed_tokens(&tpl));
            // LIMIT 7 in one template is a plain count, read back as limit:7
            if tpl.contains("LIMIT 7") {
                fixed.retain(|t| t != "int:7");
                fixed.push("limit:7".into());
            }
            Case { class: format!("varlen:{cls}"), query: tpl.replace("@R@", &range), oracle: "numerals".into(), fixed, slots, stack_kib: 0, depth: 0 }
        }
        Spec::SkipLimit { form, which_t, which_w, kw, ws, a, b, c, d } => {
            let fi = pick_idx(*form, SKIPLIMIT_FORMS.len());
            let tpl = SKIPLIMIT_FORMS[fi];
            let sep = WS[*ws as usize % WS.len()];
            let (ks, kl) = match kw {
                0 => ("SKIP", "LIMIT"),
                1 => ("skip", "limit"),
                _ => ("Skip", "Limit"),
            };
            let mut slots = Vec::new();
            let mut tail = |which: u8, s: &NumSpec, l: &NumSpec, slots: &mut Vec<Slot>, drops: bool| -> String {
                let mut out = String::new();
                if which != 0 {
                    let t = render_num(s);
                    let neg = s.neg == 0;
                    let txt = if neg { format!("-{}", t.text) } else { t.text.clone() };
                    slots.push(count_slot("skip", txt.clone(), &txt, t.mag, neg, drops));
                    out.push_str(&format!("{sep}{ks}{sep}{txt}"));
                }
                if which != 1 {
                    let t = render_num(l);
                    let neg = l.neg == 0;
                    let txt = if neg { format!("-{}", t.text) } else { t.text.clone() };
                    slots.push(count_slot("limit", txt.clone(), &txt, t.mag, neg, drops));
                    out.push_str(&format!("{sep}{kl}{sep}{txt}"));
                }
                out
            };
            let mut q = tpl.to_string();
            if q.contains("@W@") {
                let w = tail(*which_w, c, d, &mut slots, false);
                q = q.replace("@W@", &w);
            }
            if q.contains("@T@") {
                let t = tail(*which_t, a, b, &mut slots, T_DROPS.contains(&fi));
                q = q.replace("@T@", &t);
            }
            let fixed = fixed_tokens(&tpl.replace("@T@", "").replace("@W@", ""));
            Case { class: format!("skiplimit:f{fi:02}"), query: q, oracle: "numerals".into(), fixed, slots, stack_kib: 0, depth: 0 }
        }
        Spec::IntLit { ctx, sign, n } => {
            let ci = pick_idx(*ctx, LIT_CTX.len());
            let t = render_num(n);
            let (txt, neg) = signed_text(*sign, &t.text);
            let slot = int_slot(txt.clone(), t.mag, neg);
            let tpl = LIT_CTX[ci];
            Case { class: format!("int:c{ci:02}"), query: tpl.replace("@N@", &txt), oracle: "numerals".into(), fixed: fixed_tokens(&tpl.replace("@N@", "")), slots: vec![slot], stack_kib: 0, depth: 0 }
        }
        Spec::FloatLit { ctx, sign, f } => {
            let ci = pick_idx(*ctx, LIT_CTX.len());
            let texts = float_texts();
            let ft = &texts[pick_idx(*f, texts.len())];
            let (txt, neg) = signed_text(*sign, ft);
            let slot = float_slot(ft, txt.clone(), neg);
            let tpl = LIT_CTX[ci];
            Case { class: format!("float:c{ci:02}"), query: tpl.replace("@N@", &txt), oracle: "numerals".into(), fixed: fixed_tokens(&tpl.replace("@N@", "")), slots: vec![slot], stack_kib: 0, depth: 0 }
        }
        Spec::Dim { ctx, n } => {
            let ci = pick_idx(*ctx, DIM_CTX.len());
            let t = render_num(n);
            let neg = n.neg == 0;
            let txt = if neg { format!("-{}", t.text) } else { t.text.clone() };
            let slot = dim_slot(txt.clone(), t.mag, neg);
            Case { class: "int:dimensions".into(), query: DIM_CTX[ci].replace("@N@", &txt), oracle: "numerals".into(), fixed: vec![], slots: vec![slot], stack_kib: 0, depth: 0 }
        }
        Spec::Subst { slot, n, f, use_float } => render_subst(*slot, n, *f, *use_float, seeds),
        Spec::Mutate { seed, ops } => render_mutate(*seed, ops, seeds),
        Spec::Str { ctx, quote, key_ctx, pieces } => render_str(*ctx, *quote, *key_ctx, pieces),
    }
}

const BOUNDARY_TEXTS: &[&str] = &[
    "0", "-1", "-0", "2147483647", "2147483648", "4294967295", "4294967296", "9223372036854775807", "9223372036854775808",
    "-9223372036854775808", "-9223372036854775809", "18446744073709551615", "18446744073709551616", "99999999999999999999",
    "99999999999999999999999", "10000000000000000000000000", "0x7fffffffffffffff", "0x8000000000000000", "0xffffffffffffffff",
    "0x10000000000000000", "0o777777777777777777777", "0o1000000000000000000000", "1e308", "1e309", "1e999", "-1e999", "1e-400",
    "1.7976931348623159e308", ".5e400", "0x", "0o8", "1.", "1e", "1e+", "00", "007", "0b1", "1_000",
];
const DICT: &[&str] = &[
    "\\uD800", "\\uDC00", "\\udead", "\\uD83D\\uDE00", "\\uDFFF", "\\u", "\\u12", "\\uZZZZ", "\\u0041", "\\uFFFF", "\\U0001F600", "\\x41", "\\0",
    "\\b", "\\f", "\\n", "\\\\", "\\'", "\\\"", "'\\uD800'", "\"\\udead\"", "'\\'", "'\\uD83D\\uDE00'", "'a\\", "\\\u{e9}", "\\\u{1F600}",
    " SKIP ", " LIMIT ", "*", "..", "-", "--", "0x", "0o", "e999", ".5", "*1..", "*..2", "*0x2", "* 1 .. 2", "[", "]", "(", ")", "{", "}",
    " UNION ", " UNION ALL ", " WITH ", " RETURN ", " WHERE ", " ORDER BY ", " AS ", "'", "\"", "\\", "/*", "*/", "//", ";", "$p", " IN ",
    " NOT ", " IS NULL", " IS NOT NULL", " CASE WHEN ", " THEN ", " ELSE ", " END", "|", ":", ",", "=", "<>", "=~", "^", "%", "+=", " AND ",
    " OR ", " XOR ", "shortestPath(", "count(*)", " DISTINCT ", " OPTIONAL MATCH ", " MATCH ", " CALL ", " YIELD ", " FOREACH ", " MERGE ",
    " ON CREATE SET ", " DETACH DELETE ", " EXPLAIN ", " PROFILE ", " EXISTS {", "reduce(", "all(", " STARTS WITH ", " CONTAINS ", " UNWIND ",
    " CREATE ", " SET ", " REMOVE ", " DESC", "<-", "->", "-[", "]-", "\u{0}", "\u{feff}", "\u{e9}", "\u{1F600}", "\u{202e}", "\u{a0}", "\r\n", "\t",
];


/// plain quoted literals written in a template are expected verbatim
fn fixed_str_tokens(template_text: &str) -> Vec<String> {
    let mut out = Vec::new();
    let b = template_text.as_bytes();
    let mut i = 0;
    while i < b.len() {
        if b[i] == b'/' && i + 1 < b.len() && b[i + 1] == b'/' {
            break;
        }
        if b[i] == b'\'' || b[i] == b'"' {
            let q = b[i];
            let st = i + 1;
            i += 1;
            while i < b.len() && b[i] != q {
                i += 1;
            }
            out.push(tok_str(&template_text[st..i.min(b.len())]));
        }
        i += 1;
    }
    out
}

fn render_str(ctx: u16, quote: u8, key_ctx: u8, pieces: &[(u8, u16)]) -> Case {
    let q = if quote == 0 { '\'' } else { '"' };
    let other = if quote == 0 { "\"" } else { "'" };
    let mut text = String::new();
    let mut value = String::new();
    let mut defined = true;
    let mut structural = false;
    for (i, (kind, sel)) in pieces.iter().enumerate() {
        match kind {
            0..=2 => {
                let p = STR_PLAIN[pick_idx(*sel, STR_PLAIN.len())];
                text.push_str(p);
                value.push_str(p);
            }
            3 => {
                text.push_str(other);
                value.push_str(other);
            }
            4 => {
                let p = STR_NONASCII[pick_idx(*sel, STR_NONASCII.len())];
                text.push_str(p);
                value.push_str(p);
            }
            5 => {
                let p = STR_RAWCTL[pick_idx(*sel, STR_RAWCTL.len())];
                text.push_str(p);
                value.push_str(p);
            }
            6..=8 => {
                let (t, v) = STR_STD_ESC[pick_idx(*sel, STR_STD_ESC.len())];
                text.push_str(t);
                value.push_str(v);
            }
            9..=11 => {
                let cp = STR_U_VALID[pick_idx(*sel, STR_U_VALID.len())];
                if sel & 1 == 0 {
                    text.push_str(&format!("\\u{:04X}", cp));
                } else {
                    text.push_str(&format!("\\u{:04x}", cp));
                }
                value.push(char::from_u32(cp).unwrap());
            }
            12..=14 => {
                text.push_str(STR_IMPL_ESC[pick_idx(*sel, STR_IMPL_ESC.len())]);
                defined = false;
            }
            _ => {
                // structural: a backslash right before the closing quote (as the last piece),
                // or the quote character itself unescaped
                structural = true;
                defined = false;
                if i + 1 == pieces.len() || sel & 1 == 0 {
                    text.push('\\');
                } else {
                    text.push(q);
                }
            }
        }
    }
    let lit = format!("{q}{text}{q}");
    let use_key = key_ctx == 0;
    let (tpl, ci) = if use_key {
        let i = pick_idx(ctx, STR_KEY_CTX.len());
        (STR_KEY_CTX[i], 100 + i)
    } else {
        let i = pick_idx(ctx, STR_CTX.len());
        (STR_CTX[i], i)
    };
    let kind = if structural {
        "structural"
    } else if !defined {
        "impl_defined"
    } else if use_key {
        "key"
    } else {
        "defined"
    };
    let mut fixed = Vec::new();
    let oracle = if defined && !use_key {
        fixed = fixed_str_tokens(&tpl.replace("@S@", ""));
        for _ in 0..tpl.matches("@S@").count() {
            fixed.push(tok_str(&value));
        }
        "strings"
    } else {
        "returns"
    };
    Case { class: format!("string:{kind}:c{ci:02}"), query: tpl.replace("@S@", &lit), oracle: oracle.into(), fixed, slots: vec![], stack_kib: 0, depth: 0 }
}

fn render_mutate(seed_sel: u16, ops: &[(u8, u16, u16, u16)], seeds: &Seeds) -> Case {
    let si = pick_idx(seed_sel, seeds.texts.len());
    let mut b: Vec<u8> = seeds.texts[si].as_bytes().to_vec();
    let mut names: Vec<&str> = Vec::new();
    for (kind, pos, aux, aux2) in ops {
        let len = b.len();
        let at = pick_idx(*pos, len + 1);
        let ins = |b: &mut Vec<u8>, at: usize, s: &[u8]| {
            let tail = b.split_off(at);
            b.extend_from_slice(s);
            b.extend_from_slice(&tail);
        };
        match kind {
            0 => {
                if len > 0 {
                    let i = at.min(len - 1);
                    b[i] ^= 1 << (aux % 8);
                }
                names.push("bitflip");
            }
            1 => {
                if len > 0 {
                    let i = at.min(len - 1);
                    b[i] = (aux % 256) as u8;
                }
                names.push("setbyte");
            }
            2 => {
                const A: &[u8] = b"()[]{}*.-+<>=:|,'\"\\/$ 0123456789eExXoO_\n";
                ins(&mut b, at, &[A[pick_idx(*aux, A.len())]]);
                names.push("insbyte");
            }
            3 => {
                let l = 1 + (*aux as usize % 8);
                let e = (at + l).min(len);
                b.drain(at.min(e)..e);
                names.push("delete");
            }
            4 => {
                let l = 1 + (*aux as usize % 16);
                let e = (at + l).min(len);
                let chunk = b[at.min(e)..e].to_vec();
                ins(&mut b, at, &chunk);
                names.push("dup");
            }
            5 => {
                let other = seeds.texts[pick_idx(*aux, seeds.texts.len())].as_bytes();
                let o = pick_idx(*aux2, other.len() + 1);
                let e = (o + 24).min(other.len());
                ins(&mut b, at, &other[o..e]);
                names.push("splice");
            }
            6 => {
                ins(&mut b, at, BOUNDARY_TEXTS[pick_idx(*aux, BOUNDARY_TEXTS.len())].as_bytes());
                names.push("insnum");
            }
            7 => {
                let s = String::from_utf8_lossy(&b).to_string();
                let toks = lex_numerals(&s);
                if !toks.is_empty() {
                    let t = &toks[pick_idx(*pos, toks.len())];
                    let mut n = s[..t.start].to_string();
                    n.push_str(BOUNDARY_TEXTS[pick_idx(*aux, BOUNDARY_TEXTS.len())]);
                    n.push_str(&s[t.end..]);
                    b = n.into_bytes();
                }
                names.push("replnum");
            }
            8 => {
                ins(&mut b, at, DICT[pick_idx(*aux, DICT.len())].as_bytes());
                names.push("dict");
            }
            9 => {
                b.truncate(at);
                names.push("truncate");
            }
            10 => {
                ins(&mut b, at, &[0xC3, 0x28, 0xFF][..1 + (*aux as usize % 3)]);
                names.push("badutf8");
            }
            _ => {
                let l = 2 + (*aux as usize % 12);
                let e = (at + l).min(len);
                b[at.min(e)..e].reverse();
                names.push("reverse");
            }
        }
        if b.len() > 4096 {
            b.truncate(4096);
        }
    }
    let q = cap_brackets(&String::from_utf8_lossy(&b));
    Case { class: format!("mutate:{}", names.last().copied().unwrap_or("none")), query: q, oracle: "lexical".into(), fixed: vec![], slots: vec![], stack_kib: 0, depth: 0 }
}

fn render_subst(slot_sel: u16, n: &NumSpec, f: u16, use_float: u8, seeds: &Seeds) -> Case {
    if seeds.slots.is_empty() {
        return render(&Spec::IntLit { ctx: slot_sel, sign: 0, n: n.clone() }, seeds);
    }
    let sl = &seeds.slots[pick_idx(slot_sel, seeds.slots.len())];
    let seed = &seeds.texts[sl.seed];
    let nt = render_num(n);
    let kinds: Vec<&str> = sl.kinds.iter().map(|s| s.as_str()).collect();
    let (new_text, slot, cls): (String, Slot, &str) = match kinds.as_slice() {
        ["int"] | ["flt"] => {
            if use_float == 0 {
                let texts = float_texts();
                let ft = texts[pick_idx(f, texts.len())].clone();
                let shown = if sl.neg { format!("-{ft}") } else { ft.clone() };
                (ft.clone(), float_slot(&ft, shown, sl.neg), "float")
            } else {
                let shown = if sl.neg { format!("-{}", nt.text) } else { nt.text.clone() };
                (nt.text.clone(), int_slot(shown, nt.mag, sl.neg), "int")
            }
        }
        ["dim"] => (nt.text.clone(), dim_slot(nt.text.clone(), nt.mag, false), "dim"),
        _ => {
            let kind = match kinds.as_slice() {
                ["skip"] => "skip",
                ["limit"] => "limit",
                ["min"] => "min",
                ["max"] => "max",
                _ => "exact",
            };
            let neg = n.neg == 0;
            let txt = if neg { format!("-{}", nt.text) } else { nt.text.clone() };
            // the slice the parser hands to str::parse includes whitespace inside a range
            let seen = match kind {
                "min" => {
                    let rest = &seed[sl.end..];
                    match rest.find("..") {
                        Some(p) if rest[..p].trim().is_empty() || rest[..p].trim_start().starts_with("/*") => format!("{txt}{}", &rest[..p]),
                        _ => txt.clone(),
                    }
                }
                "max" => {
                    let before = &seed[..sl.start];
                    match before.rfind("..") {
                        Some(p) if before[p + 2..].trim().is_empty() || before[p + 2..].trim_start().starts_with("/*") => format!("{}{txt}", &before[p + 2..]),
                        _ => txt.clone(),
                    }
                }
                _ => txt.clone(),
            };
            // which copy of the SKIP/LIMIT code reads this slot: the statement (UNION part)
            // containing it starts with RETURN / WITH / CREATE / CALL, or the whole query goes
            // through the clause pipeline -> one of the listed `.parse().ok()` copies
            let upper = seed[..sl.start].to_ascii_uppercase();
            let part = upper.rfind("UNION").map(|p| upper[p + 5..].trim_start().trim_start_matches("ALL")).unwrap_or(&upper).trim_start();
            let part = part.strip_prefix("EXPLAIN").or_else(|| part.strip_prefix("PROFILE")).unwrap_or(part).trim_start();
            let drops = sl.pipeline || ["RETURN", "WITH", "CREATE", "CALL"].iter().any(|k| part.starts_with(k));
            (txt.clone(), count_slot(kind, txt, &seen, nt.mag, neg, drops), kind)
        }
    };
    let query = format!("{}{}{}", &seed[..sl.start], new_text, &seed[sl.end..]);
    Case { class: format!("subst:{cls}"), query, oracle: "numerals".into(), fixed: sl.rest.clone(), slots: vec![slot], stack_kib: 0, depth: 0 }
}

fn probe_case(q: String) -> Case {
    Case { class: "probe".into(), query: q, oracle: "numerals".into(), fixed: vec![], slots: vec![], stack_kib: 0, depth: 0 }
}

fn multiset_sub(a: &[String], b: &[String]) -> Vec<String> {
    // a − b
    let mut rest: Vec<String> = a.to_vec();
    for x in b {
        if let Some(p) = rest.iter().position(|y| y == x) {
            rest.remove(p);
        }
    }
    rest
}

/// Load the seed corpus and discover the numeral slots of every seed that parses: replace
/// one numeral by a sentinel, re-parse, and see which AST tokens changed.
fn load_seeds(ev: &mut Evidence) -> Seeds {
    let path = std::path::Path::new(VERIF_ROOT).join("corpus/C25/seeds.txt");
    let mut texts: Vec<String> = Vec::new();
    if let Ok(txt) = std::fs::read_to_string(&path) {
        for line in txt.lines() {
            if let Ok(s) = serde_json::from_str::<String>(line) {
                texts.push(s);
            }
        }
    }
    for t in VARLEN_CTX {
        texts.push(t.replace("@E@", "r:T*1..3"));
    }
    for t in SKIPLIMIT_FORMS {
        texts.push(t.replace("@T@", " SKIP 1 LIMIT 2").replace("@W@", " SKIP 3 LIMIT 4"));
    }
    for (i, t) in LIT_CTX.iter().enumerate() {
        texts.push(t.replace("@N@", if i % 2 == 0 { "5" } else { "2.5" }));
    }
    for t in DIM_CTX {
        texts.push(t.replace("@N@", "4"));
    }
    for (i, t) in STR_CTX.iter().chain(STR_KEY_CTX.iter()).enumerate() {
        texts.push(t.replace("@S@", ["'a\\nb'", "\"it\\'s \\u0041\"", "'\\\\'"][i % 3]));
    }
    let mut probes: Vec<Case> = Vec::new();
    let mut index: Vec<(usize, Option<NumTok>)> = Vec::new();
    for (i, t) in texts.iter().enumerate() {
        if bracket_depth(t) > MAX_BRACKET_DEPTH {
            continue;
        }
        probes.push(probe_case(t.clone()));
        index.push((i, None));
        for tok in lex_numerals(t).into_iter().take(8) {
            let sentinel = if tok.float {
                "7919.25"
            } else if t.contains("7919") {
                "7907"
            } else {
                "7919"
            };
            probes.push(probe_case(format!("{}{}{}", &t[..tok.start], sentinel, &t[tok.end..])));
            index.push((i, Some(tok)));
        }
    }
    let results = eval_cases(&probes);
    let mut base: BTreeMap<usize, Vec<String>> = BTreeMap::new();
    let mut pipeline: std::collections::BTreeSet<usize> = std::collections::BTreeSet::new();
    let mut slots = Vec::new();
    let mut parse_ok = 0u64;
    for ((i, tok), r) in index.iter().zip(results.iter()) {
        match (tok, r) {
            (None, Actual::Ok(t)) => {
                parse_ok += 1;
                if t.iter().any(|x| x == "pipeline") {
                    pipeline.insert(*i);
                }
                base.insert(*i, t.iter().filter(|x| *x != "pipeline").cloned().collect());
            }
            (Some(tok), Actual::Ok(t1)) => {
                let t1: Vec<String> = t1.iter().filter(|x| *x != "pipeline").cloned().collect();
                let t1 = &t1;
                let Some(t0) = base.get(i) else { continue };
                let removed = multiset_sub(t0, t1);
                let added = multiset_sub(t1, t0);
                if added.is_empty() || added.len() != removed.len() || added.len() > 2 {
                    continue;
                }
                let mut kinds = Vec::new();
                let mut neg = false;
                let mut ok = true;
                for a in &added {
                    let (k, v) = a.split_once(':').unwrap_or(("", ""));
                    kinds.push(k.to_string());
                    if k == "flt" {
                        match flt_of_tok(a) {
                            Some(x) if x.abs() == 7919.25 => neg |= x < 0.0,
                            _ => ok = false,
                        }
                    } else {
                        match v.trim_start_matches('-') {
                            "7919" | "7907" => neg |= v.starts_with('-'),
                            _ => ok = false,
                        }
                    }
                }
                kinds.sort();
                if added.len() == 2 && kinds != ["max", "min"] {
                    ok = false;
                }
                // the removed tokens must be of the same kinds (a literal may change int<->flt)
                if ok {
                    slots.push(SeedSlot { seed: *i, start: tok.start, end: tok.end, float: tok.float, kinds, neg, pipeline: pipeline.contains(i), rest: multiset_sub(t0, &removed) });
                }
            }
            _ => {}
        }
    }
    ev.set("seed_queries", json!(texts.len()));
    ev.set("seed_queries_parsing", json!(parse_ok));
    ev.set("seed_numeral_slots", json!(slots.len()));
    let mut by_kind: BTreeMap<String, u64> = BTreeMap::new();
    for s in &slots {
        *by_kind.entry(s.kinds.join("+")).or_insert(0) += 1;
    }
    ev.set("seed_slot_kinds", json!(by_kind));
    Seeds { texts, slots }
}

// =======================================================================================
// Deep nesting (own class; homogeneous, enumerated)

fn nest_cases(tier: Tier) -> Vec<Case> {
    let depths: Vec<u64> = tier.pick(
        vec![8, 32, 64, 128, 200, 256, 400, 512, 1024, 2048, 5000],
        vec![8, 16, 32, 64, 100, 128, 200, 256, 400, 512, 1024, 2048, 5000, 20000, 100000],
    );
    let rep = |s: &str, n: u64| s.repeat(n as usize);
    let kinds: Vec<(&str, Box<dyn Fn(u64) -> String>)> = vec![
        ("paren", Box::new(move |d| format!("RETURN {}1{}", rep("(", d), rep(")", d)))),
        ("list", Box::new(move |d| format!("RETURN {}1{}", rep("[", d), rep("]", d)))),
        ("map", Box::new(move |d| format!("RETURN {}1{}", rep("{a:", d), rep("}", d)))),
        ("listexpr", Box::new(move |d| format!("MATCH (n) RETURN {}n.x{}", rep("[", d), rep("]", d)))),
        ("func", Box::new(move |d| format!("RETURN {}1{}", rep("abs(", d), rep(")", d)))),
        ("not", Box::new(move |d| format!("RETURN {}true", rep("NOT ", d)))),
        ("neg", Box::new(move |d| format!("RETURN {}1", rep("-", d)))),
        ("case", Box::new(move |d| format!("RETURN {}1{}", rep("CASE WHEN true THEN ", d), rep(" END", d)))),
        ("propmap", Box::new(move |d| format!("CREATE (n {{a: {}1{}}})", rep("{a: ", d), rep("}", d)))),
        ("where_paren", Box::new(move |d| format!("MATCH (n) WHERE {}n.x = 1{} RETURN n", rep("(", d), rep(")", d)))),
        ("index_chain", Box::new(move |d| format!("WITH [1] AS xs RETURN xs{}", rep("[0]", d)))),
        ("add_chain", Box::new(move |d| format!("RETURN 1{}", rep("+1", d)))),
        ("call_subquery", Box::new(move |d| format!("{}RETURN 1 AS x{}", rep("CALL { ", d), rep(" }", d)))),
        ("exists", Box::new(move |d| format!("MATCH (n) WHERE {}(n)-->(){} RETURN n", rep("EXISTS { MATCH (n) WHERE ", d), rep(" }", d)))),
        ("listcomp", Box::new(move |d| format!("RETURN {}[1]{}", rep("[x IN ", d), rep(" | x]", d)))),
    ];
    let mut out = Vec::new();
    for (name, f) in &kinds {
        for d in &depths {
            for stack in [8192u64, 2048] {
                out.push(Case { class: format!("nest:{name}"), query: f(*d), oracle: "returns".into(), fixed: vec![], slots: vec![], stack_kib: stack, depth: *d });
            }
        }
    }
    out
}

// =======================================================================================
// Driver

fn text_has_boundary_numeral(q: &str) -> bool {
    lex_numerals(q).iter().any(|t| {
        let s = &q[t.start..t.end];
        if t.float {
            s.parse::<f64>().map(|x| !x.is_finite() || x.abs() >= 1e306 || (x != 0.0 && x.abs() < 1e-306)).unwrap_or(false)
        } else if let Some(h) = s.strip_prefix("0x").or_else(|| s.strip_prefix("0X")) {
            u128::from_str_radix(h, 16).map(|v| int_boundary(Some(v), false)).unwrap_or(true)
        } else if let Some(o) = s.strip_prefix("0o").or_else(|| s.strip_prefix("0O")) {
            u128::from_str_radix(o, 8).map(|v| int_boundary(Some(v), false)).unwrap_or(true)
        } else {
            s.parse::<u128>().map(|v| int_boundary(Some(v), t.start > 0 && q.as_bytes()[t.start - 1] == b'-')).unwrap_or(true)
        }
    })
}

fn is_nontrivial(c: &Case) -> bool {
    if c.oracle == "numerals" && !c.slots.is_empty() {
        c.slots.iter().any(|s| s.boundary)
    } else if c.class.starts_with("string:") {
        c.query.contains('\\') || !c.query.is_ascii()
    } else if c.class.starts_with("nest:") {
        c.depth >= 64
    } else {
        text_has_boundary_numeral(&c.query)
    }
}

fn case_json(c: &Case) -> Value {
    serde_json::to_value(c).unwrap()
}

struct Run<'a> {
    ev: Evidence,
    kfs: Kfs<'a>,
    refusals_by_class: BTreeMap<String, u64>,
}

impl<'a> Run<'a> {
    /// account for one judged case; returns the violation message if any
    fn account(&mut self, c: &Case, a: &Actual) -> Option<String> {
        let v = judge(c, a, &self.kfs);
        let ev = &mut self.ev;
        ev.case();
        ev.class(&c.class);
        if is_nontrivial(c) {
            ev.nontrivial(&c.query);
            if ev.want_sample() && ev.evaluations % 97 == 0 {
                ev.sample(json!({"class": c.class, "query": truncate(&c.query, 300), "outcome": truncate(&format!("{a:?}"), 300)}));
            }
        }
        match a {
            Actual::Ok(_) => ev.class("outcome:ok"),
            Actual::Err(_) => ev.class("outcome:err"),
            Actual::Panic(_) => ev.class("outcome:panic"),
            Actual::Crash(_) => ev.class("outcome:crash"),
            Actual::Timeout => ev.class("outcome:timeout"),
        }
        if c.slots.iter().any(|s| s.fit.is_none()) {
            ev.class("numeral:does_not_fit");
        }
        match v {
            Verdict::Pass { refusal } => {
                if refusal {
                    ev.refusal();
                    if !ev.frozen {
                        *self.refusals_by_class.entry(c.class.clone()).or_insert(0) += 1;
                    }
                }
                None
            }
            Verdict::Known(ids) => {
                for id in ids {
                    ev.kf_hit(&id);
                }
                None
            }
            Verdict::Timeout => {
                if !ev.frozen {
                    ev.timeouts += 1;
                }
                None
            }
            Verdict::Violation(m) => Some(m),
        }
    }
    fn strict_violation(&self, c: &Case) -> Option<String> {
        let a = eval_cases(std::slice::from_ref(c)).remove(0);
        match judge(c, &a, &self.kfs) {
            Verdict::Violation(m) => Some(m),
            _ => None,
        }
    }
    fn finish_run(mut self) -> ! {
        self.ev.set("refusals_by_class", json!(self.refusals_by_class));
        if self.ev.violations == 0 && self.ev.timeouts * 100 > self.ev.evaluations.max(1) {
            self.ev.write();
            eprintln!("INCONCLUSIVE: {} of {} cases exceeded the per-case watchdog", self.ev.timeouts, self.ev.evaluations);
            std::process::exit(2);
        }
        finish(&self.ev)
    }
    /// shrink a failing non-structured case (universal oracle) by deleting characters
    fn shrink_text(&self, c: &Case) -> Case {
        if c.oracle == "numerals" || c.oracle == "strings" || c.class.starts_with("nest:") {
            return c.clone();
        }
        let chars: Vec<char> = c.query.chars().collect();
        let budget = std::cell::Cell::new(600u32);
        let small = shrink_vec(chars, &|cand: &[char]| {
            if budget.get() == 0 {
                return false;
            }
            budget.set(budget.get() - 1);
            let mut cc = c.clone();
            cc.query = cand.iter().collect();
            self.strict_violation(&cc).is_some()
        });
        let mut cc = c.clone();
        cc.query = small.into_iter().collect();
        cc
    }
    fn report(&mut self, c: &Case, msg: &str) {
        let msg = format!("{msg}\n  query: {}", truncate(&c.query, 400));
        report_violation(&mut self.ev, &case_json(c), &msg);
    }
}

fn probe_mode() -> ! {
    use std::io::BufRead;
    let stdin = std::io::stdin();
    for line in stdin.lock().lines() {
        let line = line.unwrap();
        let q: String = serde_json::from_str(&line).unwrap_or(line.clone());
        let mut c = probe_case(q.clone());
        if let Ok(k) = std::env::var("VC_PARSE_STACK_KIB") {
            c.stack_kib = k.parse().unwrap_or(0);
            c.oracle = "returns".into();
        }
        let t0 = std::time::Instant::now();
        let a = eval_cases(&[c]).remove(0);
        println!("{:?}\t{:.3}s\t{}", a, t0.elapsed().as_secs_f64(), truncate(&q, 120));
    }
    std::process::exit(0)
}

fn main() {
    let args = parse_args();
    quiet_panics();
    if std::env::var("VC_PARSE_LOUD").is_ok() {
        let prev = std::panic::take_hook();
        std::panic::set_hook(Box::new(move |info| {
            prev(info);
            eprintln!("[loud] {info}");
        }));
    }
    if args.prop != "C25" {
        eprintln!("vc_parse does not serve {}", args.prop);
        std::process::exit(2);
    }
    if std::env::var("VC_PARSE_PROBE").is_ok() {
        probe_mode();
    }
    start_watchdog(args.tier.pick(900, 5400));
    let known = Known::load(&args);
    let ev = Evidence::new(
        &args,
        "exploration",
        "grammar templates with boundary numerals in every numeric slot (var-length *n, *m..n, *..n, *m.. in 20 pattern positions; SKIP/LIMIT in 31 statement forms; integer dec/hex/octal and float literals with 8 sign forms in 54 expression/value positions), numeral substitution into the repo's own test queries, byte/dictionary mutation of those queries (bracket depth capped at 10), homogeneous deep nesting, string literals (both quote kinds, 33 value positions + 4 key/option positions) built from plain / non-ASCII / raw control text, the standard escapes, \\uXXXX at the boundaries of the surrogate gap, and implementation-defined or malformed escapes (lone and paired surrogates, truncated / non-hex \\u, \\U, \\x, backslash before arbitrary characters, trailing backslash); each case parsed in a forked worker under a 5 s watchdog; Ok => AST numerals equal the written values exactly, unfit value => Err. Non-trivial = the query contains a numeral within 2 of 0 / 2^31 / 2^32 / 2^63 / 2^64 or beyond 2^63, a negative count, a float beyond 1e306 / below 1e-306 / overflowing, or (nest class) depth >= 64, or (string class) an escape sequence or non-ASCII character; where openCypher fixes the meaning of a string literal the AST must hold exactly that string, for the other escape forms only 'returns' is asserted; distinct = distinct query texts.",
    );
    let mut run = Run { ev, kfs: Kfs { known: &known, strict: args.strict }, refusals_by_class: BTreeMap::new() };
    run.ev.assume("timeouts of the 5 s per-case watchdog are counted, never reported (super-linear backtracking is outside C25)");
    run.ev.assume("a decimal numeral with redundant leading zeros (legacy octal in openCypher 9) is not generated in checked slots");
    run.ev.assume("Err is accepted for every input; AST numerals are read from the Debug rendering of samyama::query::ast::Query");

    if let Some(p) = &args.replay {
        let c: Case = serde_json::from_value(load_replay(p)).expect("replay case");
        let a = eval_cases(std::slice::from_ref(&c)).remove(0);
        run.kfs.strict = true;
        match run.account(&c, &a) {
            Some(m) => run.report(&c, &m),
            None => println!("replay: property held ({})", truncate(&format!("{a:?}"), 200)),
        }
        run.ev.nontrivial(&c.query);
        run.ev.nontrivial(&"replay");
        run.ev.sample(case_json(&c));
        run.finish_run();
    }

    // known-finding witnesses: strict replay decides whether each matcher is enabled
    for id in [KF_UNWRAP, KF_MIN1, KF_DROP, KF_INF, KF_STACK] {
        if let Some(w) = witness_case(&known, id) {
            if let Ok(c) = serde_json::from_value::<Case>(w) {
                let a = eval_cases(std::slice::from_ref(&c)).remove(0);
                let strict = Kfs { known: &known, strict: true };
                let still = matches!(judge(&c, &a, &strict), Verdict::Violation(_));
                known.witness_result(&mut run.ev, id, still);
                run.ev.case();
                run.ev.class("witness");
                if is_nontrivial(&c) {
                    run.ev.nontrivial(&c.query);
                }
            }
        }
    }

    // regression corpus
    for (p, v) in corpus_cases("C25") {
        let c: Case = match serde_json::from_value(v) {
            Ok(c) => c,
            Err(_) => continue,
        };
        let a = eval_cases(std::slice::from_ref(&c)).remove(0);
        if let Some(m) = run.account(&c, &a) {
            run.report(&c, &format!("{m} (corpus {})", p.display()));
            run.finish_run();
        }
    }

    let t_phase = std::time::Instant::now();
    let seeds = load_seeds(&mut run.ev);
    let t_seeds = t_phase.elapsed().as_secs_f64();

    // deep nesting
    {
        let cases = nest_cases(args.tier);
        let actual = eval_cases(&cases);
        let mut first_crash: BTreeMap<String, u64> = BTreeMap::new();
        for (c, a) in cases.iter().zip(actual.iter()) {
            if let Actual::Crash(_) = a {
                let k = format!("{}@{}KiB", c.class, c.stack_kib);
                let e = first_crash.entry(k).or_insert(c.depth);
                *e = (*e).min(c.depth);
            }
            if let Some(m) = run.account(c, a) {
                run.ev.frozen = true;
                // smallest failing depth of the same kind
                let mut best = c.clone();
                let mut alt = cases.iter().filter(|x| x.class == c.class && x.stack_kib == c.stack_kib && x.depth < c.depth).collect::<Vec<_>>();
                alt.sort_by_key(|x| x.depth);
                for x in alt {
                    if run.strict_violation(x).is_some() {
                        best = x.clone();
                        break;
                    }
                }
                let m2 = run.strict_violation(&best).unwrap_or(m);
                run.report(&best, &m2);
                run.finish_run();
            }
        }
        run.ev.set("nest_smallest_crashing_depth", json!(first_crash));
    }
    let t_nest = t_phase.elapsed().as_secs_f64() - t_seeds;
    let (mut t_gen, mut t_eval, mut t_judge) = (0f64, 0f64, 0f64);

    // generated search
    let total: usize = args.tier.pick(60_000, 2_000_000);
    let batch = 2000usize;
    let strat = spec_strategy().boxed();
    let mut runner = TestRunner::new(pt_config(args.seed, total as u32));
    let mut done = 0usize;
    while done < total {
        let n = batch.min(total - done);
        let t0 = std::time::Instant::now();
        let mut trees = Vec::with_capacity(n);
        for _ in 0..n {
            match strat.new_tree(&mut runner) {
                Ok(t) => trees.push(t),
                Err(e) => {
                    eprintln!("INCONCLUSIVE: strategy failed: {e}");
                    std::process::exit(2);
                }
            }
        }
        let cases: Vec<Case> = trees.iter().map(|t| render(&t.current(), &seeds)).collect();
        t_gen += t0.elapsed().as_secs_f64();
        let t1 = std::time::Instant::now();
        let actual = eval_cases(&cases);
        t_eval += t1.elapsed().as_secs_f64();
        let t2 = std::time::Instant::now();
        for (k, (c, a)) in cases.iter().zip(actual.iter()).enumerate() {
            if let Some(m) = run.account(c, a) {
                run.ev.frozen = true;
                // shrink through the proptest value tree, each candidate in its own worker
                let tree = &mut trees[k];
                let mut best = (c.clone(), m);
                let mut iters = 0;
                if tree.simplify() {
                    loop {
                        iters += 1;
                        if iters > 400 {
                            break;
                        }
                        let cand = render(&tree.current(), &seeds);
                        match run.strict_violation(&cand) {
                            Some(m2) => {
                                best = (cand, m2);
                                if !tree.simplify() {
                                    break;
                                }
                            }
                            None => {
                                if !tree.complicate() {
                                    break;
                                }
                            }
                        }
                    }
                }
                let small = run.shrink_text(&best.0);
                let msg = run.strict_violation(&small).unwrap_or(best.1);
                run.report(&small, &msg);
                run.finish_run();
            }
        }
        done += n;
        t_judge += t2.elapsed().as_secs_f64();
        run.ev.set("phase_s", json!({"seed_discovery": t_seeds, "nest": t_nest, "generate": t_gen, "isolated_eval": t_eval, "judge": t_judge}));
    }
    run.finish_run();
}
