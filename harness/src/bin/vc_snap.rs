//! C12 (snapshot export -> import round trip), C13 (failed import leaves the store unchanged),
//! C14 (persisted snapshots survive restart / crashes while persisting) — DESIGN §4.
use proptest::prelude::*;
use samyama::graph::{EdgeId, EdgeType, GraphStore, Label, NodeId, PropertyValue};
use samyama::index::hierarchy::{HierarchySpec, RollupOp};
use serde::{Deserialize, Serialize};
use serde_json::{json, Value};
use std::cell::RefCell;
use std::collections::{BTreeMap, BTreeSet, HashMap};
use std::io::{Read, Write};
use vcheck::values::{self, canon};
use vcheck::*;

fn main() {
    let args = parse_args();
    quiet_panics();
    start_watchdog(args.tier.pick(900, 3600));
    // GraphStore::new() pre-allocates a few hundred KB; with glibc's defaults every store is
    // mmap()ed and unmapped again (page faults dominated the run). Keep freed memory in the heap.
    unsafe {
        libc::mallopt(libc::M_MMAP_THRESHOLD, 1 << 30);
        libc::mallopt(libc::M_TRIM_THRESHOLD, 1 << 30);
    }
    // compact_adjacency() uses rayon::join; called from outside a pool every call is a cross-thread
    // hand-off (futex + sched_yield dominated the run). Inside a one-thread pool it runs inline.
    let pool = rayon::ThreadPoolBuilder::new().num_threads(1).stack_size(256 << 20).build().expect("rayon pool");
    pool.install(|| match args.prop.as_str() {
        "C12" => c12(&args),
        "C13" => c13(&args),
        "C14" => c14(&args),
        p => {
            eprintln!("vc_snap does not serve {p}");
            std::process::exit(2)
        }
    })
}

// =======================================================================================
// stderr silencing: the store prints "[compact] ..." / "[dedup] ..." per import

struct Quiet {
    saved: i32,
}
impl Quiet {
    fn on() -> Quiet {
        unsafe {
            let saved = libc::dup(2);
            let devnull = libc::open(b"/dev/null\0".as_ptr() as *const libc::c_char, libc::O_WRONLY);
            libc::dup2(devnull, 2);
            libc::close(devnull);
            Quiet { saved }
        }
    }
    fn off(&self) {
        unsafe {
            libc::dup2(self.saved, 2);
        }
    }
}

// =======================================================================================
// Case representation shared by the three properties

#[derive(Clone, Debug)]
struct PV(PropertyValue);
impl Serialize for PV {
    fn serialize<S: serde::Serializer>(&self, s: S) -> Result<S::Ok, S::Error> {
        values::to_json(&self.0).serialize(s)
    }
}
impl<'de> Deserialize<'de> for PV {
    fn deserialize<D: serde::Deserializer<'de>>(d: D) -> Result<Self, D::Error> {
        let v = Value::deserialize(d)?;
        Ok(PV(values::from_json(&v)))
    }
}

/// how an element is put into the store
const VIA_ROW: u8 = 0; // create_node_with_properties / create_edge(_with_properties)
const VIA_STUB: u8 = 1; // create_node_stub + set_column_property / create_edge_stub
const VIA_CYPHER: u8 = 2; // CREATE statement (falls back to row API when no literal exists)

#[derive(Clone, Debug, Serialize, Deserialize)]
struct NodeSpec {
    uid: i64,
    labels: Vec<String>,
    props: Vec<(String, PV)>,
    via: u8,
}

#[derive(Clone, Debug, Serialize, Deserialize)]
struct EdgeSpec {
    src: usize,
    dst: usize,
    ty: String,
    props: Vec<(String, PV)>,
    via: u8,
}

#[derive(Clone, Debug, Serialize, Deserialize)]
enum Edit {
    SetProp { node: usize, key: String, val: PV },
    SetCol { node: usize, key: String, val: PV },
    RemoveProp { node: usize, key: String },
    AddLabel { node: usize, label: String },
    RemoveLabel { node: usize, label: String },
    SetEdgeProp { edge: usize, key: String, val: PV },
    DeleteEdge { edge: usize },
    DeleteNode { node: usize },
    AddNode(NodeSpec),
    AddEdge(EdgeSpec),
    Compact,
    FinishBulk,
    Bump,
}

#[derive(Clone, Debug, Serialize, Deserialize, PartialEq, Eq, PartialOrd, Ord)]
struct HierDecl {
    name: String,
    edge_types: Vec<String>,
    reverse: bool,
    measure_label: Option<String>,
    measure_property: Option<String>,
    ops: Vec<String>,
}

#[derive(Clone, Debug, Serialize, Deserialize)]
struct GraphCase {
    nodes: Vec<NodeSpec>,
    edges: Vec<EdgeSpec>,
    #[serde(default)]
    edits: Vec<Edit>,
    #[serde(default)]
    hier: Vec<HierDecl>,
    #[serde(default)]
    level: u32,
    /// name of the identity property every node carries ("uid"; C13/C14 snapshots use "sid")
    #[serde(default = "default_id_key")]
    id_key: String,
}

fn default_id_key() -> String {
    "uid".to_string()
}

struct Built {
    store: GraphStore,
    /// hierarchy declarations the store refused (cycle) — not part of the original graph
    hier_refused: usize,
    cypher_used: usize,
}

fn is_ident(s: &str) -> bool {
    !s.is_empty() && s.chars().all(|c| c.is_ascii_alphanumeric() || c == '_') && !s.chars().next().unwrap().is_ascii_digit()
}

/// scalars whose Cypher spelling we trust
fn simple_literal(v: &PropertyValue) -> Option<String> {
    match v {
        PropertyValue::Integer(i) if *i != i64::MIN => values::cypher_literal(v),
        PropertyValue::Float(f) if f.is_finite() => values::cypher_literal(v),
        PropertyValue::Boolean(_) => values::cypher_literal(v),
        PropertyValue::String(s) if !s.contains('\0') && s.chars().all(|c| !c.is_control() || c == '\n' || c == '\t' || c == '\r') => values::cypher_literal(v),
        _ => None,
    }
}

fn run_cypher(store: &mut GraphStore, q: &str) -> Result<(), String> {
    let parsed = samyama::query::parse_query(q).map_err(|e| format!("{e}"))?;
    let mut ex = samyama::query::MutQueryExecutor::new(store, "default".to_string());
    ex.execute(&parsed).map(|_| ()).map_err(|e| format!("{e}"))
}

fn dedup_props(props: &[(String, PV)], id_key: &str) -> Vec<(String, PropertyValue)> {
    let mut m: BTreeMap<String, PropertyValue> = BTreeMap::new();
    for (k, v) in props {
        if k == id_key {
            continue;
        }
        m.insert(k.clone(), v.0.clone());
    }
    m.into_iter().collect()
}

struct Builder {
    store: GraphStore,
    node_ids: Vec<Option<NodeId>>,
    edge_ids: Vec<Option<EdgeId>>,
    cypher_used: usize,
    /// stub relationships were created since the last finish_bulk_load (the stub API's contract
    /// is that finish_bulk_load follows; derived indexes do not see them before)
    stub_dirty: bool,
    id_key: String,
}

impl Builder {
    fn add_node(&mut self, n: &NodeSpec) {
        let mut props = dedup_props(&n.props, &self.id_key);
        props.push((self.id_key.clone(), PropertyValue::Integer(n.uid)));
        let labels: Vec<String> = {
            let s: BTreeSet<String> = n.labels.iter().cloned().collect();
            s.into_iter().collect()
        };
        let mut via = n.via;
        if via == VIA_CYPHER {
            let ok = labels.iter().all(|l| is_ident(l)) && props.iter().all(|(k, v)| is_ident(k) && simple_literal(v).is_some());
            if ok {
                let before = self.store.all_nodes().len();
                let lbl: String = labels.iter().map(|l| format!(":{l}")).collect();
                let pr: Vec<String> = props.iter().map(|(k, v)| format!("{}: {}", k, simple_literal(v).unwrap())).collect();
                let q = format!("CREATE (n{} {{{}}})", lbl, pr.join(", "));
                match run_cypher(&mut self.store, &q) {
                    Ok(()) => {
                        // find the node by uid
                        let mut found = None;
                        for nd in self.store.all_nodes() {
                            if self.store.node_properties_full(nd.id).get(self.id_key.as_str()) == Some(&PropertyValue::Integer(n.uid)) {
                                found = Some(nd.id);
                            }
                        }
                        if found.is_some() {
                            self.cypher_used += 1;
                            self.node_ids.push(found);
                            return;
                        }
                        if self.store.all_nodes().len() != before {
                            // created something we cannot identify: keep it, it is part of the original graph
                            self.node_ids.push(None);
                            return;
                        }
                        via = VIA_ROW;
                    }
                    Err(_) => {
                        if self.store.all_nodes().len() != before {
                            self.node_ids.push(None);
                            return;
                        }
                        via = VIA_ROW;
                    }
                }
            } else {
                via = VIA_ROW;
            }
        }
        let id = if via == VIA_STUB {
            let id = if labels.is_empty() {
                self.store.create_node_with_labels(std::iter::empty::<Label>())
            } else {
                let id = self.store.create_node_stub(labels[0].as_str());
                for l in labels.iter().skip(1) {
                    let _ = self.store.add_label_to_node("default", id, l.as_str());
                }
                id
            };
            for (k, v) in &props {
                self.store.set_column_property(id, k, v.clone());
            }
            id
        } else {
            let pm: HashMap<String, PropertyValue> = props.iter().cloned().collect();
            self.store.create_node_with_properties("default", labels.iter().map(|l| Label::new(l.as_str())).collect(), pm)
        };
        self.node_ids.push(Some(id));
    }

    fn add_edge(&mut self, e: &EdgeSpec) {
        let (s, d) = match (self.node_ids.get(e.src).copied().flatten(), self.node_ids.get(e.dst).copied().flatten()) {
            (Some(s), Some(d)) if self.store.get_node(s).is_some() && self.store.get_node(d).is_some() => (s, d),
            _ => {
                self.edge_ids.push(None);
                return;
            }
        };
        let props = dedup_props(&e.props, "");
        let mut via = e.via;
        if via == VIA_CYPHER {
            let su = self.store.node_properties_full(s).get(self.id_key.as_str()).cloned();
            let du = self.store.node_properties_full(d).get(self.id_key.as_str()).cloned();
            let ok = is_ident(&e.ty) && props.iter().all(|(k, v)| is_ident(k) && simple_literal(v).is_some());
            if let (true, Some(PropertyValue::Integer(su)), Some(PropertyValue::Integer(du))) = (ok, su, du) {
                let before: BTreeSet<u64> = self.store.all_edges().iter().map(|x| x.id.as_u64()).collect();
                let pr: Vec<String> = props.iter().map(|(k, v)| format!("{}: {}", k, simple_literal(v).unwrap())).collect();
                let pm = if pr.is_empty() { String::new() } else { format!(" {{{}}}", pr.join(", ")) };
                let q = format!("MATCH (a {{{k}: {su}}}), (b {{{k}: {du}}}) CREATE (a)-[:{}{}]->(b)", e.ty, pm, k = self.id_key);
                let _ = run_cypher(&mut self.store, &q);
                let after: Vec<u64> = self.store.all_edges().iter().map(|x| x.id.as_u64()).filter(|i| !before.contains(i)).collect();
                if !after.is_empty() {
                    self.cypher_used += 1;
                    self.edge_ids.push(Some(EdgeId::new(after[0])));
                    return;
                }
            }
            via = VIA_ROW;
        }
        let r = if via == VIA_STUB && props.is_empty() {
            self.stub_dirty = true;
            self.store.create_edge_stub(s, d, e.ty.as_str())
        } else if props.is_empty() {
            self.store.create_edge(s, d, e.ty.as_str())
        } else {
            let pm: HashMap<String, PropertyValue> = props.into_iter().collect();
            self.store.create_edge_with_properties(s, d, e.ty.as_str(), pm)
        };
        self.edge_ids.push(r.ok());
    }

    fn edit(&mut self, ed: &Edit) {
        let nid = |b: &Builder, i: usize| -> Option<NodeId> { b.node_ids.get(i).copied().flatten().filter(|id| b.store.get_node(*id).is_some()) };
        let eid = |b: &Builder, i: usize| -> Option<EdgeId> { b.edge_ids.get(i).copied().flatten().filter(|id| b.store.has_edge(*id)) };
        match ed {
            Edit::SetProp { node, key, val } => {
                if let Some(id) = nid(self, *node) {
                    if *key != self.id_key {
                        let _ = self.store.set_node_property("default", id, key.clone(), val.0.clone());
                    }
                }
            }
            Edit::SetCol { node, key, val } => {
                if let Some(id) = nid(self, *node) {
                    if *key != self.id_key {
                        self.store.set_column_property(id, key, val.0.clone());
                    }
                }
            }
            Edit::RemoveProp { node, key } => {
                if let Some(id) = nid(self, *node) {
                    if *key != self.id_key {
                        self.store.remove_node_property(id, key);
                    }
                }
            }
            Edit::AddLabel { node, label } => {
                if let Some(id) = nid(self, *node) {
                    let _ = self.store.add_label_to_node("default", id, label.as_str());
                }
            }
            Edit::RemoveLabel { node, label } => {
                if let Some(id) = nid(self, *node) {
                    let _ = self.store.remove_label_from_node(id, &Label::new(label.as_str()));
                }
            }
            Edit::SetEdgeProp { edge, key, val } => {
                if let Some(id) = eid(self, *edge) {
                    let _ = self.store.set_edge_property(id, key.clone(), val.0.clone());
                }
            }
            Edit::DeleteEdge { edge } => {
                if let Some(id) = eid(self, *edge) {
                    let _ = self.store.delete_edge(id);
                }
            }
            Edit::DeleteNode { node } => {
                if let Some(id) = nid(self, *node) {
                    let _ = self.store.delete_node("default", id);
                }
            }
            Edit::AddNode(n) => self.add_node(n),
            Edit::AddEdge(e) => self.add_edge(e),
            Edit::Compact => self.store.compact_adjacency(),
            Edit::FinishBulk => {
                self.store.finish_bulk_load();
                self.stub_dirty = false;
            }
            Edit::Bump => self.store.current_version += 1,
        }
    }
}

fn parse_ops(ops: &[String]) -> Vec<RollupOp> {
    ops.iter().filter_map(|o| RollupOp::parse(o)).collect()
}

fn build_store(case: &GraphCase) -> Built {
    let mut b = Builder { store: GraphStore::new(), node_ids: Vec::new(), edge_ids: Vec::new(), cypher_used: 0, stub_dirty: false, id_key: case.id_key.clone() };
    for n in &case.nodes {
        b.add_node(n);
    }
    for e in &case.edges {
        b.add_edge(e);
    }
    for ed in &case.edits {
        b.edit(ed);
    }
    if b.stub_dirty {
        b.store.finish_bulk_load();
    }
    let mut hier_refused = 0;
    let mgr = std::sync::Arc::clone(&b.store.hierarchy_index);
    for h in &case.hier {
        let mut spec = HierarchySpec::new(h.name.clone(), h.edge_types.iter().map(|t| EdgeType::new(t.as_str())).collect());
        spec.reverse = h.reverse;
        if let Some(p) = &h.measure_property {
            spec = spec.with_measure(h.measure_label.as_ref().map(|l| Label::new(l.as_str())), p.clone(), parse_ops(&h.ops));
        }
        if mgr.create(&b.store, spec).is_err() {
            hier_refused += 1;
        }
    }
    Built { store: b.store, hier_refused, cypher_used: b.cypher_used }
}

// =======================================================================================
// Canonical dump with values (so the codec quirk switches can be applied to the expected side)

#[derive(Clone, Debug)]
struct XNode {
    uid: String,
    labels: BTreeSet<String>,
    /// labels under which the label index finds this node
    indexed: BTreeSet<String>,
    props: BTreeMap<String, PropertyValue>,
}

#[derive(Clone, Debug)]
struct XEdge {
    src: String,
    dst: String,
    ty: String,
    props: BTreeMap<String, PropertyValue>,
}

#[derive(Clone, Debug, Default)]
struct XDump {
    nodes: Vec<XNode>,
    edges: Vec<XEdge>,
    /// stored non-current versions of nodes (what "every version is exported" would add)
    stale_versions: Vec<XNode>,
    /// adjacency entries whose relationship no longer exists: (src uid, dst uid or None when the
    /// node is gone, type, number of stored versions of the source node)
    ghost_edges: Vec<(String, Option<String>, String, usize)>,
    hier: Vec<HierDecl>,
    has_empty_label: bool,
}

fn uid_key(props: &BTreeMap<String, PropertyValue>) -> String {
    match (props.get("uid"), props.get("sid")) {
        (Some(v), _) if !v.is_null() => format!("u{}", canon(v)),
        (_, Some(v)) if !v.is_null() => format!("s{}", canon(v)),
        _ => "anon".to_string(),
    }
}

fn xdump(store: &GraphStore) -> XDump {
    let mut d = XDump::default();
    let all = store.all_nodes();
    let mut by_id: BTreeMap<u64, Vec<&samyama::graph::Node>> = BTreeMap::new();
    for n in &all {
        by_id.entry(n.id.as_u64()).or_default().push(n);
    }
    let indexed_of = |id: NodeId, labels: &BTreeSet<String>| -> BTreeSet<String> {
        labels.iter().filter(|l| store.nodes_with_label(&Label::new(l.as_str())).map(|s| s.contains(&id)).unwrap_or(false)).cloned().collect()
    };
    let mut key_of: BTreeMap<u64, String> = BTreeMap::new();
    for (idu, versions) in &by_id {
        let id = NodeId::new(*idu);
        let cur = match store.get_node(id) {
            Some(c) => c,
            None => continue,
        };
        let labels: BTreeSet<String> = cur.labels.iter().map(|l| l.as_str().to_string()).collect();
        let props: BTreeMap<String, PropertyValue> = store.node_properties_full(id).into_iter().collect();
        let key = uid_key(&props);
        key_of.insert(*idu, key.clone());
        if labels.contains("") {
            d.has_empty_label = true;
        }
        d.nodes.push(XNode { uid: key, indexed: indexed_of(id, &labels), labels, props });
        // non-current stored versions: row properties of that version + current column values for absent keys
        for v in versions.iter().take(versions.len().saturating_sub(1)) {
            let vl: BTreeSet<String> = v.labels.iter().map(|l| l.as_str().to_string()).collect();
            let mut vp: BTreeMap<String, PropertyValue> = v.properties.iter().map(|(k, x)| (k.clone(), x.clone())).collect();
            for k in store.node_columns.get_property_keys(*idu as usize) {
                if !vp.contains_key(&k) {
                    let val = store.node_columns.get_property(*idu as usize, &k);
                    if !val.is_null() {
                        vp.insert(k, val);
                    }
                }
            }
            d.stale_versions.push(XNode { uid: uid_key(&vp), indexed: BTreeSet::new(), labels: vl, props: vp });
        }
    }
    let mut live_edges: BTreeSet<u64> = BTreeSet::new();
    for e in store.all_edges() {
        live_edges.insert(e.id.as_u64());
        let src = key_of.get(&e.source.as_u64()).cloned().unwrap_or_else(|| format!("MISSING-n{}", e.source.as_u64()));
        let dst = key_of.get(&e.target.as_u64()).cloned().unwrap_or_else(|| format!("MISSING-n{}", e.target.as_u64()));
        d.edges.push(XEdge { src, dst, ty: e.edge_type.as_str().to_string(), props: e.properties.iter().map(|(k, v)| (k.clone(), v.clone())).collect() });
    }
    // adjacency entries of live nodes that name a relationship which no longer exists
    for idu in key_of.keys() {
        let mut adj: Vec<(NodeId, EdgeId)> = store.frozen_outgoing_neighbors(*idu as usize);
        adj.extend_from_slice(store.get_outgoing_neighbor_slice(NodeId::new(*idu)));
        for (tgt, eid) in adj {
            if !live_edges.contains(&eid.as_u64()) {
                let ty = store.get_edge_type(eid).map(|t| t.as_str().to_string()).unwrap_or_default();
                d.ghost_edges.push((key_of[idu].clone(), key_of.get(&tgt.as_u64()).cloned(), ty, by_id[idu].len()));
            }
        }
    }
    for info in store.hierarchy_index.list() {
        if let Some(entry) = store.hierarchy_index.get(&info.name) {
            let e = entry.read().unwrap();
            let mut ops: Vec<String> = e.spec.ops.iter().map(|o| o.name().to_string()).collect();
            ops.sort();
            ops.dedup();
            d.hier.push(HierDecl {
                name: e.spec.name.clone(),
                edge_types: e.spec.edge_types.iter().map(|t| t.as_str().to_string()).collect(),
                reverse: e.spec.reverse,
                measure_label: e.spec.measure.as_ref().and_then(|m| m.label.as_ref().map(|l| l.as_str().to_string())),
                measure_property: e.spec.measure.as_ref().map(|m| m.property.clone()),
                ops,
            });
        }
    }
    d.hier.sort();
    d
}

// ---------------------------------------------------------------------------------------
// quirk switches of the reference round trip (identity when none is set)

const Q_SNIFF: u16 = 1 << 0; // KF-C12-1 line type sniffed by substring -> import of a valid export fails
const Q_TRIM: u16 = 1 << 1; // KF-C12-2 string values trimmed on import
const Q_EMPTY_LABEL: u16 = 1 << 2; // KF-C12-3 unlabelled node gains label ""
const Q_VERSIONS: u16 = 1 << 3; // KF-C12-4 every stored version exported as a node
const Q_NONFINITE: u16 = 1 << 4; // KF-C12-5 NaN / inf have no JSON spelling -> null / dropped
const Q_TAGGED: u16 = 1 << 5; // KF-C12-6 user map with "__type" key reinterpreted
const Q_HIER: u16 = 1 << 6; // KF-C12-7 hierarchy reverse / measure_label not exported
const Q_LABEL_INDEX: u16 = 1 << 7; // KF-C12-8 labels after the first are not put into the label index
const Q_GHOST: u16 = 1 << 8; // KF-C12-9 adjacency entries of deleted relationships are exported
const Q_FLOAT_PARSE: u16 = 1 << 9; // KF-C12-10 serde_json's default float parser is not round-trip exact

const C12_QUIRKS: [(u16, &str); 10] = [
    (Q_SNIFF, "KF-C12-1"),
    (Q_TRIM, "KF-C12-2"),
    (Q_EMPTY_LABEL, "KF-C12-3"),
    (Q_VERSIONS, "KF-C12-4"),
    (Q_NONFINITE, "KF-C12-5"),
    (Q_TAGGED, "KF-C12-6"),
    (Q_HIER, "KF-C12-7"),
    (Q_LABEL_INDEX, "KF-C12-8"),
    (Q_GHOST, "KF-C12-9"),
    (Q_FLOAT_PARSE, "KF-C12-10"),
];

/// what the linked serde_json (same crate instance and features as /repo's) makes of its own
/// rendering of a float
fn json_float_roundtrip(f: f64) -> f64 {
    serde_json::to_string(&f).ok().and_then(|t| serde_json::from_str::<Value>(&t).ok()).and_then(|v| v.as_f64()).unwrap_or(f)
}
fn json_f32_roundtrip(f: f32) -> f32 {
    serde_json::to_string(&f).ok().and_then(|t| serde_json::from_str::<Value>(&t).ok()).and_then(|v| v.as_f64()).map(|x| x as f32).unwrap_or(f)
}

/// The value a faithful codec returns is the value itself; each switch reproduces one
/// confirmed deviation of src/snapshot/mod.rs property_to_json / json_to_property.
fn codec(v: &PropertyValue, q: u16) -> PropertyValue {
    match v {
        PropertyValue::String(s) if q & Q_TRIM != 0 => PropertyValue::String(s.trim().to_string()),
        PropertyValue::Float(f) if q & Q_NONFINITE != 0 && !f.is_finite() => PropertyValue::Null,
        PropertyValue::Float(f) if q & Q_FLOAT_PARSE != 0 && f.is_finite() => PropertyValue::Float(json_float_roundtrip(*f)),
        PropertyValue::Vector(x) if q & (Q_NONFINITE | Q_FLOAT_PARSE) != 0 => PropertyValue::Vector(
            x.iter().cloned().filter(|f| q & Q_NONFINITE == 0 || f.is_finite()).map(|f| if q & Q_FLOAT_PARSE != 0 && f.is_finite() { json_f32_roundtrip(f) } else { f }).collect(),
        ),
        PropertyValue::Array(a) => PropertyValue::Array(a.iter().map(|x| codec(x, q)).collect()),
        PropertyValue::Map(m) => {
            if q & Q_TAGGED != 0 {
                if let Some(PropertyValue::String(tag)) = m.get("__type") {
                    let int_of = |k: &str| -> Option<i64> {
                        match m.get(k) {
                            Some(PropertyValue::Integer(i)) => Some(*i),
                            _ => None,
                        }
                    };
                    match tag.as_str() {
                        "DateTime" => {
                            if let Some(i) = int_of("value") {
                                return PropertyValue::DateTime(i);
                            }
                        }
                        "Vector" => {
                            if let Some(PropertyValue::Array(arr)) = m.get("value") {
                                let fl: Vec<f32> = arr
                                    .iter()
                                    .filter_map(|x| match x {
                                        PropertyValue::Integer(i) => Some(*i as f64 as f32),
                                        PropertyValue::Float(f) if f.is_finite() => Some(*f as f32),
                                        _ => None,
                                    })
                                    .collect();
                                return PropertyValue::Vector(fl);
                            }
                        }
                        "Duration" => {
                            return PropertyValue::Duration {
                                months: int_of("months").unwrap_or(0),
                                days: int_of("days").unwrap_or(0),
                                seconds: int_of("seconds").unwrap_or(0),
                                nanos: int_of("nanos").unwrap_or(0) as i32,
                            };
                        }
                        _ => {}
                    }
                }
            }
            PropertyValue::Map(m.iter().map(|(k, x)| (k.clone(), codec(x, q))).collect())
        }
        other => other.clone(),
    }
}

fn render_props(p: &BTreeMap<String, PropertyValue>, q: u16) -> String {
    let mut parts = Vec::new();
    for (k, v) in p {
        let v2 = codec(v, q);
        if v2.is_null() {
            continue; // a null-valued property is an absent property
        }
        parts.push(format!("{:?}={}", k, canon(&v2)));
    }
    parts.join(", ")
}

fn node_line(n: &XNode, q: u16, expected_side: bool) -> String {
    let mut labels = n.labels.clone();
    if expected_side && q & Q_EMPTY_LABEL != 0 && labels.is_empty() {
        labels.insert(String::new());
    }
    let idx = if q & Q_LABEL_INDEX != 0 && labels.len() >= 2 {
        if expected_side || (n.indexed.len() == 1 && n.indexed.is_subset(&labels)) {
            "one-of-its-labels".to_string()
        } else {
            format!("{:?}", n.indexed)
        }
    } else if expected_side {
        format!("{:?}", labels)
    } else {
        format!("{:?}", n.indexed)
    };
    // props: quirks transform the expected side only
    let pq = if expected_side { q } else { 0 };
    format!("N {} labels={:?} indexed={} {{{}}}", n.uid, labels, idx, render_props(&n.props, pq))
}

fn edge_line(e: &XEdge, q: u16, expected_side: bool) -> String {
    let pq = if expected_side { q } else { 0 };
    format!("E {} -[{:?}]-> {} {{{}}}", e.src, e.ty, e.dst, render_props(&e.props, pq))
}

fn hier_line(h: &HierDecl, q: u16, expected_side: bool) -> String {
    let mut h = h.clone();
    if expected_side && q & Q_HIER != 0 {
        h.reverse = false;
        h.measure_label = None;
    }
    format!("H {:?}", h)
}

/// What the imported store should look like. Err(reason) = the import is expected to be refused.
fn expected_lines(orig: &XDump, q: u16) -> Result<Vec<String>, String> {
    let mut out = Vec::new();
    for n in &orig.nodes {
        out.push(node_line(n, q, true));
    }
    if q & Q_VERSIONS != 0 {
        for n in &orig.stale_versions {
            out.push(node_line(n, q, true));
        }
    }
    for e in &orig.edges {
        out.push(edge_line(e, q, true));
    }
    if q & Q_GHOST != 0 {
        for (s, d, ty, versions) in &orig.ghost_edges {
            match d {
                Some(d) => {
                    // the export walks every stored version of the source node
                    let times = if q & Q_VERSIONS != 0 { *versions } else { 1 };
                    for _ in 0..times {
                        out.push(edge_line(&XEdge { src: s.clone(), dst: d.clone(), ty: ty.clone(), props: BTreeMap::new() }, q, true));
                    }
                }
                None => return Err("unknown target node".to_string()),
            }
        }
    }
    for h in &orig.hier {
        out.push(hier_line(h, q, true));
    }
    out.sort();
    Ok(out)
}

fn actual_lines(imp: &XDump, q: u16) -> Vec<String> {
    let mut out = Vec::new();
    for n in &imp.nodes {
        out.push(node_line(n, q, false));
    }
    for n in &imp.stale_versions {
        out.push(format!("STALE-VERSION-IN-IMPORT {}", node_line(n, 0, false)));
    }
    for e in &imp.edges {
        out.push(edge_line(e, q, false));
    }
    for h in &imp.hier {
        out.push(hier_line(h, q, false));
    }
    out.sort();
    out
}

fn diff_lines(want: &[String], got: &[String]) -> String {
    let mut w: BTreeMap<&String, i64> = BTreeMap::new();
    for l in want {
        *w.entry(l).or_insert(0) += 1;
    }
    for l in got {
        *w.entry(l).or_insert(0) -= 1;
    }
    let mut s = String::new();
    for (l, c) in w {
        if c > 0 {
            s.push_str(&format!("  original only (x{c}): {l}\n"));
        } else if c < 0 {
            s.push_str(&format!("  imported only (x{}): {l}\n", -c));
        }
    }
    s
}

fn gunzip_lossy(bytes: &[u8]) -> Vec<u8> {
    let mut dec = flate2::read::GzDecoder::new(bytes);
    let mut out = Vec::new();
    let mut buf = [0u8; 4096];
    loop {
        match dec.read(&mut buf) {
            Ok(0) => break,
            Ok(n) => out.extend_from_slice(&buf[..n]),
            Err(_) => break,
        }
    }
    out
}

fn gzip(bytes: &[u8], level: u32) -> Vec<u8> {
    let mut enc = flate2::write::GzEncoder::new(Vec::new(), flate2::Compression::new(level));
    enc.write_all(bytes).unwrap();
    enc.finish().unwrap()
}

// ---------------------------------------------------------------------------------------
// Deterministic snapshot bytes. The exporter stamps the wall clock into the header and writes
// property maps in HashMap order, so the same graph exports to different bytes in every
// process. C13/C14 enumerate byte offsets, so they work on a normalised stream: header
// `created_at` fixed, keys of nested objects sorted (scalar tokens copied verbatim, no
// re-rendering of numbers), recompressed with the same gzip level.

struct JsonCanon<'a> {
    b: &'a [u8],
    i: usize,
}
impl<'a> JsonCanon<'a> {
    fn ws(&mut self) {
        while self.i < self.b.len() && (self.b[self.i] as char).is_ascii_whitespace() {
            self.i += 1;
        }
    }
    fn string_tok(&mut self) -> Option<String> {
        let start = self.i;
        if self.b.get(self.i) != Some(&b'"') {
            return None;
        }
        self.i += 1;
        while self.i < self.b.len() {
            match self.b[self.i] {
                b'\\' => self.i += 2,
                b'"' => {
                    self.i += 1;
                    return Some(String::from_utf8_lossy(&self.b[start..self.i]).to_string());
                }
                _ => self.i += 1,
            }
        }
        None
    }
    fn value(&mut self, sort: bool) -> Option<String> {
        self.value2(sort, false)
    }
    /// `sort`: sort the members of this object; `sort_items`: sort the items of this array
    fn value2(&mut self, sort: bool, sort_items: bool) -> Option<String> {
        self.ws();
        match self.b.get(self.i)? {
            b'{' => {
                self.i += 1;
                let mut members: Vec<(String, String)> = Vec::new();
                loop {
                    self.ws();
                    if self.b.get(self.i) == Some(&b'}') {
                        self.i += 1;
                        break;
                    }
                    let k = self.string_tok()?;
                    self.ws();
                    if self.b.get(self.i) != Some(&b':') {
                        return None;
                    }
                    self.i += 1;
                    // a node's label set is written in HashSet order: canonical order for the record
                    let v = self.value2(true, !sort && k == "\"labels\"")?;
                    members.push((k, v));
                    self.ws();
                    match self.b.get(self.i)? {
                        b',' => self.i += 1,
                        b'}' => {
                            self.i += 1;
                            break;
                        }
                        _ => return None,
                    }
                }
                if sort {
                    members.sort();
                }
                Some(format!("{{{}}}", members.iter().map(|(k, v)| format!("{k}:{v}")).collect::<Vec<_>>().join(",")))
            }
            b'[' => {
                self.i += 1;
                let mut items = Vec::new();
                loop {
                    self.ws();
                    if self.b.get(self.i) == Some(&b']') {
                        self.i += 1;
                        break;
                    }
                    items.push(self.value(true)?);
                    self.ws();
                    match self.b.get(self.i)? {
                        b',' => self.i += 1,
                        b']' => {
                            self.i += 1;
                            break;
                        }
                        _ => return None,
                    }
                }
                if sort_items {
                    items.sort();
                }
                Some(format!("[{}]", items.join(",")))
            }
            b'"' => self.string_tok(),
            _ => {
                let start = self.i;
                while self.i < self.b.len() && !matches!(self.b[self.i], b',' | b'}' | b']' | b' ') {
                    self.i += 1;
                }
                Some(String::from_utf8_lossy(&self.b[start..self.i]).to_string())
            }
        }
    }
}

/// top-level member order is the exporter's struct order (deterministic); nested objects sorted
fn canon_json_line(line: &str) -> String {
    let mut p = JsonCanon { b: line.as_bytes(), i: 0 };
    match p.value(false) {
        Some(s) if p.i == line.len() => s,
        _ => line.to_string(),
    }
}

fn normalise_snapshot(bytes: &[u8], level: u32) -> Result<(Vec<u8>, Vec<String>), String> {
    let (lines, err) = read_lines(bytes);
    if let Some(e) = err {
        return Err(format!("export is not readable: {e}"));
    }
    let mut out = Vec::new();
    for (i, l) in lines.iter().enumerate() {
        if i == 0 {
            let mut h: Value = serde_json::from_str(l).map_err(|e| format!("export header: {e}"))?;
            let stamp = h["created_at"].as_str().unwrap_or("").to_string();
            let _ = &mut h;
            out.push(if stamp.is_empty() { l.clone() } else { l.replacen(&stamp, "2026-01-01T00:00:00+00:00", 1) });
        } else {
            out.push(canon_json_line(l));
        }
    }
    let mut t = out.join("\n");
    t.push('\n');
    Ok((gzip(t.as_bytes(), level), out))
}

/// KF-C12-1 structural predicate: an exported relationship line carries `"t":"n"` or `"t":"h"`
/// somewhere after its own tag (a property map with key t and value 'n'/'h').
fn sniff_predicate(text: &str) -> bool {
    text.lines().any(|l| l.starts_with("{\"t\":\"e\"") && (l.contains("\"t\":\"n\"") || l.contains("\"t\":\"h\"")))
}

#[derive(Debug)]
enum Verdict {
    Pass,
    Known(u16),
    Fail(String),
}

struct C12Info {
    nontrivial: bool,
    edges: usize,
    nodes: usize,
    multi_version: bool,
    hier: usize,
    hier_refused: usize,
    cypher_used: usize,
    import_refused: bool,
    /// largest live relationship id >= 64 (the export's id bitmap needs a second word)
    edge_ids_cross_word: bool,
    /// live relationship (or node) ids have holes: largest id > number of live ones
    ids_with_holes: bool,
    node_ids_cross_word: bool,
    /// the live relationship ids need more bitmap words than their number suggests
    edge_words_by_count_lt_by_max: bool,
}

fn has_exotic_value(d: &XDump) -> bool {
    fn exotic(v: &PropertyValue) -> bool {
        match v {
            PropertyValue::Integer(_) => false,
            PropertyValue::String(s) => !s.chars().all(|c| c.is_ascii_graphic() || c == ' ') || s.trim() != s,
            _ => true,
        }
    }
    d.nodes.iter().any(|n| n.props.values().any(exotic)) || d.edges.iter().any(|e| e.props.values().any(exotic))
}

/// Round trip one graph. `enabled` = quirk switches whose known finding is active.
fn c12_eval(case: &GraphCase, enabled: u16) -> (Verdict, C12Info) {
    let built = build_store(case);
    let orig = xdump(&built.store);
    let (edge_max, edge_cnt) = {
        let es = built.store.all_edges();
        (es.iter().map(|e| e.id.as_u64()).max().unwrap_or(0), es.len() as u64)
    };
    let (node_max, node_cnt) = {
        let ns = vcheck::dump::live_node_ids(&built.store);
        (ns.iter().map(|n| n.as_u64()).max().unwrap_or(0), ns.len() as u64)
    };
    let mut info = C12Info {
        edge_ids_cross_word: edge_max >= 64,
        ids_with_holes: edge_max > edge_cnt || node_max > node_cnt,
        node_ids_cross_word: node_max >= 64,
        edge_words_by_count_lt_by_max: edge_cnt / 64 < edge_max / 64,
        nontrivial: !orig.edges.is_empty() && has_exotic_value(&orig),
        edges: orig.edges.len(),
        nodes: orig.nodes.len(),
        multi_version: !orig.stale_versions.is_empty(),
        hier: orig.hier.len(),
        hier_refused: built.hier_refused,
        cypher_used: built.cypher_used,
        import_refused: false,
    };
    let mut bytes = Vec::new();
    if let Err(e) = samyama::snapshot::export_tenant_with_compression(&built.store, &mut bytes, case.level) {
        return (Verdict::Fail(format!("export failed: {e}")), info);
    }
    let text = String::from_utf8_lossy(&gunzip_lossy(&bytes)).to_string();
    let mut target = GraphStore::new();
    let res = samyama::snapshot::import_tenant(&mut target, std::io::Cursor::new(&bytes)).map_err(|e| e.to_string());
    let strict = expected_lines(&orig, 0);
    match res {
        Err(msg) => {
            info.import_refused = true;
            // which switches predict a refusal?
            let mut explained = 0u16;
            if enabled & Q_SNIFF != 0 && sniff_predicate(&text) && msg.contains("missing field") {
                explained |= Q_SNIFF;
            }
            if enabled & Q_GHOST != 0 && expected_lines(&orig, Q_GHOST).is_err() && msg.contains("unknown") {
                explained |= Q_GHOST;
            }
            if explained != 0 {
                (Verdict::Known(explained), info)
            } else {
                (Verdict::Fail(format!("import of the exported snapshot was refused: {msg}\nexported stream:\n{}", truncate(&text, 1500))), info)
            }
        }
        Ok(_) => {
            let imp = xdump(&target);
            let got0 = actual_lines(&imp, 0);
            if let Ok(w) = &strict {
                if *w == got0 {
                    return (Verdict::Pass, info);
                }
            }
            // relevant switches: enabled and changing the expectation (or the normalisation) for this graph
            let mut relevant: Vec<u16> = Vec::new();
            for (bit, _) in C12_QUIRKS.iter() {
                if enabled & bit == 0 || *bit == Q_SNIFF {
                    continue;
                }
                let all = enabled & !Q_SNIFF;
                let changes = expected_lines(&orig, *bit) != strict
                    || actual_lines(&imp, *bit) != got0
                    || expected_lines(&orig, all) != expected_lines(&orig, all & !*bit)
                    || actual_lines(&imp, all) != actual_lines(&imp, all & !*bit);
                if changes {
                    relevant.push(*bit);
                }
            }
            // smallest subset of relevant switches that explains the imported graph exactly
            let n = relevant.len();
            let mut subsets: Vec<u16> = (1u32..(1u32 << n)).map(|m| (0..n).filter(|i| m & (1 << i) != 0).fold(0u16, |a, i| a | relevant[i])).collect();
            subsets.sort_by_key(|s| (s.count_ones(), *s));
            for s in subsets {
                if let Ok(w) = expected_lines(&orig, s) {
                    if w == actual_lines(&imp, s) {
                        return (Verdict::Known(s), info);
                    }
                }
            }
            let w = strict.unwrap_or_default();
            (Verdict::Fail(format!("imported graph differs from the original:\n{}exported stream:\n{}", diff_lines(&w, &got0), truncate(&text, 1500))), info)
        }
    }
}

// ---------------------------------------------------------------------------------------
// generators

fn safe_string() -> BoxedStrategy<String> {
    prop_oneof![
        3 => proptest::sample::select(vec!["a", "b", "ab", "x y", "é", "日本語", "😀", "it's", "say \"hi\"", "back\\slash", "a\r\nb", "line1\nline2", "null", "1.0", "t", "n", "e", "__type", "{\"t\":\"n\"}", "", "<tag>&amp;"]).prop_map(|s| s.to_string()),
        1 => "[a-c]{1,3}",
    ]
    .boxed()
}

/// values that survive the codec as specified by ADR-022 with no known deviation
fn clean_scalar() -> BoxedStrategy<PropertyValue> {
    prop_oneof![
        3 => prop_oneof![-4i64..8, proptest::sample::select(values::boundary_ints())].prop_map(PropertyValue::Integer),
        2 => proptest::sample::select(vec![0.0f64, -0.0, 1.0, 0.5, -1.5, 2.0, 0.1, 1e308, 5e-324, 9007199254740993.0, f64::MAX, f64::MIN_POSITIVE]).prop_map(PropertyValue::Float),
        3 => safe_string().prop_map(PropertyValue::String),
        1 => any::<bool>().prop_map(PropertyValue::Boolean),
        1 => prop_oneof![Just(0i64), Just(-1i64), Just(1700000000000i64)].prop_map(PropertyValue::DateTime),
        1 => (-3i64..14, -40i64..40, -100000i64..100000, -999_999_999i32..999_999_999).prop_map(|(months, days, seconds, nanos)| PropertyValue::Duration { months, days, seconds, nanos }),
        1 => proptest::collection::vec(prop_oneof![Just(0.0f32), Just(-0.0f32), Just(1.0f32), (-8i32..8).prop_map(|x| x as f32 / 4.0)], 0..4).prop_map(PropertyValue::Vector),
    ]
    .boxed()
}

fn clean_value() -> BoxedStrategy<PropertyValue> {
    let keys = prop_oneof![proptest::sample::select(vec!["a", "b", "k k", "é", "n", ""]).prop_map(|s| s.to_string())];
    prop_oneof![
        6 => clean_scalar(),
        1 => proptest::collection::vec(prop_oneof![4 => clean_scalar(), 1 => Just(PropertyValue::Null)], 0..4).prop_map(PropertyValue::Array),
        1 => proptest::collection::vec((keys, clean_scalar()), 0..3).prop_map(|kv| PropertyValue::Map(kv.into_iter().collect())),
    ]
    .boxed()
}

/// user maps shaped like the snapshot's tagged objects
fn tagged_shaped() -> BoxedStrategy<PropertyValue> {
    let tag = proptest::sample::select(vec!["DateTime", "Vector", "Duration", "Other", " DateTime"]);
    let field = proptest::sample::select(vec!["value", "months", "days", "seconds", "nanos", "x"]);
    let fv = prop_oneof![
        (-5i64..5).prop_map(PropertyValue::Integer),
        Just(PropertyValue::Float(1.5)),
        Just(PropertyValue::String("s".into())),
        proptest::collection::vec(prop_oneof![(-3i64..3).prop_map(PropertyValue::Integer), Just(PropertyValue::Float(0.5)), Just(PropertyValue::String("z".into()))], 0..3).prop_map(PropertyValue::Array),
    ];
    (tag, proptest::collection::vec((field, fv), 0..3))
        .prop_map(|(t, fs)| {
            let mut m: HashMap<String, PropertyValue> = fs.into_iter().map(|(k, v)| (k.to_string(), v)).collect();
            m.insert("__type".to_string(), PropertyValue::String(t.to_string()));
            PropertyValue::Map(m)
        })
        .boxed()
}

fn wild_value() -> BoxedStrategy<PropertyValue> {
    prop_oneof![
        6 => clean_value(),
        5 => values::value_strategy(2).prop_map(|v| if v.is_null() { PropertyValue::Integer(0) } else { v }),
        1 => tagged_shaped(),
    ]
    .boxed()
}

fn key_strategy(clean: bool) -> BoxedStrategy<String> {
    if clean {
        proptest::sample::select(vec!["p", "q", "k", "name", "extra"]).prop_map(|s| s.to_string()).boxed()
    } else {
        proptest::sample::select(vec!["p", "q", "k", "name", "t", "é", "", " pad", "a b", "__type", "labels"]).prop_map(|s| s.to_string()).boxed()
    }
}

fn props_strategy(clean: bool, max: usize) -> BoxedStrategy<Vec<(String, PV)>> {
    let v = if clean { clean_value() } else { wild_value() };
    proptest::collection::vec((key_strategy(clean), v.prop_map(PV)), 0..=max).boxed()
}

fn labels_strategy(clean: bool) -> BoxedStrategy<Vec<String>> {
    if clean {
        proptest::sample::subsequence(vec!["A", "B", "C"], 1..=2).prop_map(|v| v.into_iter().map(|s| s.to_string()).collect()).boxed()
    } else {
        proptest::sample::subsequence(vec!["A", "B", "C", "é"], 0..=3).prop_map(|v| v.into_iter().map(|s| s.to_string()).collect()).boxed()
    }
}

fn node_strategy(clean: bool) -> BoxedStrategy<(Vec<String>, Vec<(String, PV)>, u8)> {
    (labels_strategy(clean), props_strategy(clean, 3), 0u8..3).boxed()
}

fn edge_strategy(clean: bool) -> BoxedStrategy<(u16, u16, String, Vec<(String, PV)>, u8)> {
    let ty = proptest::sample::select(vec!["R", "S", "T"]).prop_map(|s| s.to_string());
    let props = prop_oneof![2 => Just(Vec::new()), 2 => props_strategy(clean, 2)];
    (any::<u16>(), any::<u16>(), ty, props, 0u8..3).boxed()
}

type RawEdit = (u8, u16, u16, String, PV, String);

fn raw_edit_strategy() -> BoxedStrategy<RawEdit> {
    let label = proptest::sample::select(vec!["A", "B", "C", "D"]).prop_map(|s| s.to_string());
    (0u8..16, any::<u16>(), any::<u16>(), key_strategy(false), wild_value().prop_map(PV), label).boxed()
}

fn hier_strategy() -> BoxedStrategy<HierDecl> {
    let types = proptest::sample::subsequence(vec!["R", "S", "T"], 1..=2).prop_map(|v| v.into_iter().map(|s| s.to_string()).collect::<Vec<String>>());
    let measure = prop_oneof![
        2 => Just(None),
        3 => (proptest::option::of(proptest::sample::select(vec!["A", "B"])), proptest::sample::select(vec!["p", "q"]), proptest::sample::subsequence(vec!["count", "max", "min", "sum"], 1..=3))
            .prop_map(|(l, p, ops)| Some((l.map(|s| s.to_string()), p.to_string(), ops.into_iter().map(|s| s.to_string()).collect::<Vec<String>>()))),
    ];
    (proptest::sample::select(vec!["h1", "h2", "tax onomy"]), types, prop_oneof![3 => Just(false), 1 => Just(true)], measure)
        .prop_map(|(name, edge_types, reverse, measure)| match measure {
            None => HierDecl { name: name.to_string(), edge_types, reverse, measure_label: None, measure_property: None, ops: vec!["count".to_string()] },
            Some((l, p, ops)) => HierDecl { name: name.to_string(), edge_types, reverse, measure_label: l, measure_property: Some(p), ops },
        })
        .boxed()
}

/// Graph generator. `clean` restricts to the sub-domain on which the codec is exact today
/// (used for C13/C14 so that their success oracle is exact); `history` adds edits.
fn graph_strategy(clean: bool, history: bool, max_nodes: usize, max_edges: usize, uid_base: i64) -> BoxedStrategy<GraphCase> {
    let nodes = proptest::collection::vec(node_strategy(clean), if clean { 1 } else { 0 }..=max_nodes);
    let edges = proptest::collection::vec(edge_strategy(clean), 0..=max_edges);
    let edits = if history { proptest::collection::vec(raw_edit_strategy(), 0..7).boxed() } else { Just(Vec::new()).boxed() };
    let hier = if history { prop_oneof![3 => Just(Vec::new()), 2 => proptest::collection::vec(hier_strategy(), 1..=2)].boxed() } else { Just(Vec::new()).boxed() };
    let level = prop_oneof![3 => Just(3u32), 1 => Just(0u32), 1 => Just(9u32)];
    (nodes, edges, edits, hier, level)
        .prop_map(move |(nodes, edges, edits, hier, level)| {
            let mut g = GraphCase { nodes: Vec::new(), edges: Vec::new(), edits: Vec::new(), hier: Vec::new(), level, id_key: default_id_key() };
            for (i, (labels, props, via)) in nodes.into_iter().enumerate() {
                g.nodes.push(NodeSpec { uid: uid_base + i as i64, labels, props, via });
            }
            let n = g.nodes.len();
            for (s, d, ty, props, via) in edges {
                if n == 0 {
                    break;
                }
                g.edges.push(EdgeSpec { src: pick_idx(s, n), dst: pick_idx(d, n), ty, props, via });
            }
            let mut node_slots = n;
            let mut edge_slots = g.edges.len();
            let mut next_uid = uid_base + 100;
            for (kind, a, b, key, val, label) in edits {
                let node = pick_idx(a, node_slots.max(1));
                let edge = pick_idx(a, edge_slots.max(1));
                let ed = match kind {
                    0 | 1 => Edit::SetProp { node, key, val },
                    2 => Edit::SetCol { node, key, val },
                    3 => Edit::RemoveProp { node, key },
                    4 => Edit::AddLabel { node, label },
                    5 => Edit::RemoveLabel { node, label },
                    6 => Edit::SetEdgeProp { edge, key, val },
                    7 => Edit::DeleteEdge { edge },
                    8 => Edit::DeleteNode { node },
                    9 => {
                        node_slots += 1;
                        next_uid += 1;
                        Edit::AddNode(NodeSpec { uid: next_uid, labels: vec![label], props: vec![(key, val)], via: (b % 2) as u8 })
                    }
                    10 => {
                        if node_slots == 0 {
                            continue;
                        }
                        edge_slots += 1;
                        Edit::AddEdge(EdgeSpec { src: pick_idx(a, node_slots), dst: pick_idx(b, node_slots), ty: "R".to_string(), props: Vec::new(), via: (b % 2) as u8 })
                    }
                    11 => Edit::Compact,
                    12 => Edit::FinishBulk,
                    _ => Edit::Bump,
                };
                g.edits.push(ed);
            }
            let mut seen = BTreeSet::new();
            for h in hier {
                if seen.insert(h.name.clone()) {
                    g.hier.push(h);
                }
            }
            g
        })
        .boxed()
}

/// Wide sources: relationship (and sometimes node) id ranges that cross the 64-bit word
/// boundaries of the export's id bitmap (totals around 63-66, 127-130, 191-194, 200-260), with
/// a generated set of deletions (none / early / late / scattered / the whole first word / all but
/// the last few) so that the number of live ids is smaller than the largest one. Built through
/// the store API; most elements carry no properties, a handful carry boundary values.
fn wide_strategy() -> BoxedStrategy<GraphCase> {
    let total = prop_oneof![3 => 63usize..=66, 3 => 127usize..=130, 2 => 191usize..=194, 2 => 200usize..=260];
    let nodes_n = prop_oneof![5 => 2usize..=8, 1 => 63usize..=66, 1 => 127usize..=130, 1 => 200usize..=230];
    let edges_raw = proptest::collection::vec((any::<u16>(), any::<u16>(), 0u8..3, any::<bool>()), 260);
    let heavy_edges = proptest::collection::vec((any::<u16>(), key_strategy(false), wild_value().prop_map(PV)), 0..=5);
    let heavy_nodes = proptest::collection::vec((any::<u16>(), key_strategy(false), wild_value().prop_map(PV)), 0..=5);
    // (edge deletion pattern, count, per-id bits), (node deletion pattern, count)
    let edge_del = (prop_oneof![1 => Just(0u8), 3 => Just(1u8), 1 => Just(2u8), 3 => Just(3u8), 2 => Just(4u8), 1 => Just(5u8), 1 => Just(6u8)], 1usize..40, proptest::collection::vec(proptest::bool::weighted(0.25), 260));
    let node_del = (prop_oneof![4 => Just(0u8), 1 => Just(1u8), 1 => Just(3u8), 1 => Just(4u8)], 1usize..20, proptest::collection::vec(proptest::bool::weighted(0.2), 230));
    // 0 all row, 1 all stub, 2 mixed; tier / late-creation switches
    let shape = (0u8..3, proptest::bool::weighted(0.2), proptest::bool::weighted(0.25), proptest::bool::weighted(0.15), 0usize..6, prop_oneof![3 => Just(3u32), 1 => Just(0u32), 1 => Just(9u32)]);
    (total, nodes_n, edges_raw, heavy_edges, heavy_nodes, edge_del, node_del, shape)
        .prop_map(|(total, nodes_n, edges_raw, heavy_edges, heavy_nodes, (ep, ecount, ebits), (np, ncount, nbits), (via_mode, finish_first, late_edges, compact_last, late_n, level))| {
            let labels = ["A", "B", "C"];
            let types = ["R", "S", "T"];
            let mut g = GraphCase { nodes: Vec::new(), edges: Vec::new(), edits: Vec::new(), hier: Vec::new(), level, id_key: default_id_key() };
            for i in 0..nodes_n {
                g.nodes.push(NodeSpec { uid: 1 + i as i64, labels: vec![labels[i % 3].to_string()], props: Vec::new(), via: if via_mode == 2 { (i % 2) as u8 } else { via_mode } });
            }
            for (sel, k, v) in heavy_nodes {
                let i = pick_idx(sel, nodes_n);
                g.nodes[i].props.push((k, v));
            }
            for (s, d, ty, stub) in edges_raw.into_iter().take(total) {
                let via = match via_mode {
                    0 => VIA_ROW,
                    1 => VIA_STUB,
                    _ => {
                        if stub {
                            VIA_STUB
                        } else {
                            VIA_ROW
                        }
                    }
                };
                g.edges.push(EdgeSpec { src: pick_idx(s, nodes_n), dst: pick_idx(d, nodes_n), ty: types[ty as usize].to_string(), props: Vec::new(), via });
            }
            for (sel, k, v) in heavy_edges {
                let i = pick_idx(sel, total);
                g.edges[i].props.push((k, v));
            }
            if finish_first {
                g.edits.push(Edit::FinishBulk);
            }
            let pattern = |p: u8, count: usize, bits: &[bool], n: usize| -> Vec<usize> {
                match p {
                    0 => Vec::new(),
                    1 => (0..count.min(n.saturating_sub(1))).collect(),                       // early
                    2 => (n.saturating_sub(count)..n).collect(),                              // late
                    3 => (0..n).filter(|i| bits.get(*i).copied().unwrap_or(false)).collect(), // scattered
                    4 => (0..63.min(n.saturating_sub(1))).collect(),                          // the whole first word
                    5 => (0..n).filter(|i| *i < count || bits.get(*i).copied().unwrap_or(false)).collect(),
                    _ => (0..n.saturating_sub(3)).collect(),                                  // all but the last few
                }
            };
            for i in pattern(ep, ecount, &ebits, total) {
                g.edits.push(Edit::DeleteEdge { edge: i });
            }
            if nodes_n >= 60 {
                for i in pattern(np, ncount, &nbits, nodes_n) {
                    g.edits.push(Edit::DeleteNode { node: i });
                }
            }
            if late_edges {
                // a few late creations take recycled ids from the free list
                for k in 0..late_n {
                    g.edits.push(Edit::AddEdge(EdgeSpec { src: (k * 7) % nodes_n, dst: (k * 3 + 1) % nodes_n, ty: "R".to_string(), props: Vec::new(), via: (k % 2) as u8 }));
                }
            }
            if compact_last {
                g.edits.push(Edit::Compact);
            }
            g
        })
        .boxed()
}

fn case_hash(case: &impl Serialize) -> u64 {
    fnv_str(&serde_json::to_string(case).unwrap())
}

// =======================================================================================
// C12

fn c12_enabled(kf: &Known) -> u16 {
    C12_QUIRKS.iter().filter(|(_, id)| kf.active(id)).fold(0u16, |a, (b, _)| a | b)
}

fn c12(args: &Args) {
    let mut ev = Evidence::new(
        args,
        "exploration",
        "random graphs (0-6 nodes, label sets incl. empty/multi, 0-8 relationships incl. parallel and self-loops, boundary property values) built through the row API, the stub API and Cypher, then edited (set/remove property, column-only set, add/remove label, delete, late create, compaction, finish_bulk_load, version bump) with 0-2 hierarchy declarations; plus a population of wide sources (relationship id ranges of about 63-66, 127-130, 191-194, 200-260 allocated ids, sometimes as many nodes, with deletions early / late / scattered / of the whole first 64-id word so that live count < largest id, a few late creations on recycled ids, mixed stub/row/frozen tiers); export at gzip level 0/3/9, import into an empty store, uid-keyed typed dump (labels, label-index visibility, values by type and bit pattern, relationship multiset, hierarchy declarations) must equal the original's. Non-trivial = graph has >= 1 relationship and >= 1 value outside plain ASCII/int; distinct = distinct generated cases.",
    );
    ev.assume("a null-valued property is compared as an absent property (openCypher has no null-valued properties)");
    ev.assume("a hierarchy declaration the store itself refuses (cyclic covering relation) is not part of the original graph");
    let kf = Known::load(args);
    let quiet = Quiet::on();

    if let Some(p) = &args.replay {
        let case: GraphCase = serde_json::from_value(load_replay(p)).expect("replay case");
        ev.case();
        let r = catch(|| c12_eval(&case, 0));
        quiet.off();
        match r {
            Ok((Verdict::Pass, _)) => println!("replay: property held"),
            Ok((Verdict::Known(_), _)) => unreachable!(),
            Ok((Verdict::Fail(m), _)) | Err(m) => {
                report_violation(&mut ev, &json!(case), &m);
            }
        }
        ev.nontrivial(&case_hash(&case));
        ev.nontrivial(&"replay");
        ev.sample(json!(case));
        finish(&ev);
    }

    // witnesses of the listed findings: strict replay; matcher on only if it still fails and
    // exactly that switch explains it
    for (bit, id) in C12_QUIRKS.iter() {
        if let Some(w) = witness_case(&kf, id) {
            let case: GraphCase = serde_json::from_value(w).expect("witness case");
            let strict_fails = !matches!(catch(|| c12_eval(&case, 0)), Ok((Verdict::Pass, _)));
            let explained = matches!(catch(|| c12_eval(&case, *bit)), Ok((Verdict::Known(b), _)) if b == *bit);
            kf.witness_result(&mut ev, id, strict_fails && explained);
        }
    }
    let enabled = c12_enabled(&kf);

    let mut failure: Option<(GraphCase, String)> = None;
    let run_one = |ev: &mut Evidence, case: &GraphCase, class: &str| -> Result<(), String> {
        ev.case();
        ev.class(class);
        match catch(|| c12_eval(case, enabled)) {
            Ok((v, info)) => {
                if info.nontrivial {
                    ev.nontrivial(&case_hash(case));
                    ev.class("nontrivial");
                    if ev.want_sample() && info.edges >= 2 && matches!(v, Verdict::Pass) {
                        ev.sample(json!(case));
                    }
                }
                if info.nodes == 0 {
                    ev.class("empty_graph");
                }
                if info.multi_version {
                    ev.class("multi_version_nodes");
                }
                if info.hier > 0 {
                    ev.class("with_hierarchy_decl");
                }
                if info.hier_refused > 0 {
                    ev.class("hierarchy_refused_by_store");
                }
                if info.cypher_used > 0 {
                    ev.class("built_via_cypher");
                }
                if info.edge_ids_cross_word {
                    ev.class("edge_ids_cross_word_boundary");
                    if info.ids_with_holes {
                        ev.class("edge_ids_cross_word_boundary_with_holes");
                    }
                }
                if info.edge_words_by_count_lt_by_max {
                    ev.class("edge_id_words_by_count_lt_words_by_max");
                }
                if info.node_ids_cross_word {
                    ev.class("node_ids_cross_word_boundary");
                }
                if info.ids_with_holes {
                    ev.class("ids_with_holes_max_gt_count");
                }
                if info.import_refused {
                    ev.refusal();
                }
                match v {
                    Verdict::Pass => {
                        ev.class("strict_pass");
                        Ok(())
                    }
                    Verdict::Known(bits) => {
                        ev.class("explained_by_known_finding");
                        for (b, id) in C12_QUIRKS.iter() {
                            if bits & b != 0 {
                                ev.kf_hit(id);
                            }
                        }
                        Ok(())
                    }
                    Verdict::Fail(m) => {
                        ev.frozen = true;
                        Err(m)
                    }
                }
            }
            Err(m) => {
                ev.frozen = true;
                Err(format!("panic: {m}"))
            }
        }
    };

    for (p, case) in corpus_cases("C12") {
        let case: GraphCase = serde_json::from_value(case).expect("corpus case");
        if let Err(m) = run_one(&mut ev, &case, "corpus") {
            failure = Some((case, format!("{m} (corpus {})", p.display())));
            break;
        }
    }

    if failure.is_none() {
        let n = args.tier.pick(20_000u32, 600_000u32);
        // two populations: wild histories (reach the defects) and clean graphs (strict passes)
        let strat = prop_oneof![3 => graph_strategy(false, true, 6, 8, 1), 1 => graph_strategy(true, true, 5, 8, 1)];
        let evc = RefCell::new(&mut ev);
        let res = search(args.seed, n, &strat, |case| {
            let mut e = evc.borrow_mut();
            run_one(&mut e, case, "generated")
        });
        drop(evc);
        if let Some((case, msg)) = res {
            failure = Some((case, msg));
        }
    }
    if failure.is_none() {
        // wide sources (id ranges crossing bitmap word boundaries, with holes)
        let n = args.tier.pick(400u32, 20_000u32);
        let strat = wide_strategy();
        let evc = RefCell::new(&mut ev);
        let res = search(args.seed ^ 0x5a5a, n, &strat, |case| {
            let mut e = evc.borrow_mut();
            run_one(&mut e, case, "generated_wide_id_ranges")
        });
        drop(evc);
        if let Some((case, msg)) = res {
            failure = Some((case, msg));
        }
    }
    quiet.off();
    if let Some((case, msg)) = failure {
        let min = c12_shrink(case, enabled);
        let msg2 = match catch(|| c12_eval(&min, enabled)) {
            Ok((Verdict::Fail(m), _)) => m,
            Err(m) => format!("panic: {m}"),
            _ => msg,
        };
        report_violation(&mut ev, &json!(min), &msg2);
    }
    finish(&ev);
}

/// structural shrink on the concrete case (after proptest's own shrinking of the raw value)
fn c12_shrink(case: GraphCase, enabled: u16) -> GraphCase {
    let q = Quiet::on();
    let fails = |c: &GraphCase| !matches!(catch(|| c12_eval(c, enabled)), Ok((Verdict::Pass, _)) | Ok((Verdict::Known(_), _)));
    let mut best = case;
    loop {
        let mut changed = false;
        for i in (0..best.edits.len()).rev() {
            let mut c = best.clone();
            c.edits.remove(i);
            if fails(&c) {
                best = c;
                changed = true;
            }
        }
        for i in (0..best.hier.len()).rev() {
            let mut c = best.clone();
            c.hier.remove(i);
            if fails(&c) {
                best = c;
                changed = true;
            }
        }
        for i in (0..best.edges.len()).rev() {
            if i >= best.edges.len() {
                continue;
            }
            // edits refer to relationships by creation index: drop those naming i, shift the later ones
            let mut c = best.clone();
            c.edges.remove(i);
            c.edits.retain(|e| !matches!(e, Edit::SetEdgeProp { edge, .. } | Edit::DeleteEdge { edge } if *edge == i));
            for e in c.edits.iter_mut() {
                if let Edit::SetEdgeProp { edge, .. } | Edit::DeleteEdge { edge } = e {
                    if *edge > i {
                        *edge -= 1;
                    }
                }
            }
            if fails(&c) {
                best = c;
                changed = true;
            }
        }
        for i in 0..best.nodes.len() {
            for j in (0..best.nodes[i].props.len()).rev() {
                let mut c = best.clone();
                c.nodes[i].props.remove(j);
                if fails(&c) {
                    best = c;
                    changed = true;
                }
            }
            if !best.nodes[i].labels.is_empty() && best.nodes[i].labels.len() > 1 {
                let mut c = best.clone();
                c.nodes[i].labels.pop();
                if fails(&c) {
                    best = c;
                    changed = true;
                }
            }
        }
        for i in 0..best.edges.len() {
            for j in (0..best.edges[i].props.len()).rev() {
                let mut c = best.clone();
                c.edges[i].props.remove(j);
                if fails(&c) {
                    best = c;
                    changed = true;
                }
            }
        }
        // drop the last node when nothing refers to it
        if let Some(last) = best.nodes.len().checked_sub(1) {
            let referenced = best.edges.iter().any(|e| e.src == last || e.dst == last)
                || best.edits.iter().any(|e| match e {
                    Edit::SetProp { node, .. } | Edit::SetCol { node, .. } | Edit::RemoveProp { node, .. } | Edit::AddLabel { node, .. } | Edit::RemoveLabel { node, .. } | Edit::DeleteNode { node } => *node >= last,
                    Edit::AddNode(_) | Edit::AddEdge(_) => true,
                    _ => false,
                });
            if !referenced {
                let mut c = best.clone();
                c.nodes.pop();
                if fails(&c) {
                    best = c;
                    changed = true;
                }
            }
        }
        if best.level != 3 {
            let mut c = best.clone();
            c.level = 3;
            if fails(&c) {
                best = c;
                changed = true;
            }
        }
        if !changed {
            break;
        }
    }
    q.off();
    best
}

// =======================================================================================
// C13

#[derive(Clone, Debug, Serialize, Deserialize, PartialEq)]
enum Fault {
    Clean,
    /// keep only the first n bytes of the .sgsnap
    Truncate(usize),
    Flip { offset: usize, mask: u8 },
    /// content faults, built before compression
    CutLine { line: usize, keep: usize },
    UnknownNode { line: usize },
    Junk { before_line: usize },
    BadVersion,
}

#[derive(Clone, Debug, Serialize, Deserialize)]
struct C13Case {
    target: GraphCase,
    snap: GraphCase,
    dedup: Vec<String>,
    /// None = enumerate every fault
    #[serde(default)]
    fault: Option<Fault>,
}

#[derive(Clone, Debug, PartialEq)]
struct MNode {
    key: String,
    labels: BTreeSet<String>,
    props: BTreeMap<String, PropertyValue>,
    preexisting: bool,
}
#[derive(Clone, Debug, PartialEq)]
struct MEdge {
    src: String,
    dst: String,
    ty: String,
    props: BTreeMap<String, PropertyValue>,
}
#[derive(Clone, Debug, Default)]
struct Model {
    nodes: Vec<MNode>,
    edges: Vec<MEdge>,
}

impl Model {
    fn from_dump(d: &XDump) -> Model {
        Model {
            nodes: d.nodes.iter().map(|n| MNode { key: n.uid.clone(), labels: n.labels.clone(), props: n.props.clone(), preexisting: true }).collect(),
            edges: d.edges.iter().map(|e| MEdge { src: e.src.clone(), dst: e.dst.clone(), ty: e.ty.clone(), props: e.props.clone() }).collect(),
        }
    }
    fn lines(&self) -> Vec<String> {
        let mut out = Vec::new();
        for n in &self.nodes {
            out.push(format!("N {} labels={:?} {{{}}}", n.key, n.labels, render_props(&n.props, 0)));
        }
        for e in &self.edges {
            out.push(format!("E {} -[{:?}]-> {} {{{}}}", e.src, e.ty, e.dst, render_props(&e.props, 0)));
        }
        out.sort();
        out
    }
}

/// ADR-022 value decoding (typed tags), independent of the code under test
fn model_json_to_pv(v: &Value) -> PropertyValue {
    match v {
        Value::String(s) => PropertyValue::String(s.clone()),
        Value::Number(n) => {
            if let Some(i) = n.as_i64() {
                PropertyValue::Integer(i)
            } else {
                PropertyValue::Float(n.as_f64().unwrap_or(f64::NAN))
            }
        }
        Value::Bool(b) => PropertyValue::Boolean(*b),
        Value::Null => PropertyValue::Null,
        Value::Array(a) => PropertyValue::Array(a.iter().map(model_json_to_pv).collect()),
        Value::Object(o) => {
            match o.get("__type").and_then(|t| t.as_str()) {
                // a tagged object lacking its payload is not a tagged object: plain map
                Some("DateTime") => {
                    if let Some(i) = o.get("value").and_then(|x| x.as_i64()) {
                        return PropertyValue::DateTime(i);
                    }
                }
                Some("Vector") => {
                    if let Some(a) = o.get("value").and_then(|x| x.as_array()) {
                        return PropertyValue::Vector(a.iter().filter_map(|x| x.as_f64().map(|f| f as f32)).collect());
                    }
                }
                Some("Duration") => {
                    let g = |k: &str| o.get(k).and_then(|x| x.as_i64()).unwrap_or(0);
                    return PropertyValue::Duration { months: g("months"), days: g("days"), seconds: g("seconds"), nanos: g("nanos") as i32 };
                }
                _ => {}
            }
            PropertyValue::Map(o.iter().map(|(k, x)| (k.clone(), model_json_to_pv(x))).collect())
        }
    }
}

struct ModelOutcome {
    ok: bool,
    why: String,
    after_ok: Model,
    /// store after a failed import if rollback undoes created nodes (and their relationships)
    /// but not what was merged into pre-existing nodes (KF-C13-1)
    after_failed_merges_kept: Model,
    lines_applied: usize,
    merges: usize,
    /// pre-existing node key -> property key -> values some merged record offered
    offers: BTreeMap<String, BTreeMap<String, BTreeSet<String>>>,
}

fn dedup_norm(v: &PropertyValue) -> Option<String> {
    match v {
        PropertyValue::String(s) => Some(s.trim().to_lowercase()),
        PropertyValue::Integer(i) => Some(i.to_string()),
        _ => None,
    }
}

/// Reference importer over JSON-lines: what "the snapshot's nodes and relationships, merged
/// into existing nodes on the dedup keys" means for the generated domain.
fn model_import(before: &Model, lines: &[String], reader_err: Option<String>, dedup: &[String], lenient: bool) -> ModelOutcome {
    let mut out = ModelOutcome { ok: false, why: String::new(), after_ok: before.clone(), after_failed_merges_kept: before.clone(), lines_applied: 0, merges: 0, offers: BTreeMap::new() };
    let fail = |mut o: ModelOutcome, why: String| -> ModelOutcome {
        o.ok = false;
        o.why = why;
        o
    };
    if lines.is_empty() {
        return fail(out, reader_err.unwrap_or_else(|| "empty snapshot".to_string()));
    }
    let header: Value = match serde_json::from_str(&lines[0]) {
        Ok(v) => v,
        Err(e) => return fail(out, format!("header is not JSON: {e}")),
    };
    if header["format"] != json!("sgsnap") || !(header["version"] == json!(1) || header["version"] == json!(2)) {
        return fail(out, "header format/version".to_string());
    }
    for f in ["tenant", "node_count", "edge_count", "labels", "edge_types", "created_at", "samyama_version"] {
        if header.get(f).is_none() {
            return fail(out, format!("header lacks {f}"));
        }
    }
    let header_labels: BTreeSet<String> = header["labels"].as_array().map(|a| a.iter().filter_map(|x| x.as_str().map(|s| s.to_string())).collect()).unwrap_or_default();
    // (label, key, normalised value) -> index into after_ok.nodes
    let mut index: BTreeMap<(String, String, String), usize> = BTreeMap::new();
    if !dedup.is_empty() {
        for (i, n) in out.after_ok.nodes.iter().enumerate() {
            for l in n.labels.iter().filter(|l| header_labels.contains(*l)) {
                for k in dedup {
                    if let Some(v) = n.props.get(k).and_then(dedup_norm) {
                        index.insert((l.clone(), k.clone(), v), i);
                    }
                }
            }
        }
    }
    let mut remap: BTreeMap<u64, usize> = BTreeMap::new();
    for line in &lines[1..] {
        if line.is_empty() {
            continue;
        }
        let v: Value = match serde_json::from_str(line) {
            Ok(v) => v,
            Err(_) if lenient => continue,
            Err(e) => return fail(out, format!("record is not JSON: {e}")),
        };
        match v.get("t").and_then(|t| t.as_str()) {
            Some("n") => {
                let (id, labels, props) = match (v["id"].as_u64(), v["labels"].as_array(), v["props"].as_object()) {
                    (Some(i), Some(l), Some(p)) => (i, l, p),
                    _ if lenient => continue,
                    _ => return fail(out, "malformed node record".to_string()),
                };
                let labels: Vec<String> = labels.iter().filter_map(|x| x.as_str().map(|s| s.to_string())).collect();
                let props: BTreeMap<String, PropertyValue> = props.iter().map(|(k, x)| (k.clone(), model_json_to_pv(x))).collect();
                let mut found: Option<usize> = None;
                'k: for k in dedup {
                    if let Some(val) = props.get(k).and_then(dedup_norm) {
                        for l in &labels {
                            if let Some(&i) = index.get(&(l.clone(), k.clone(), val.clone())) {
                                found = Some(i);
                                break 'k;
                            }
                        }
                    }
                }
                match found {
                    Some(i) => {
                        out.merges += 1;
                        let pre = out.after_ok.nodes[i].preexisting;
                        let key = out.after_ok.nodes[i].key.clone();
                        let apply = |n: &mut MNode| {
                            for (k, val) in &props {
                                if val.is_null() {
                                    continue;
                                }
                                let absent = n.props.get(k).map(|x| x.is_null()).unwrap_or(true);
                                if absent {
                                    n.props.insert(k.clone(), val.clone());
                                }
                            }
                            for l in &labels {
                                n.labels.insert(l.clone());
                            }
                        };
                        apply(&mut out.after_ok.nodes[i]);
                        if pre {
                            for (k, val) in &props {
                                out.offers.entry(key.clone()).or_default().entry(k.clone()).or_default().insert(canon(val));
                            }
                            if let Some(n) = out.after_failed_merges_kept.nodes.iter_mut().find(|n| n.key == key) {
                                apply(n);
                            }
                        }
                        remap.insert(id, i);
                    }
                    None => {
                        let pm: BTreeMap<String, PropertyValue> = props.clone();
                        let key = uid_key(&pm);
                        let i = out.after_ok.nodes.len();
                        out.after_ok.nodes.push(MNode { key, labels: labels.iter().cloned().collect(), props: pm, preexisting: false });
                        for k in dedup {
                            if let Some(val) = props.get(k).and_then(dedup_norm) {
                                for l in &labels {
                                    index.insert((l.clone(), k.clone(), val.clone()), i);
                                }
                            }
                        }
                        remap.insert(id, i);
                    }
                }
                out.lines_applied += 1;
            }
            Some("e") => {
                let (src, tgt, ty, props) = match (v["src"].as_u64(), v["tgt"].as_u64(), v["type"].as_str(), v["props"].as_object()) {
                    (Some(a), Some(b), Some(t), Some(p)) => (a, b, t, p),
                    _ if lenient => continue,
                    _ => return fail(out, "malformed relationship record".to_string()),
                };
                let (si, ti) = match (remap.get(&src), remap.get(&tgt)) {
                    (Some(a), Some(b)) => (*a, *b),
                    _ if lenient => continue,
                    _ => return fail(out, "relationship names a node the snapshot does not contain".to_string()),
                };
                let e = MEdge {
                    src: out.after_ok.nodes[si].key.clone(),
                    dst: out.after_ok.nodes[ti].key.clone(),
                    ty: ty.to_string(),
                    props: props.iter().map(|(k, x)| (k.clone(), model_json_to_pv(x))).collect(),
                };
                if out.after_ok.nodes[si].preexisting && out.after_ok.nodes[ti].preexisting {
                    out.after_failed_merges_kept.edges.push(e.clone());
                }
                out.after_ok.edges.push(e);
                out.lines_applied += 1;
            }
            _ => {} // unknown record types are skipped (forward compatibility, format.rs)
        }
    }
    if let Some(e) = reader_err {
        return fail(out, format!("stream error after the last complete line: {e}"));
    }
    out.ok = true;
    out
}

/// KF-C13-1 structural predicate: `got` differs from `before` only by properties / labels
/// merged into pre-existing nodes and relationships between pre-existing nodes, each of which
/// the snapshot's records would merge (`max` = all of them applied); no node left over,
/// nothing removed, no value changed.
fn merge_residue_only(before: &Model, got: &Model, max: &Model, offers: &BTreeMap<String, BTreeMap<String, BTreeSet<String>>>) -> bool {
    if got.nodes.len() != before.nodes.len() {
        return false;
    }
    for b in &before.nodes {
        let (g, m) = match (got.nodes.iter().find(|n| n.key == b.key), max.nodes.iter().find(|n| n.key == b.key)) {
            (Some(g), Some(m)) => (g, m),
            _ => return false,
        };
        if !(b.labels.is_subset(&g.labels) && g.labels.is_subset(&m.labels)) {
            return false;
        }
        let live = |p: &BTreeMap<String, PropertyValue>| -> BTreeMap<String, String> { p.iter().filter(|(_, v)| !v.is_null()).map(|(k, v)| (k.clone(), canon(v))).collect() };
        let (bp, gp, mp) = (live(&b.props), live(&g.props), live(&m.props));
        // nothing the node had before changed; everything new is a value some merged record carried
        // (when two records offer different values for one key, which one wins is not asserted)
        // (a byte flip inside a stored block also corrupts values; how a damaged value is read is
        // not part of this root cause, so only the key has to be one a merged record offered)
        let offered = |k: &String| offers.get(&b.key).map(|o| o.contains_key(k)).unwrap_or(false);
        // a key the node had before is still there; its value is the old one unless a merged record
        // offered that key too (which side wins such a conflict is not asserted: the generator never
        // produces one, they only arise from byte flips in stored blocks)
        if !bp.iter().all(|(k, v)| gp.get(k) == Some(v) || (gp.contains_key(k) && offered(k))) || !gp.iter().all(|(k, v)| bp.get(k) == Some(v) || (mp.contains_key(k) && offered(k))) {
            return false;
        }
    }
    let bag = |m: &Model| -> BTreeMap<String, i64> {
        let mut out = BTreeMap::new();
        for e in &m.edges {
            *out.entry(format!("{} -[{:?}]-> {} {{{}}}", e.src, e.ty, e.dst, render_props(&e.props, 0))).or_insert(0) += 1;
        }
        out
    };
    let (be, ge, me) = (bag(before), bag(got), bag(max));
    be.iter().all(|(k, c)| ge.get(k).copied().unwrap_or(0) >= *c) && ge.iter().all(|(k, c)| me.get(k).copied().unwrap_or(0) >= *c)
}

/// the importer's own reader stack: complete lines delivered before the first read error
fn read_lines(bytes: &[u8]) -> (Vec<String>, Option<String>) {
    use std::io::BufRead;
    let rd = std::io::BufReader::new(flate2::read::GzDecoder::new(bytes));
    let mut out = Vec::new();
    for l in rd.lines() {
        match l {
            Ok(s) => out.push(s),
            Err(e) => return (out, Some(e.to_string())),
        }
    }
    (out, None)
}

fn apply_fault(bytes: &[u8], lines: &[String], level: u32, f: &Fault) -> Vec<u8> {
    let regz = |ls: Vec<String>| -> Vec<u8> {
        let mut t = ls.join("\n");
        t.push('\n');
        gzip(t.as_bytes(), level)
    };
    match f {
        Fault::Clean => bytes.to_vec(),
        Fault::Truncate(n) => bytes[..(*n).min(bytes.len())].to_vec(),
        Fault::Flip { offset, mask } => {
            let mut b = bytes.to_vec();
            if *offset < b.len() {
                b[*offset] ^= *mask;
            }
            b
        }
        Fault::CutLine { line, keep } => {
            let mut ls = lines.to_vec();
            if let Some(l) = ls.get_mut(*line) {
                let mut k = (*keep).min(l.len());
                while !l.is_char_boundary(k) {
                    k -= 1;
                }
                l.truncate(k);
            }
            regz(ls)
        }
        Fault::UnknownNode { line } => {
            let mut ls = lines.to_vec();
            if let Some(l) = ls.get_mut(*line) {
                if let Some(p) = l.find("\"src\":") {
                    let rest = &l[p + 6..];
                    let end = rest.find(',').unwrap_or(0);
                    *l = format!("{}\"src\":999999{}", &l[..p], &rest[end..]);
                }
            }
            regz(ls)
        }
        Fault::Junk { before_line } => {
            let mut ls = lines.to_vec();
            let at = (*before_line).min(ls.len());
            ls.insert(at, "{\"x\":1,\"note\":\"record type from a later format version\"}".to_string());
            regz(ls)
        }
        Fault::BadVersion => {
            let mut ls = lines.to_vec();
            if let Some(l) = ls.get_mut(0) {
                *l = l.replacen("\"version\":2", "\"version\":9", 1);
            }
            regz(ls)
        }
    }
}

fn enumerate_faults(bytes: &[u8], lines: &[String], tier: Tier) -> Vec<Fault> {
    let mut fs = vec![Fault::Clean, Fault::BadVersion];
    for o in 0..bytes.len() {
        fs.push(Fault::Truncate(o));
    }
    let masks = [0x01u8, 0x80, 0xff];
    match tier {
        Tier::Quick => {
            for o in (0..bytes.len()).step_by(5) {
                fs.push(Fault::Flip { offset: o, mask: masks[(o / 5) % 3] });
            }
        }
        Tier::Thorough => {
            for o in 0..bytes.len() {
                for m in masks {
                    fs.push(Fault::Flip { offset: o, mask: m });
                }
            }
        }
    }
    for (i, l) in lines.iter().enumerate().skip(1) {
        fs.push(Fault::CutLine { line: i, keep: (l.len() / 2).max(12) });
        fs.push(Fault::CutLine { line: i, keep: l.len().saturating_sub(1).max(12) });
        fs.push(Fault::Junk { before_line: i });
        if l.starts_with("{\"t\":\"e\"") {
            fs.push(Fault::UnknownNode { line: i });
        }
    }
    fs
}

fn fault_class(f: &Fault) -> &'static str {
    match f {
        Fault::Clean => "fault_none",
        Fault::Truncate(_) => "fault_truncate",
        Fault::Flip { .. } => "fault_byte_flip",
        Fault::CutLine { .. } => "fault_cut_line",
        Fault::UnknownNode { .. } => "fault_unknown_node",
        Fault::Junk { .. } => "fault_unknown_record_type",
        Fault::BadVersion => "fault_bad_header",
    }
}

/// id-preserving view of a store (strict before/after comparison)
fn id_lines(store: &GraphStore) -> Vec<String> {
    let d = vcheck::dump::dump_with_ids(store);
    let mut out: Vec<String> = d.render().lines().map(|l| l.to_string()).collect();
    // label index membership of every live node, and the counters
    for id in vcheck::dump::live_node_ids(store) {
        let n = store.get_node(id).unwrap();
        let mut idx: Vec<String> = n.labels.iter().filter(|l| store.nodes_with_label(l).map(|s| s.contains(&id)).unwrap_or(false)).map(|l| l.as_str().to_string()).collect();
        idx.sort();
        out.push(format!("IDX n{} {:?}", id.as_u64(), idx));
    }
    let mut all_labels: Vec<String> = store.all_labels().iter().map(|l| l.as_str().to_string()).filter(|l| store.nodes_with_label(&Label::new(l.as_str())).map(|s| !s.is_empty()).unwrap_or(false)).collect();
    all_labels.sort();
    out.push(format!("LABELS {:?}", all_labels));
    out.push(format!("COUNTS nodes={} edges={}", store.node_count(), store.edge_count()));
    for info in store.hierarchy_index.list() {
        out.push(format!("HIER {}", info.name));
    }
    out
}

struct C13Prepared {
    bytes: Vec<u8>,
    lines: Vec<String>,
    dedup: Vec<String>,
}

fn c13_prepare(case: &C13Case) -> Result<C13Prepared, String> {
    let src = build_store(&case.snap);
    let mut bytes = Vec::new();
    samyama::snapshot::export_tenant_with_compression(&src.store, &mut bytes, case.snap.level).map_err(|e| format!("export failed: {e}"))?;
    let (bytes, lines) = normalise_snapshot(&bytes, case.snap.level)?;
    Ok(C13Prepared { bytes, lines, dedup: case.dedup.clone() })
}

struct C13Info {
    real_ok: bool,
    model_ok: bool,
    lines_applied: usize,
    merges: usize,
    nontrivial: bool,
}

/// one import of one faulted snapshot into a freshly built target store
fn c13_one(case: &C13Case, prep: &C13Prepared, fault: &Fault, kf_merge: bool) -> (Verdict, C13Info) {
    let data = apply_fault(&prep.bytes, &prep.lines, case.snap.level, fault);
    let mut target = build_store(&case.target).store;
    let before_ids = id_lines(&target);
    let before = Model::from_dump(&xdump(&target));
    let (lines, rerr) = read_lines(&data);
    let m = model_import(&before, &lines, rerr.clone(), &prep.dedup, false);
    if std::env::var("VC_SNAP_DEBUG").is_ok() {
        println!("DEBUG fault {:?}\n  lines read: {:#?}\n  reader error: {:?}\n  model ok={} why={} applied={} merges={}", fault, lines, rerr, m.ok, m.why, m.lines_applied, m.merges);
    }
    let keys: Vec<&str> = prep.dedup.iter().map(|s| s.as_str()).collect();
    let res = samyama::snapshot::import_tenant_with_dedup(&mut target, std::io::Cursor::new(&data), &keys).map(|_| ()).map_err(|e| e.to_string());
    let mut info = C13Info { real_ok: res.is_ok(), model_ok: m.ok, lines_applied: m.lines_applied, merges: m.merges, nontrivial: false };
    match res {
        Ok(()) => {
            if !m.ok {
                return (Verdict::Fail(format!("import of a corrupt snapshot reported success (reference importer: {}); fault {:?}", m.why, fault)), info);
            }
            info.nontrivial = m.merges > 0;
            let got = Model::from_dump(&xdump(&target)).lines();
            let want = m.after_ok.lines();
            if got == want {
                (Verdict::Pass, info)
            } else {
                (Verdict::Fail(format!("successful import (dedup {:?}, fault {:?}) did not produce before + snapshot with merges:\n{}", prep.dedup, fault, diff_lines(&want, &got).replace("original only", "expected only").replace("imported only", "store only"))), info)
            }
        }
        Err(msg) => {
            info.nontrivial = m.lines_applied > 0;
            let after_ids = id_lines(&target);
            if after_ids == before_ids {
                return (Verdict::Pass, info);
            }
            let got = Model::from_dump(&xdump(&target)).lines();
            if kf_merge {
                let got_m = Model::from_dump(&xdump(&target));
                if got == m.after_failed_merges_kept.lines() && got != before.lines() {
                    return (Verdict::Known(1), info);
                }
                // the failure point inside the code can lie later than the reference's (records the
                // code skips instead of rejecting): accept exactly "merge residue, nothing else"
                let lenient = model_import(&before, &lines, None, &prep.dedup, true);
                if got != before.lines() && merge_residue_only(&before, &got_m, &lenient.after_failed_merges_kept, &lenient.offers) {
                    return (Verdict::Known(2), info);
                }
            }
            (
                Verdict::Fail(format!(
                    "import failed ({msg}; dedup {:?}, fault {:?}, {} record(s) applied before the failure) but the store changed:\n{}",
                    prep.dedup,
                    fault,
                    m.lines_applied,
                    diff_lines(&before_ids, &after_ids).replace("original only", "before only").replace("imported only", "after only")
                )),
                info,
            )
        }
    }
}

/// Nodes (and relationships) that are created and deleted again before the graph is used, so
/// that the store has id holes below and between the surviving nodes and a populated free list:
/// the next creations (an import into this store) receive recycled, low ids.
#[derive(Clone, Debug)]
struct Ballast {
    /// (position selector in the creation order, labels, via)
    victims: Vec<(u16, Vec<String>, u8)>,
    /// extra relationships over all nodes (victims and survivors): (src sel, dst sel, type, via)
    edges: Vec<(u16, u16, String, u8)>,
    /// deletion order keys (the free list is LIFO, so this decides which hole is reused first)
    order: Vec<u16>,
    /// also delete one relationship between survivors (relationship id hole)
    drop_edge: Option<u16>,
}

fn ballast_strategy() -> BoxedStrategy<Ballast> {
    let labels = proptest::sample::subsequence(vec!["A", "B", "C"], 1..=2).prop_map(|v| v.into_iter().map(|s| s.to_string()).collect::<Vec<String>>());
    let ty = proptest::sample::select(vec!["R", "S", "T"]).prop_map(|s| s.to_string());
    (
        proptest::collection::vec((any::<u16>(), labels, 0u8..3), 1..=4),
        proptest::collection::vec((any::<u16>(), any::<u16>(), ty, 0u8..2), 0..=4),
        proptest::collection::vec(any::<u16>(), 4),
        proptest::option::weighted(0.3, any::<u16>()),
    )
        .prop_map(|(victims, edges, order, drop_edge)| Ballast { victims, edges, order, drop_edge })
        .boxed()
}

/// Interleave the victims into the creation order of `g`, connect them, then delete them again
/// through edits. `uid_base`: identity values of the victims (disjoint from everything else).
fn add_ballast(g: &mut GraphCase, b: &Ballast, uid_base: i64) {
    let survivors = std::mem::take(&mut g.nodes);
    let mut slots: Vec<(Option<usize>, NodeSpec)> = survivors.into_iter().enumerate().map(|(i, n)| (Some(i), n)).collect();
    for (j, (pos, labels, via)) in b.victims.iter().enumerate() {
        let at = pick_idx(*pos, slots.len() + 1);
        let props = vec![("name".to_string(), PV(PropertyValue::String(format!("v{j}")))), ("code".to_string(), PV(PropertyValue::Integer(900 + j as i64)))];
        slots.insert(at, (None, NodeSpec { uid: uid_base + j as i64, labels: labels.clone(), props, via: *via }));
    }
    let mut new_index: BTreeMap<usize, usize> = BTreeMap::new();
    for (pos, (old, _)) in slots.iter().enumerate() {
        if let Some(o) = old {
            new_index.insert(*o, pos);
        }
    }
    for e in g.edges.iter_mut() {
        e.src = new_index[&e.src];
        e.dst = new_index[&e.dst];
    }
    let survivor_edges = g.edges.len();
    let total = slots.len();
    for (a, c, ty, via) in &b.edges {
        g.edges.push(EdgeSpec { src: pick_idx(*a, total), dst: pick_idx(*c, total), ty: ty.clone(), props: Vec::new(), via: *via });
    }
    if let (Some(sel), true) = (b.drop_edge, survivor_edges > 0) {
        g.edits.push(Edit::DeleteEdge { edge: pick_idx(sel, survivor_edges) });
    }
    let mut victims: Vec<(u16, usize)> = slots.iter().enumerate().filter(|(_, (o, _))| o.is_none()).enumerate().map(|(j, (pos, _))| (b.order.get(j).copied().unwrap_or(0), pos)).collect();
    victims.sort();
    for (_, pos) in victims {
        g.edits.push(Edit::DeleteNode { node: pos });
    }
    g.nodes = slots.into_iter().map(|(_, n)| n).collect();
}

/// Target + snapshot generator. Twins: snapshot nodes that share all labels, `name` and `code`
/// with one target node; every other node has its own name/code. Non-key properties never conflict.
fn c13_strategy() -> BoxedStrategy<C13Case> {
    let target = graph_strategy(true, false, 4, 4, 1000);
    let snap = graph_strategy(true, false, 5, 6, 1);
    let twins = proptest::collection::vec(proptest::option::weighted(0.5, any::<u16>()), 5);
    let dedup = prop_oneof![
        4 => Just(vec![]),
        3 => Just(vec!["name".to_string()]),
        2 => Just(vec!["code".to_string()]),
        2 => Just(vec!["name".to_string(), "code".to_string()]),
        1 => Just(vec!["code".to_string(), "name".to_string()]),
        1 => Just(vec!["nokey".to_string()]),
    ];
    let extra_label = proptest::collection::vec(proptest::option::weighted(0.3, proptest::sample::select(vec!["C", "D"])), 5);
    // create-and-delete histories: most target stores have id holes (imported nodes then get
    // recycled ids below / between pre-existing ones); some snapshot sources too (sparse exported ids)
    let target_ballast = proptest::option::weighted(0.65, ballast_strategy());
    let snap_ballast = proptest::option::weighted(0.25, ballast_strategy());
    (target, snap, twins, dedup, extra_label, target_ballast, snap_ballast)
        .prop_map(|(mut target, mut snap, twins, dedup, extra, target_ballast, snap_ballast)| {
            snap.id_key = "sid".to_string();
            for (i, n) in target.nodes.iter_mut().enumerate() {
                n.props.retain(|(k, _)| k != "name" && k != "code" && k != "sid");
                n.props.push(("name".to_string(), PV(PropertyValue::String(format!("t{i}")))));
                n.props.push(("code".to_string(), PV(PropertyValue::Integer(500 + i as i64))));
            }
            let mut taken: BTreeSet<usize> = BTreeSet::new();
            for (j, n) in snap.nodes.iter_mut().enumerate() {
                n.props.retain(|(k, _)| k != "name" && k != "code" && k != "uid");
                let twin = twins.get(j).copied().flatten().and_then(|sel| if target.nodes.is_empty() { None } else { Some(pick_idx(sel, target.nodes.len())) }).filter(|t| !taken.contains(t));
                match twin {
                    Some(t) => {
                        taken.insert(t);
                        let tn = &target.nodes[t];
                        let tkeys: BTreeSet<&String> = tn.props.iter().map(|(k, _)| k).collect();
                        n.props.retain(|(k, _)| !tkeys.contains(k));
                        n.labels = tn.labels.clone();
                        if let Some(Some(l)) = extra.get(j) {
                            if !n.labels.iter().any(|x| x == l) {
                                n.labels.push(l.to_string());
                            }
                        }
                        n.props.push(("name".to_string(), PV(PropertyValue::String(format!("t{t}")))));
                        n.props.push(("code".to_string(), PV(PropertyValue::Integer(500 + t as i64))));
                    }
                    None => {
                        n.props.push(("name".to_string(), PV(PropertyValue::String(format!("s{j}")))));
                        n.props.push(("code".to_string(), PV(PropertyValue::Integer(100 + j as i64))));
                    }
                }
            }
            if let Some(b) = &target_ballast {
                add_ballast(&mut target, b, 2000);
            }
            if let Some(b) = &snap_ballast {
                add_ballast(&mut snap, b, 3000);
            }
            C13Case { target, snap, dedup, fault: None }
        })
        .boxed()
}

fn c13(args: &Args) {
    let mut ev = Evidence::new(
        args,
        "fault_enumeration",
        "target store (0-4 surviving nodes with name/code keys; in ~65% of the cases 1-4 further nodes and up to 4 relationships were created in between and deleted again, so imported nodes get recycled ids below and between the pre-existing ones) x exported snapshot (1-5 nodes, 0-6 relationships, values that round-trip exactly; some nodes are twins of target nodes on label+name+code) x dedup keys {none, name, code, both orders, a key nobody has} x fault: none, every truncation offset of the .sgsnap, sampled single-byte flips, and content faults built before compression (record cut in half / by one byte, relationship naming an unknown node, record of an unknown type, bad header version). Err => id-preserving dump, label-index membership and counters before == after; Ok => store == before + snapshot with dedup merges per a reference JSON-lines importer. Non-trivial = import failed after at least one record had been applied, or succeeded with >= 1 merge; distinct = distinct (case, fault) pairs.",
    );
    ev.assume("dedup domain kept unambiguous: twins share every label of the target node and both keys; key values are lower-case, unpadded and unique within the target and within the snapshot; non-key properties of twins never conflict");
    ev.assume("a record of an unknown type (valid JSON without a known \"t\") is skipped by design (format.rs: additive line types); a record cut so that it is no longer JSON, a relationship naming an unknown node, and an unsupported header version must fail the import");
    ev.set(
        "fault_enumeration",
        json!({
            "truncation": "every byte offset of every generated snapshot",
            "byte_flips": args.tier.pick("every 5th offset, masks 0x01/0x80/0xff in rotation", "every offset x masks 0x01, 0x80, 0xff"),
            "content_faults": "per record: cut at half length, cut by one byte, unknown record type inserted before it; per relationship record: unknown source node; header version 9",
        }),
    );
    let kf = Known::load(args);
    let quiet = Quiet::on();

    // run every fault (or the one recorded in the case); first failing fault is returned
    let run_case = |ev: &mut Evidence, case: &C13Case, kf_merge: bool, class: &str| -> Result<(), (Fault, String)> {
        let prep = match catch(|| c13_prepare(case)) {
            Ok(Ok(p)) => p,
            Ok(Err(m)) | Err(m) => {
                ev.frozen = true;
                return Err((Fault::Clean, format!("could not prepare the snapshot: {m}")));
            }
        };
        let faults = match &case.fault {
            Some(f) => vec![f.clone()],
            None => enumerate_faults(&prep.bytes, &prep.lines, ev.tier),
        };
        ev.class(class);
        {
            // shape of the target store's id space (one build, outside the per-fault loop)
            let t = build_store(&case.target).store;
            let live: BTreeSet<u64> = vcheck::dump::live_node_ids(&t).iter().map(|i| i.as_u64()).collect();
            let deleted = case.target.edits.iter().any(|e| matches!(e, Edit::DeleteNode { .. }));
            if deleted {
                ev.class("target_has_id_holes");
                let max = live.iter().max().copied().unwrap_or(0);
                if (1..max).any(|i| !live.contains(&i)) {
                    ev.class("target_hole_below_a_survivor");
                    if !t.all_edges().is_empty() {
                        ev.class("target_hole_below_a_survivor_with_relationships");
                    }
                    ev.class(if case.dedup.is_empty() { "target_holes_import_without_dedup" } else { "target_holes_import_with_dedup" });
                }
            }
            if case.snap.edits.iter().any(|e| matches!(e, Edit::DeleteNode { .. })) {
                ev.class("snapshot_source_has_id_holes");
            }
        }
        let ch = case_hash(case);
        for f in faults {
            ev.case();
            ev.class(fault_class(&f));
            match catch(|| c13_one(case, &prep, &f, kf_merge)) {
                Ok((v, info)) => {
                    if info.nontrivial {
                        ev.nontrivial(&(ch, serde_json::to_string(&f).unwrap()));
                        ev.class(if info.real_ok { "ok_with_merge" } else { "err_after_records_applied" });
                    } else if !info.real_ok {
                        ev.class("err_before_any_record");
                    }
                    if info.real_ok && info.merges == 0 {
                        ev.class("ok_without_merge");
                    }
                    if !info.real_ok && info.model_ok {
                        ev.refusal();
                        ev.class("refused_although_reference_accepts");
                    }
                    let _ = info.lines_applied;
                    match v {
                        Verdict::Pass => {}
                        Verdict::Known(how) => {
                            ev.kf_hit("KF-C13-1");
                            ev.class(if how == 1 { "kf_exact_prefix_model" } else { "kf_merge_residue_predicate" });
                        }
                        Verdict::Fail(m) => {
                            ev.frozen = true;
                            return Err((f, m));
                        }
                    }
                }
                Err(m) => {
                    ev.frozen = true;
                    return Err((f, format!("panic: {m}")));
                }
            }
        }
        Ok(())
    };

    if let Some(p) = &args.replay {
        let case: C13Case = serde_json::from_value(load_replay(p)).expect("replay case");
        let r = run_case(&mut ev, &case, false, "replay");
        quiet.off();
        match r {
            Ok(()) => println!("replay: property held"),
            Err((f, m)) => {
                let mut c = case.clone();
                c.fault = Some(f);
                report_violation(&mut ev, &json!(c), &m);
            }
        }
        ev.nontrivial(&case_hash(&case));
        ev.nontrivial(&"replay");
        ev.sample(json!(case));
        finish(&ev);
    }

    if let Some(w) = witness_case(&kf, "KF-C13-1") {
        let case: C13Case = serde_json::from_value(w).expect("witness case");
        let mut scratch = Evidence::new(args, "fault_enumeration", "");
        let strict_fails = run_case(&mut scratch, &case, false, "w").is_err();
        let mut scratch2 = Evidence::new(args, "fault_enumeration", "");
        let explained = run_case(&mut scratch2, &case, true, "w").is_ok() && scratch2.kf_hits.get("KF-C13-1").copied().unwrap_or(0) > 0;
        kf.witness_result(&mut ev, "KF-C13-1", strict_fails && explained);
    }
    let kf_merge = kf.active("KF-C13-1");

    let mut failure: Option<(C13Case, Fault, String)> = None;
    for (p, case) in corpus_cases("C13") {
        let case: C13Case = serde_json::from_value(case).expect("corpus case");
        if let Err((f, m)) = run_case(&mut ev, &case, kf_merge, "corpus") {
            failure = Some((case, f, format!("{m} (corpus {})", p.display())));
            break;
        }
    }
    if failure.is_none() {
        let n = args.tier.pick(300u32, 3000u32);
        let strat = c13_strategy();
        let evc = RefCell::new(&mut ev);
        let res = search(args.seed, n, &strat, |case| {
            let mut e = evc.borrow_mut();
            if e.want_sample() && !case.dedup.is_empty() && case.snap.edges.len() >= 2 {
                e.sample(json!(case));
            }
            run_case(&mut e, case, kf_merge, "generated_snapshots").map_err(|(_, m)| m)
        });
        drop(evc);
        if let Some((case, msg)) = res {
            // recover the first failing fault of the shrunk case
            let mut scratch = Evidence::new(args, "fault_enumeration", "");
            let f = match run_case(&mut scratch, &case, kf_merge, "x") {
                Err((f, _)) => f,
                Ok(()) => Fault::Clean,
            };
            failure = Some((case, f, msg));
        }
    }
    quiet.off();
    if let Some((mut case, f, msg)) = failure {
        case.fault = Some(f);
        report_violation(&mut ev, &json!(case), &msg);
    }
    finish(&ev);
}

// =======================================================================================
// C14

use std::sync::{Arc, Mutex};

const MARKER_NAME: &str = "default.sgsnap.committed";

#[derive(Clone, Debug, PartialEq, Eq, Hash, PartialOrd, Ord)]
struct FileSt {
    ino: u64,
    content: Vec<u8>,
}
type DirState = BTreeMap<String, FileSt>;

#[derive(Clone, Debug)]
enum TraceEv {
    /// a hook point of persist_snapshot was reached; directory contents at that moment
    Hook(String, DirState),
    /// fsync()/fdatasync() on a file in the snapshot directory: (inode, content made durable)
    Fsync(u64, Vec<u8>),
}

struct TraceCtx {
    dir: std::path::PathBuf,
    events: Vec<TraceEv>,
    hook_hits: usize,
    /// panic when this many hook points have been passed (1-based); None = never
    crash_at: Option<usize>,
}

static TRACE: Mutex<Option<TraceCtx>> = Mutex::new(None);

fn read_dir_state(dir: &std::path::Path) -> DirState {
    use std::os::unix::fs::MetadataExt;
    let mut out = DirState::new();
    if let Ok(rd) = std::fs::read_dir(dir) {
        for e in rd.flatten() {
            if let (Ok(md), Ok(content)) = (e.metadata(), std::fs::read(e.path())) {
                out.insert(e.file_name().to_string_lossy().to_string(), FileSt { ino: md.ino(), content });
            }
        }
    }
    out
}

/// fsync interposition: the binary's own definition of the C symbol takes precedence over
/// libc's, so File::sync_all() in /repo ends up here. This is how "file contents are durable
/// from their sync_all" is *observed* rather than assumed from the hook names.
fn note_sync(fd: libc::c_int) {
    use std::os::unix::fs::MetadataExt;
    let mut guard = match TRACE.try_lock() {
        Ok(g) => g,
        Err(_) => return,
    };
    if let Some(ctx) = guard.as_mut() {
        if let Ok(path) = std::fs::read_link(format!("/proc/self/fd/{fd}")) {
            if path.parent() == Some(ctx.dir.as_path()) {
                if let (Ok(md), Ok(content)) = (std::fs::metadata(&path), std::fs::read(&path)) {
                    ctx.events.push(TraceEv::Fsync(md.ino(), content));
                }
            }
        }
    }
}

/// The real device flush is not performed: durability is *modelled* from the recorded call, and
/// waiting for the sandbox's disk made the run time depend on what else is running.
#[no_mangle]
pub extern "C" fn fsync(fd: libc::c_int) -> libc::c_int {
    note_sync(fd);
    0
}

#[no_mangle]
pub extern "C" fn fdatasync(fd: libc::c_int) -> libc::c_int {
    note_sync(fd);
    0
}

/// scratch directories: RAM-backed when available (same reason), else the default temp dir
fn scratch_dir() -> tempfile::TempDir {
    let shm = std::path::Path::new("/dev/shm");
    if shm.is_dir() {
        if let Ok(t) = tempfile::Builder::new().prefix("vc_snap").tempdir_in(shm) {
            return t;
        }
    }
    tempfile::tempdir().expect("tempdir")
}

fn install_hook() {
    samyama::verif_hooks::install(Some(Arc::new(|name: &'static str| {
        if !name.starts_with("snap:") {
            return;
        }
        let mut crash = false;
        {
            let mut guard = TRACE.lock().unwrap_or_else(|e| e.into_inner());
            if let Some(ctx) = guard.as_mut() {
                let st = read_dir_state(&ctx.dir);
                ctx.events.push(TraceEv::Hook(name.to_string(), st));
                ctx.hook_hits += 1;
                if ctx.crash_at == Some(ctx.hook_hits) {
                    crash = true;
                }
            }
        }
        if crash {
            panic!("verif crash injected at {name}");
        }
    })));
}

#[derive(Clone, Debug, Serialize, Deserialize)]
struct ImportStep {
    graph: GraphCase,
    dedup: Vec<String>,
}

#[derive(Clone, Debug, Serialize, Deserialize)]
struct C14Case {
    imports: Vec<ImportStep>,
}

fn multipart_body(data: &[u8]) -> (String, Vec<u8>) {
    let boundary = "----vcheckboundary7d3f";
    let mut b = Vec::new();
    b.extend_from_slice(format!("--{boundary}\r\nContent-Disposition: form-data; name=\"file\"; filename=\"s.sgsnap\"\r\nContent-Type: application/octet-stream\r\n\r\n").as_bytes());
    b.extend_from_slice(data);
    b.extend_from_slice(format!("\r\n--{boundary}--\r\n").as_bytes());
    (format!("multipart/form-data; boundary={boundary}"), b)
}

/// POST /api/snapshot/import through the shipped router; Ok(status)
fn http_import(rt: &tokio::runtime::Runtime, router: &axum::Router, data: &[u8], dedup: &[String]) -> Result<u16, String> {
    use tower::ServiceExt;
    let (ct, body) = multipart_body(data);
    let uri = if dedup.is_empty() { "/api/snapshot/import".to_string() } else { format!("/api/snapshot/import?dedup_key={}", dedup.join(",")) };
    let req = axum::http::Request::builder().method("POST").uri(uri).header("content-type", ct).body(axum::body::Body::from(body)).map_err(|e| e.to_string())?;
    let svc = router.clone();
    let resp = rt.block_on(async move { svc.oneshot(req).await }).map_err(|e| format!("{e:?}"))?;
    Ok(resp.status().as_u16())
}

fn store_lines(store: &GraphStore) -> Vec<String> {
    Model::from_dump(&xdump(store)).lines()
}

/// restart: fresh store + restore_persisted_snapshots (main.rs when RocksDB recovered nothing)
fn restart_from(data_path: &std::path::Path) -> Result<Vec<String>, String> {
    let mut store = GraphStore::new();
    let r = catch(|| samyama::snapshot::persist::restore_persisted_snapshots(&data_path.to_string_lossy(), &mut store).map(|_| ()).map_err(|e| e.to_string()));
    match r {
        Ok(_) => Ok(store_lines(&store)), // an Err from restore is logged by main.rs and the server starts with what is in the store
        Err(p) => Err(format!("restore panicked: {p}")),
    }
}

fn materialise(state: &BTreeMap<String, Vec<u8>>) -> tempfile::TempDir {
    let td = scratch_dir();
    let dir = td.path().join("snapshots");
    std::fs::create_dir_all(&dir).unwrap();
    for (name, content) in state {
        std::fs::write(dir.join(name), content).unwrap();
    }
    td
}

#[derive(Clone, Debug, PartialEq)]
enum DirOp {
    Unlink(String),
    Create(String, u64),
    Rename(String, String, u64),
}

/// directory operations between two observed directory states
fn derive_ops(prev: &DirState, cur: &DirState) -> Vec<DirOp> {
    let mut ops = Vec::new();
    let prev_inos: BTreeMap<u64, &String> = prev.iter().map(|(n, f)| (f.ino, n)).collect();
    let mut renamed_from: BTreeSet<String> = BTreeSet::new();
    for (name, f) in cur {
        match prev.get(name) {
            Some(pf) if pf.ino == f.ino => {}
            _ => {
                // new binding for this name
                if let Some(old) = prev_inos.get(&f.ino) {
                    if !cur.contains_key(*old) || cur[*old].ino != f.ino {
                        ops.push(DirOp::Rename((*old).clone(), name.clone(), f.ino));
                        renamed_from.insert((*old).clone());
                        continue;
                    }
                }
                if prev.contains_key(name) {
                    ops.push(DirOp::Unlink(name.clone()));
                }
                ops.push(DirOp::Create(name.clone(), f.ino));
            }
        }
    }
    for name in prev.keys() {
        if !cur.contains_key(name) && !renamed_from.contains(name) {
            ops.insert(0, DirOp::Unlink(name.clone()));
        }
    }
    ops
}

/// Power-loss model (assumption, recorded in evidence): the directory state at the start of
/// the in-flight persist is durable; each directory operation performed since then may
/// independently have reached the disk or not (no directory fsync anywhere in the sequence);
/// a file's content is what its last fsync made durable — without one it may be empty or
/// complete. Returns the distinct directory states (name -> content).
fn power_loss_states(d0: &DirState, events: &[TraceEv]) -> Vec<(String, BTreeMap<String, Vec<u8>>)> {
    // files are identified by our own ids: the kernel reuses inode numbers (the new marker
    // regularly gets the number of the snapshot file the rename has just replaced)
    let mut next_fid = 0usize;
    let mut fid_of_ino: BTreeMap<u64, usize> = BTreeMap::new();
    let mut durable: BTreeMap<usize, Vec<u8>> = BTreeMap::new();
    let mut volatile: BTreeMap<usize, Vec<u8>> = BTreeMap::new();
    let mut base: BTreeMap<String, usize> = BTreeMap::new();
    for (name, f) in d0 {
        fid_of_ino.insert(f.ino, next_fid);
        durable.insert(next_fid, f.content.clone());
        volatile.insert(next_fid, f.content.clone());
        base.insert(name.clone(), next_fid);
        next_fid += 1;
    }
    #[derive(Clone, Debug)]
    enum FOp {
        Unlink(String),
        Create(String, usize),
        Rename(String, String, usize),
    }
    let mut ops: Vec<FOp> = Vec::new();
    let mut prev = d0.clone();
    for ev in events {
        match ev {
            TraceEv::Hook(_, st) => {
                for op in derive_ops(&prev, st) {
                    match op {
                        DirOp::Unlink(n) => ops.push(FOp::Unlink(n)),
                        DirOp::Create(n, ino) => {
                            fid_of_ino.insert(ino, next_fid);
                            durable.insert(next_fid, Vec::new());
                            ops.push(FOp::Create(n, next_fid));
                            next_fid += 1;
                        }
                        DirOp::Rename(a, b, ino) => {
                            let fid = *fid_of_ino.get(&ino).unwrap_or(&usize::MAX);
                            ops.push(FOp::Rename(a, b, fid));
                        }
                    }
                }
                for f in st.values() {
                    if let Some(fid) = fid_of_ino.get(&f.ino) {
                        volatile.insert(*fid, f.content.clone());
                    }
                }
                prev = st.clone();
            }
            TraceEv::Fsync(ino, content) => {
                if let Some(fid) = fid_of_ino.get(ino) {
                    durable.insert(*fid, content.clone());
                    volatile.insert(*fid, content.clone());
                }
            }
        }
    }
    // files whose content on disk is uncertain (written, not fsynced since)
    let uncertain: Vec<usize> = volatile.iter().filter(|(fid, c)| durable.get(*fid) != Some(*c)).map(|(i, _)| *i).collect();
    let mut out: BTreeMap<BTreeMap<String, Vec<u8>>, String> = BTreeMap::new();
    let n = ops.len().min(10);
    for mask in 0u32..(1u32 << n) {
        for cmask in 0u32..(1u32 << uncertain.len().min(4)) {
            let mut names: BTreeMap<String, usize> = base.clone();
            for (i, op) in ops.iter().enumerate().take(n) {
                if mask & (1 << i) == 0 {
                    continue;
                }
                match op {
                    FOp::Unlink(nm) => {
                        names.remove(nm);
                    }
                    FOp::Create(nm, fid) => {
                        names.insert(nm.clone(), *fid);
                    }
                    FOp::Rename(from, to, fid) => {
                        if names.get(from) == Some(fid) {
                            names.remove(from);
                        }
                        names.insert(to.clone(), *fid);
                    }
                }
            }
            let mut st: BTreeMap<String, Vec<u8>> = BTreeMap::new();
            for (nm, fid) in &names {
                let lucky = uncertain.iter().position(|u| u == fid).map(|p| cmask & (1 << p) != 0).unwrap_or(false);
                let content = if lucky { volatile.get(fid).cloned().unwrap_or_default() } else { durable.get(fid).cloned().unwrap_or_default() };
                st.insert(nm.clone(), content);
            }
            let kept: Vec<String> = ops.iter().enumerate().take(n).map(|(i, op)| format!("{}{:?}", if mask & (1 << i) != 0 { "+" } else { "-" }, op)).collect();
            out.entry(st).or_insert_with(|| format!("[{}] unsynced-content-survived-mask={cmask:b}", kept.join(" ")));
        }
    }
    out.into_iter().map(|(st, d)| (d, st)).collect()
}

struct C14Prepared {
    /// normalised .sgsnap bytes of every import
    uploads: Vec<Vec<u8>>,
    /// L_j: the graph of upload j alone, restored into an empty store (L_0 = empty)
    alone: Vec<Vec<String>>,
}

fn c14_prepare(case: &C14Case) -> Result<C14Prepared, String> {
    let mut uploads = Vec::new();
    let mut alone = vec![Vec::new()];
    for step in &case.imports {
        let src = build_store(&step.graph);
        let mut bytes = Vec::new();
        samyama::snapshot::export_tenant_with_compression(&src.store, &mut bytes, step.graph.level).map_err(|e| format!("export failed: {e}"))?;
        let (bytes, _) = normalise_snapshot(&bytes, step.graph.level)?;
        let mut st = GraphStore::new();
        samyama::snapshot::import_tenant(&mut st, std::io::Cursor::new(&bytes)).map_err(|e| format!("upload {} is not importable: {e}", uploads.len() + 1))?;
        alone.push(store_lines(&st));
        uploads.push(bytes);
    }
    Ok(C14Prepared { uploads, alone })
}

struct RunOutcome {
    /// S_j after j acknowledged imports (S_0 = empty), as far as the run got
    acked_states: Vec<Vec<String>>,
    /// events of the persist that was in flight when the crash hit (or of the last import)
    inflight_events: Vec<TraceEv>,
    /// directory state when the in-flight persist started
    d0: DirState,
    crashed: bool,
    data_dir: tempfile::TempDir,
    /// per acknowledged import: what a clean restart right after it restores
    clean_restarts: Vec<Vec<String>>,
    /// hook names seen per import (from complete imports)
    hooks_per_import: Vec<usize>,
}

/// Run the history through the HTTP handler; crash = panic at the `hook`-th hook point of
/// import number `at_import` (1-based).
fn c14_run(case: &C14Case, prep: &C14Prepared, crash: Option<(usize, usize)>) -> Result<RunOutcome, String> {
    let rt = tokio::runtime::Builder::new_current_thread().enable_all().build().map_err(|e| e.to_string())?;
    let td = scratch_dir();
    let data_path = td.path().to_string_lossy().to_string();
    let snapdir = td.path().join("snapshots");
    let store = Arc::new(tokio::sync::RwLock::new(GraphStore::new()));
    let router = samyama::http::server::HttpServer::new(Arc::clone(&store), 0).with_data_path(Some(data_path.clone())).router();
    let mut out = RunOutcome { acked_states: vec![Vec::new()], inflight_events: Vec::new(), d0: DirState::new(), crashed: false, data_dir: td, clean_restarts: Vec::new(), hooks_per_import: Vec::new() };
    for (i, step) in case.imports.iter().enumerate() {
        let k = i + 1;
        let d0 = read_dir_state(&snapdir);
        {
            let mut g = TRACE.lock().unwrap_or_else(|e| e.into_inner());
            *g = Some(TraceCtx { dir: snapdir.clone(), events: Vec::new(), hook_hits: 0, crash_at: crash.filter(|c| c.0 == k).map(|c| c.1) });
        }
        let res = catch(|| http_import(&rt, &router, &prep.uploads[i], &step.dedup));
        let ctx = TRACE.lock().unwrap_or_else(|e| e.into_inner()).take().unwrap();
        let events = ctx.events;
        out.d0 = d0;
        out.inflight_events = events;
        match res {
            Ok(Ok(200)) => {
                out.hooks_per_import.push(ctx.hook_hits);
                let g = rt.block_on(store.read());
                out.acked_states.push(store_lines(&g));
                drop(g);
                out.clean_restarts.push(restart_from(out.data_dir.path())?);
            }
            Ok(Ok(code)) => return Err(format!("import {k} was refused with HTTP {code}")),
            Ok(Err(e)) => return Err(format!("import {k}: {e}")),
            Err(p) => {
                if p.contains("verif crash injected") {
                    out.crashed = true;
                    return Ok(out);
                }
                return Err(format!("import {k} panicked: {p}"));
            }
        }
    }
    Ok(out)
}

const KF14_MARKER: &str = "KF-C14-1";
const KF14_LAST_ONLY: &str = "KF-C14-2";

struct Judge<'a> {
    kf_marker: bool,
    kf_last_only: bool,
    prep: &'a C14Prepared,
}

impl<'a> Judge<'a> {
    /// restored state after a crash inside import k (k-1 acknowledged), or k == acked for a clean restart
    fn judge(&self, restored: &[String], allowed: &[&Vec<String>], k_inflight: usize, marker_present: bool, clean: bool) -> Result<Option<&'static str>, String> {
        if allowed.iter().any(|a| a.as_slice() == restored) {
            return Ok(None);
        }
        // switch "a restart restores only the most recent upload": L_{k-1} or L_k
        if self.kf_last_only {
            let lo = if clean { k_inflight } else { k_inflight.saturating_sub(1) };
            for j in lo..=k_inflight.min(self.prep.alone.len() - 1) {
                if self.prep.alone[j].as_slice() == restored && j >= 1 {
                    return Ok(Some(KF14_LAST_ONLY));
                }
            }
        }
        // switch "the previous snapshot is uncommitted while the next one is written": nothing restored
        if self.kf_marker && restored.is_empty() && !marker_present && k_inflight >= 2 {
            return Ok(Some(KF14_MARKER));
        }
        Err(format!("restored graph is neither of the allowed states:\n  restored: {:?}\n  allowed: {:?}", restored, allowed))
    }
}

#[derive(Default)]
struct C14Stats {
    evaluations: u64,
    nontrivial: Vec<u64>,
    classes: BTreeMap<String, u64>,
    kf_hits: BTreeMap<String, u64>,
}

/// All crash points x power-loss variants of one history. Err((description, message)) on the
/// first unexplained state.
fn c14_check(case: &C14Case, kf_marker: bool, kf_last_only: bool, stats: &mut C14Stats) -> Result<(), String> {
    let prep = c14_prepare(case)?;
    let judge = Judge { kf_marker, kf_last_only, prep: &prep };
    let h = case_hash(case);
    let bump = |stats: &mut C14Stats, c: &str| *stats.classes.entry(c.to_string()).or_insert(0) += 1;
    // 1. the history without a crash: clean restart after every acknowledged import
    let full = c14_run(case, &prep, None)?;
    let n = case.imports.len();
    for k in 1..=n {
        stats.evaluations += 1;
        bump(stats, "clean_restart");
        let restored = &full.clean_restarts[k - 1];
        match judge.judge(restored, &[&full.acked_states[k]], k, true, true) {
            Ok(None) => {}
            Ok(Some(id)) => *stats.kf_hits.entry(id.to_string()).or_insert(0) += 1,
            Err(m) => return Err(format!("clean restart after {k} acknowledged import(s): {m}")),
        }
    }
    if case.imports.iter().any(|s| s.graph.edits.iter().any(|e| matches!(e, Edit::DeleteNode { .. }))) {
        bump(stats, "upload_source_has_id_holes");
    }
    let cumulative = (1..=n).all(|k| full.acked_states[k] == prep.alone[k]);
    bump(stats, if n == 1 { "history_single" } else if cumulative { "history_cumulative" } else { "history_disjoint_or_overlapping" });
    // 2. crash at every hook point of every import
    for k in 1..=n {
        let hooks = full.hooks_per_import[k - 1];
        for hook in 1..=hooks {
            let run = c14_run(case, &prep, Some((k, hook)))?;
            if !run.crashed {
                return Err(format!("crash at hook {hook} of import {k} did not fire"));
            }
            let allowed: [&Vec<String>; 2] = [&full.acked_states[k - 1], &full.acked_states[k]];
            let hook_name = run.inflight_events.iter().rev().find_map(|e| if let TraceEv::Hook(n, _) = e { Some(n.clone()) } else { None }).unwrap_or_default();
            // 2a. process crash: the directory as it is
            stats.evaluations += 1;
            bump(stats, "process_crash");
            let real: BTreeMap<String, Vec<u8>> = read_dir_state(&run.data_dir.path().join("snapshots")).into_iter().map(|(n, f)| (n, f.content)).collect();
            let restored = restart_from(run.data_dir.path())?;
            let inside = hook < hooks;
            if k >= 2 && inside {
                stats.nontrivial.push(fnv(&(h, k, hook, 0u32)));
            }
            match judge.judge(&restored, &allowed, k, real.contains_key(MARKER_NAME), false) {
                Ok(None) => {}
                Ok(Some(id)) => *stats.kf_hits.entry(id.to_string()).or_insert(0) += 1,
                Err(m) => return Err(format!("process crash at {hook_name} (hook {hook}) of import {k}: directory {:?}: {m}", real.keys().collect::<Vec<_>>())),
            }
            // 2b. power loss at the same point
            let variants = power_loss_states(&run.d0, &run.inflight_events);
            let mut saw_real = false;
            for (vi, (desc, st)) in variants.iter().enumerate() {
                if *st == real {
                    saw_real = true;
                }
                stats.evaluations += 1;
                bump(stats, "power_loss_variant");
                if k >= 2 && inside {
                    stats.nontrivial.push(fnv(&(h, k, hook, vi as u32 + 1)));
                }
                let td = materialise(st);
                let restored = restart_from(td.path())?;
                match judge.judge(&restored, &allowed, k, st.contains_key(MARKER_NAME), false) {
                    Ok(None) => {}
                    Ok(Some(id)) => *stats.kf_hits.entry(id.to_string()).or_insert(0) += 1,
                    Err(m) => {
                        return Err(format!(
                            "power loss at {hook_name} (hook {hook}) of import {k}, directory operations kept/lost {desc}: directory {:?}: {m}",
                            st.iter().map(|(n, c)| format!("{n}({} B)", c.len())).collect::<Vec<_>>()
                        ))
                    }
                }
            }
            if !saw_real {
                return Err(format!("harness self-check: the observed directory after the crash at {hook_name} of import {k} is not among the modelled states (all operations kept): {:?}", real.keys().collect::<Vec<_>>()));
            }
        }
    }
    Ok(())
}

fn c14_strategy() -> BoxedStrategy<C14Case> {
    let g = |base: i64| graph_strategy(true, false, 3, 3, base);
    let dd = || prop_oneof![2 => Just(Vec::<String>::new()), 1 => Just(vec!["sid".to_string()])];
    let single = (g(1), dd()).prop_map(|(a, d)| vec![(a, d)]);
    let two = (g(1), dd(), g(200), dd()).prop_map(|(a, da, b, db)| vec![(a, da), (b, db)]);
    let three = (g(1), dd(), g(200), dd(), g(400), dd()).prop_map(|(a, da, b, db, c, dc)| vec![(a, da), (b, db), (c, dc)]);
    // cumulative: every upload contains the previous ones' nodes (same sid, same content) and is
    // imported with dedup_key=sid; only the last upload carries relationships
    let cumulative = (g(1), g(200), g(400), 2usize..=3).prop_map(|(a, b, c, n)| {
        let parts = [a, b, c];
        let mut acc: Vec<NodeSpec> = Vec::new();
        let mut out = Vec::new();
        for i in 0..n {
            let mut gi = parts[i].clone();
            let own_nodes = gi.nodes.clone();
            let shift = acc.len();
            let mut nodes = acc.clone();
            nodes.extend(own_nodes.clone());
            for e in gi.edges.iter_mut() {
                e.src += shift;
                e.dst += shift;
            }
            if i + 1 < n {
                gi.edges.clear();
            }
            gi.nodes = nodes;
            acc.extend(own_nodes);
            out.push((gi, vec!["sid".to_string()]));
        }
        out
    });
    // a third of the uploads come from a source store with create-and-delete history (sparse,
    // recycled node and relationship ids in the exported records)
    let ballast = proptest::collection::vec(proptest::option::weighted(0.33, ballast_strategy()), 3);
    (prop_oneof![2 => single, 4 => two, 3 => three, 3 => cumulative], ballast)
        .prop_map(|(steps, ballast)| C14Case {
            imports: steps
                .into_iter()
                .enumerate()
                .map(|(i, (mut graph, dedup))| {
                    graph.id_key = "sid".to_string();
                    for n in graph.nodes.iter_mut() {
                        n.props.retain(|(k, _)| k != "uid" && k != "sid");
                    }
                    if let Some(Some(b)) = ballast.get(i) {
                        add_ballast(&mut graph, b, 5000 + 100 * i as i64);
                    }
                    ImportStep { graph, dedup }
                })
                .collect(),
        })
        .boxed()
}

fn c14(args: &Args) {
    let mut ev = Evidence::new(
        args,
        "fault_enumeration",
        "histories of 1-3 snapshot uploads through POST /api/snapshot/import (shipped router, data_path set; disjoint, overlapping and cumulative histories, with and without dedup_key) x a crash (panic from the hook callback) at every hook point of persist_snapshot of every import x for each crash point every subset of the directory operations performed by the in-flight persist being lost (and unsynced file content empty or complete); restart = fresh store + restore_persisted_snapshots. The restored uid/sid-keyed dump must be the state after the previous acknowledged import or after the in-flight one; a clean restart after k acknowledged imports must give the state after all k. Non-trivial = crash strictly inside the persist sequence of an import that has a predecessor; distinct = distinct (history, import, hook, variant).",
    );
    ev.assume("power-loss model (not observed on a device): the directory as of the start of the in-flight persist is durable; every directory operation since (unlink, create, rename), none of which is followed by a directory fsync, is independently kept or lost; a file's content is what its last observed fsync()/fdatasync() made durable, otherwise empty or complete");
    ev.assume("directory operations are derived from the directory contents (names, inode numbers, bytes) observed at each hook point, fsyncs from an interposed fsync()/fdatasync(); a restore that returns Err is treated like main.rs treats it (logged, server starts with whatever is in the store)");
    let kf = Known::load(args);
    ev.set(
        "fault_enumeration",
        json!({
            "crash_points": "every hook point reached by persist_snapshot, in every import of the history (process crash = panic from the hook callback, restart from the directory as left)",
            "power_loss": "per crash point: every subset of the directory operations of the in-flight persist x unsynced file content {as last fsynced, complete}; identical directory states restored once",
            "clean_restart": "after every acknowledged import",
        }),
    );
    install_hook();
    let quiet = Quiet::on();

    let absorb = |ev: &mut Evidence, st: C14Stats| {
        ev.cases(st.evaluations);
        for h in st.nontrivial {
            ev.nontrivial_hash(h);
        }
        for (c, n) in st.classes {
            ev.class_n(&c, n);
        }
        for (id, n) in st.kf_hits {
            for _ in 0..n {
                ev.kf_hit(&id);
            }
        }
    };

    if let Some(p) = &args.replay {
        let case: C14Case = serde_json::from_value(load_replay(p)).expect("replay case");
        let mut st = C14Stats::default();
        let r = catch(|| c14_check(&case, false, false, &mut st));
        quiet.off();
        absorb(&mut ev, st);
        match r {
            Ok(Ok(())) => println!("replay: property held"),
            Ok(Err(m)) | Err(m) => {
                report_violation(&mut ev, &json!(case), &m);
            }
        }
        ev.nontrivial(&case_hash(&case));
        ev.nontrivial(&"replay");
        ev.sample(json!(case));
        finish(&ev);
    }

    for id in [KF14_MARKER, KF14_LAST_ONLY] {
        if let Some(w) = witness_case(&kf, id) {
            let case: C14Case = serde_json::from_value(w).expect("witness case");
            let strict_fails = !matches!(catch(|| c14_check(&case, false, false, &mut C14Stats::default())), Ok(Ok(())));
            let mut st = C14Stats::default();
            // both switches allowed while judging the witness (the two defects overlap on most
            // histories); this finding is alive iff its own switch is what explains some state
            let r = catch(|| c14_check(&case, true, true, &mut st));
            if std::env::var("VC_SNAP_DEBUG").is_ok() {
                println!("DEBUG witness {id}: strict_fails={strict_fails} with switches: {r:?} hits={:?}", st.kf_hits);
            }
            let explained = matches!(r, Ok(Ok(())));
            let hit = st.kf_hits.get(id).copied().unwrap_or(0) > 0;
            kf.witness_result(&mut ev, id, strict_fails && explained && hit);
        }
    }
    let (kf_marker, kf_last_only) = (kf.active(KF14_MARKER), kf.active(KF14_LAST_ONLY));

    let mut failure: Option<(C14Case, String)> = None;
    for (p, case) in corpus_cases("C14") {
        let case: C14Case = serde_json::from_value(case).expect("corpus case");
        let mut st = C14Stats::default();
        let r = catch(|| c14_check(&case, kf_marker, kf_last_only, &mut st));
        absorb(&mut ev, st);
        if let Ok(Err(m)) | Err(m) = r {
            failure = Some((case, format!("{m} (corpus {})", p.display())));
            break;
        }
    }
    if failure.is_none() {
        let n = args.tier.pick(1000u32, 30_000u32);
        let strat = c14_strategy();
        let evc = RefCell::new(&mut ev);
        let res = search(args.seed, n, &strat, |case| {
            let mut e = evc.borrow_mut();
            let mut st = C14Stats::default();
            let r = catch(|| c14_check(case, kf_marker, kf_last_only, &mut st));
            if e.want_sample() && case.imports.len() >= 2 {
                e.sample(json!(case));
            }
            absorb(&mut e, st);
            match r {
                Ok(Ok(())) => Ok(()),
                Ok(Err(m)) | Err(m) => {
                    e.frozen = true;
                    Err(m)
                }
            }
        });
        drop(evc);
        if let Some((case, msg)) = res {
            failure = Some((case, msg));
        }
    }
    quiet.off();
    ev.exhaustive = Some(false);
    if let Some((case, msg)) = failure {
        report_violation(&mut ev, &json!(case), &msg);
    }
    finish(&ev);
}
