//! C06 (store read views vs logical graph), C10 (lawful orders on property values),
//! C30 (column store behaves as a map) — DESIGN §4.
use proptest::prelude::*;
use samyama::graph::property::cypher_order;
use samyama::graph::storage::columnar::Column;
use samyama::graph::{ColumnStore, EdgeId, EdgeType, GraphStore, Label, NodeId, PropertyValue};
use samyama::index::PropertyIndex;
use serde::{Deserialize, Serialize};
use serde_json::{json, Value as J};
use std::cell::RefCell;
use std::cmp::Ordering;
use std::collections::{BTreeMap, BTreeSet, HashMap};
use vcheck::values::{self, canon};
use vcheck::*;

fn main() {
    let args = parse_args();
    quiet_panics();
    start_watchdog(args.tier.pick(900, 3600));
    match args.prop.as_str() {
        "C06" => c06(&args),
        "C10" => c10(&args),
        "C30" => c30(&args),
        p => {
            eprintln!("vc_store does not serve {p}");
            std::process::exit(2)
        }
    }
}

// ---------------------------------------------------------------------------------------
// stderr gag: compact_adjacency() prints one line per call; hundreds of thousands of runs
// would drown the terminal. stderr is restored before anything is reported.

fn gag_stderr() -> i32 {
    unsafe {
        let saved = libc::dup(2);
        let dn = libc::open(b"/dev/null\0".as_ptr() as *const libc::c_char, libc::O_WRONLY);
        libc::dup2(dn, 2);
        libc::close(dn);
        saved
    }
}
fn ungag_stderr(saved: i32) {
    unsafe {
        libc::dup2(saved, 2);
        libc::close(saved);
    }
}

// =======================================================================================
// C06
// =======================================================================================

const LABELS: [&str; 2] = ["A", "B"];
const TYPES: [&str; 2] = ["R", "S"];
const NKEYS: [&str; 2] = ["p", "q"];
const EKEYS: [&str; 2] = ["w", "x"];

fn gval(code: i64) -> PropertyValue {
    match code.rem_euclid(6) {
        0 => PropertyValue::Integer(0),
        1 => PropertyValue::Integer(1),
        2 => PropertyValue::Integer(2),
        3 => PropertyValue::String("a".to_string()),
        4 => PropertyValue::Boolean(true),
        _ => PropertyValue::Float(1.5),
    }
}

#[derive(Clone, Debug, Serialize, Deserialize, PartialEq, Eq, Hash)]
enum NRef {
    /// node currently in slot i
    Slot(u8),
    /// k-th stub created by this bulk block
    New(u8),
}

#[derive(Clone, Debug, Serialize, Deserialize, PartialEq, Eq, Hash)]
enum GOp {
    CreateNode { labels: Vec<u8> },
    CreateNodeProps { labels: Vec<u8>, props: Vec<(u8, i64)> },
    CreateEdge { src: u8, dst: u8, ty: u8 },
    CreateEdgeProps { src: u8, dst: u8, ty: u8, props: Vec<(u8, i64)> },
    /// delete the nth live relationship (live relationships ordered by id)
    DeleteEdge { nth: u8 },
    DeleteNode { slot: u8 },
    AddLabel { slot: u8, label: u8 },
    RemoveLabel { slot: u8, label: u8 },
    SetProp { slot: u8, key: u8, val: i64 },
    RemoveProp { slot: u8, key: u8 },
    SetEdgeProp { nth: u8, key: u8, val: i64 },
    RemoveEdgeProp { nth: u8, key: u8 },
    Compact,
    /// what snapshot import does: stubs, column properties (new stubs, or live nodes lacking
    /// the key), relationship stubs / relationships with properties between live nodes, then
    /// finish_bulk_load()
    ///
    /// `compactions`: a chunked load (benches/memory_footprint.rs --compact-every; the old import
    /// path compacted itself before the rebuilds): after the relationship with index `pos`
    /// (any pos >= edges.len() = after the last one, i.e. immediately before finish_bulk_load)
    /// run kind 0 = compact_adjacency(), 1 = compact_adjacency_if_needed(0),
    /// 2 = compact_adjacency_if_needed(2). The block is still observed only after
    /// finish_bulk_load().
    Bulk {
        stubs: Vec<u8>,
        cols: Vec<(NRef, u8, i64)>,
        edges: Vec<(NRef, NRef, u8, Option<i64>)>,
        #[serde(default)]
        compactions: Vec<(u8, u8)>,
    },
}

/// Quirk switches of the reference model = confirmed deviations of the engine (known findings).
#[derive(Clone, Copy, PartialEq, Eq, Debug, Default)]
struct Q6 {
    /// KF-C06-1: the frozen (CSR) tier is never updated on delete
    frozen: bool,
    /// KF-C06-2: delete_edge leaves the relationship's row in edge_columns
    edgecol: bool,
    /// KF-C06-3: edges_between binary-searches the concatenation of frozen segments
    multiseg: bool,
}
impl Q6 {
    fn any(&self) -> bool {
        self.frozen || self.edgecol || self.multiseg
    }
}

#[derive(Clone, Debug)]
struct MNode {
    labels: BTreeSet<u8>,
    props: BTreeMap<u8, PropertyValue>,
}
#[derive(Clone, Debug)]
struct MEdge {
    src: u64,
    dst: u64,
    ty: u8,
    props: BTreeMap<u8, PropertyValue>,
}

type Adj = BTreeMap<u64, Vec<(u64, u64)>>;

struct Model {
    q: Q6,
    max_slots: usize,
    slots: Vec<Option<u64>>,
    nodes: BTreeMap<u64, MNode>,
    edges: BTreeMap<u64, MEdge>,
    ever_nodes: BTreeSet<u64>,
    ever_edges: BTreeSet<u64>,
    // mirror of the engine's two-tier adjacency (consulted only under quirk switches)
    segs_out: Vec<Adj>,
    segs_in: Vec<Adj>,
    buf_out: Adj,
    buf_in: Adj,
    frozen_total: usize,
    frozen_ids: BTreeSet<u64>,
    /// what edge_columns holds per relationship id (mirror; differs from props only under edgecol)
    residue: BTreeMap<u64, BTreeMap<u8, PropertyValue>>,
    // non-triviality
    nt_delete_after_compact: bool,
    nt_id_reuse: bool,
    // which quirk switch changed an expected answer
    used_frozen: bool,
    used_edgecol: bool,
    used_multiseg: bool,
    compactions: u32,
    bulk_blocks: u32,
    chunked_blocks: u32,
    finish_on_empty_buffer: u32,
}

fn sorted_insert(list: &mut Vec<(u64, u64)>, key: u64, eid: u64) {
    // exactly what create_edge does
    let pos = list.binary_search_by_key(&key, |(nid, _)| *nid).unwrap_or_else(|p| p);
    list.insert(pos, (key, eid));
}

impl Model {
    fn new(q: Q6, max_slots: usize) -> Model {
        Model {
            q,
            max_slots,
            slots: Vec::new(),
            nodes: BTreeMap::new(),
            edges: BTreeMap::new(),
            ever_nodes: BTreeSet::new(),
            ever_edges: BTreeSet::new(),
            segs_out: Vec::new(),
            segs_in: Vec::new(),
            buf_out: BTreeMap::new(),
            buf_in: BTreeMap::new(),
            frozen_total: 0,
            frozen_ids: BTreeSet::new(),
            residue: BTreeMap::new(),
            nt_delete_after_compact: false,
            nt_id_reuse: false,
            used_frozen: false,
            used_edgecol: false,
            used_multiseg: false,
            compactions: 0,
            bulk_blocks: 0,
            chunked_blocks: 0,
            finish_on_empty_buffer: 0,
        }
    }
    fn free_slot(&self) -> Option<usize> {
        if let Some(i) = self.slots.iter().position(|s| s.is_none()) {
            Some(i)
        } else if self.slots.len() < self.max_slots {
            Some(self.slots.len())
        } else {
            None
        }
    }
    fn slot(&self, i: u8) -> Option<u64> {
        self.slots.get(i as usize).copied().flatten()
    }
    fn nth_edge(&self, nth: u8) -> Option<u64> {
        self.edges.keys().nth(nth as usize).copied()
    }
    fn add_node(&mut self, id: u64, slot: usize, labels: BTreeSet<u8>, props: BTreeMap<u8, PropertyValue>) -> Result<(), String> {
        if id == 0 {
            return Err("node creation returned id 0".into());
        }
        if self.nodes.contains_key(&id) {
            return Err(format!("node creation returned id {id}, which belongs to a live node"));
        }
        if !self.ever_nodes.insert(id) {
            self.nt_id_reuse = true;
        }
        self.nodes.insert(id, MNode { labels, props });
        if slot >= self.slots.len() {
            self.slots.resize(slot + 1, None);
        }
        self.slots[slot] = Some(id);
        Ok(())
    }
    fn add_edge(&mut self, eid: u64, src: u64, dst: u64, ty: u8, props: BTreeMap<u8, PropertyValue>, stub: bool) -> Result<(), String> {
        if eid == 0 {
            return Err("relationship creation returned id 0".into());
        }
        if self.edges.contains_key(&eid) {
            return Err(format!("relationship creation returned id {eid}, which belongs to a live relationship"));
        }
        if !self.ever_edges.insert(eid) {
            self.nt_id_reuse = true;
        }
        if stub {
            self.buf_out.entry(src).or_default().push((dst, eid));
            self.buf_in.entry(dst).or_default().push((src, eid));
        } else {
            sorted_insert(self.buf_out.entry(src).or_default(), dst, eid);
            sorted_insert(self.buf_in.entry(dst).or_default(), src, eid);
        }
        if !props.is_empty() {
            let r = self.residue.entry(eid).or_default();
            for (k, v) in &props {
                r.insert(*k, v.clone());
            }
        }
        self.edges.insert(eid, MEdge { src, dst, ty, props });
        Ok(())
    }
    fn delete_edge(&mut self, eid: u64) {
        let e = match self.edges.remove(&eid) {
            Some(e) => e,
            None => return,
        };
        if self.frozen_ids.contains(&eid) {
            self.nt_delete_after_compact = true;
        }
        if let Some(l) = self.buf_out.get_mut(&e.src) {
            l.retain(|&(_, x)| x != eid);
        }
        if let Some(l) = self.buf_in.get_mut(&e.dst) {
            l.retain(|&(_, x)| x != eid);
        }
        if !self.q.edgecol {
            self.residue.remove(&eid);
        }
    }
    fn phys_entries(&self, n: u64, out: bool) -> Vec<(u64, u64)> {
        let (segs, buf) = if out { (&self.segs_out, &self.buf_out) } else { (&self.segs_in, &self.buf_in) };
        let mut v = Vec::new();
        for s in segs {
            if let Some(l) = s.get(&n) {
                v.extend_from_slice(l);
            }
        }
        if let Some(l) = buf.get(&n) {
            v.extend_from_slice(l);
        }
        v
    }
    fn logical_entries(&self, n: u64, out: bool) -> Vec<(u64, u64)> {
        self.edges.iter().filter(|(_, e)| if out { e.src == n } else { e.dst == n }).map(|(id, e)| (if out { e.dst } else { e.src }, *id)).collect()
    }
    /// adjacency entries the readers iterate for node n: the logical incident relationships,
    /// or (quirk) whatever the two tiers hold, dead and re-used ids included
    fn entries(&self, n: u64, out: bool) -> Vec<(u64, u64)> {
        if self.q.frozen {
            self.phys_entries(n, out)
        } else {
            self.logical_entries(n, out)
        }
    }
    fn delete_node(&mut self, id: u64) {
        // the engine takes the node's write buffers first
        let named: Vec<u64> = self.phys_entries(id, true).into_iter().chain(self.phys_entries(id, false)).map(|(_, e)| e).collect();
        self.buf_out.remove(&id);
        self.buf_in.remove(&id);
        let doomed: Vec<u64> = if self.q.frozen { named } else { self.edges.iter().filter(|(_, e)| e.src == id || e.dst == id).map(|(k, _)| *k).collect() };
        for e in doomed {
            self.delete_edge(e);
        }
        self.nodes.remove(&id);
        for s in self.slots.iter_mut() {
            if *s == Some(id) {
                *s = None;
            }
        }
    }
    fn compact(&mut self) {
        let out_n: usize = self.buf_out.values().map(|v| v.len()).sum();
        let in_n: usize = self.buf_in.values().map(|v| v.len()).sum();
        if out_n == 0 && in_n == 0 {
            return;
        }
        self.compactions += 1;
        let freeze = |buf: &mut Adj| -> Adj {
            let mut seg = Adj::new();
            for (n, l) in buf.iter() {
                if !l.is_empty() {
                    let mut l2 = l.clone();
                    l2.sort_by_key(|(nid, _)| *nid);
                    seg.insert(*n, l2);
                }
            }
            buf.clear();
            seg
        };
        for l in self.buf_out.values() {
            for (_, e) in l {
                self.frozen_ids.insert(*e);
            }
        }
        let so = freeze(&mut self.buf_out);
        let si = freeze(&mut self.buf_in);
        self.frozen_total += out_n;
        self.segs_out.push(so);
        self.segs_in.push(si);
    }
    fn search_slice(&self, entries: &[(u64, u64)], key: u64, s: u64, d: u64, ty: Option<u8>) -> Vec<u64> {
        // mirror of GraphStore::search_adjacency_slice
        let start = match entries.binary_search_by_key(&key, |(nid, _)| *nid) {
            Ok(pos) => {
                let mut p = pos;
                while p > 0 && entries[p - 1].0 == key {
                    p -= 1;
                }
                p
            }
            Err(_) => return Vec::new(),
        };
        let mut res = Vec::new();
        for &(nid, eid) in &entries[start..] {
            if nid != key {
                break;
            }
            if let Some(e) = self.edges.get(&eid) {
                if e.src == s && e.dst == d && ty.map_or(true, |t| e.ty == t) {
                    res.push(eid);
                }
            } else if self.q.frozen && ty.is_none() {
                res.push(eid);
            }
        }
        res
    }
    fn expected_between(&mut self, s: u64, d: u64, ty: Option<u8>) -> Vec<u64> {
        let logical: Vec<u64> = self.edges.iter().filter(|(_, e)| e.src == s && e.dst == d && ty.map_or(true, |t| e.ty == t)).map(|(k, _)| *k).collect();
        if !self.q.frozen && !self.q.multiseg {
            return logical;
        }
        let segs: Vec<Vec<(u64, u64)>> = self.segs_out.iter().map(|sg| sg.get(&s).cloned().unwrap_or_default()).collect();
        let mut per_seg = Vec::new();
        for sg in &segs {
            per_seg.extend(self.search_slice(sg, d, s, d, ty));
        }
        let buf_res: Vec<u64> = self.buf_out.get(&s).map(|b| self.search_slice(b, d, s, d, ty)).unwrap_or_default();
        let mut tiers: Vec<u64> = per_seg.iter().chain(buf_res.iter()).copied().collect();
        tiers.sort();
        let mut l = logical;
        l.sort();
        if self.q.frozen && tiers != l {
            self.used_frozen = true;
        }
        let mut res = if self.q.multiseg {
            let concat: Vec<(u64, u64)> = segs.concat();
            let mut r = self.search_slice(&concat, d, s, d, ty);
            r.extend(buf_res.iter().copied());
            r.sort();
            if r != tiers {
                self.used_multiseg = true;
            }
            r
        } else {
            tiers
        };
        res.sort();
        res
    }
    fn expected_edge_count(&mut self) -> usize {
        if self.q.frozen {
            let n = self.frozen_total + self.buf_out.values().map(|v| v.len()).sum::<usize>();
            if n != self.edges.len() {
                self.used_frozen = true;
            }
            n
        } else {
            self.edges.len()
        }
    }
}

fn label_of(i: u8) -> Label {
    Label::new(LABELS[i as usize % 2])
}
fn type_of(i: u8) -> EdgeType {
    EdgeType::new(TYPES[i as usize % 2])
}
fn pmap(keys: &[&str; 2], props: &[(u8, i64)]) -> (HashMap<String, PropertyValue>, BTreeMap<u8, PropertyValue>) {
    let mut h = HashMap::new();
    let mut b = BTreeMap::new();
    for (k, v) in props {
        let k = k % 2;
        h.insert(keys[k as usize].to_string(), gval(*v));
        b.insert(k, gval(*v));
    }
    (h, b)
}

/// Execute one operation on the engine and on the model. Ok(false) = not applicable (skipped).
fn c06_exec(store: &mut GraphStore, m: &mut Model, op: &GOp) -> Result<bool, String> {
    match op {
        GOp::CreateNode { labels } => {
            let slot = match m.free_slot() {
                Some(s) => s,
                None => return Ok(false),
            };
            let ls: BTreeSet<u8> = labels.iter().map(|l| l % 2).collect();
            let id = if ls.len() == 1 {
                store.create_node(label_of(*ls.iter().next().unwrap()))
            } else {
                store.create_node_with_labels(ls.iter().map(|l| label_of(*l)))
            };
            m.add_node(id.as_u64(), slot, ls, BTreeMap::new())?;
        }
        GOp::CreateNodeProps { labels, props } => {
            let slot = match m.free_slot() {
                Some(s) => s,
                None => return Ok(false),
            };
            let ls: BTreeSet<u8> = labels.iter().map(|l| l % 2).collect();
            let (h, b) = pmap(&NKEYS, props);
            let id = store.create_node_with_properties("default", ls.iter().map(|l| label_of(*l)).collect(), h);
            m.add_node(id.as_u64(), slot, ls, b)?;
        }
        GOp::CreateEdge { src, dst, ty } => {
            let (s, d) = match (m.slot(*src), m.slot(*dst)) {
                (Some(s), Some(d)) => (s, d),
                _ => return Ok(false),
            };
            let eid = store.create_edge(NodeId::new(s), NodeId::new(d), type_of(*ty)).map_err(|e| format!("create_edge between live nodes {s}->{d} refused: {e}"))?;
            m.add_edge(eid.as_u64(), s, d, ty % 2, BTreeMap::new(), false)?;
        }
        GOp::CreateEdgeProps { src, dst, ty, props } => {
            let (s, d) = match (m.slot(*src), m.slot(*dst)) {
                (Some(s), Some(d)) => (s, d),
                _ => return Ok(false),
            };
            let (h, b) = pmap(&EKEYS, props);
            let eid = store.create_edge_with_properties(NodeId::new(s), NodeId::new(d), type_of(*ty), h).map_err(|e| format!("create_edge_with_properties between live nodes {s}->{d} refused: {e}"))?;
            m.add_edge(eid.as_u64(), s, d, ty % 2, b, false)?;
        }
        GOp::DeleteEdge { nth } => {
            let eid = match m.nth_edge(*nth) {
                Some(e) => e,
                None => return Ok(false),
            };
            let want = m.edges[&eid].clone();
            let got = store.delete_edge(EdgeId::new(eid)).map_err(|e| format!("delete_edge({eid}) of a live relationship refused: {e}"))?;
            if got.id.as_u64() != eid || got.source.as_u64() != want.src || got.target.as_u64() != want.dst || got.edge_type.as_str() != TYPES[want.ty as usize] {
                return Err(format!("delete_edge({eid}) returned {}:{}-[{}]->{}, the relationship was {}-[{}]->{}", got.id, got.source, got.edge_type, got.target, want.src, TYPES[want.ty as usize], want.dst));
            }
            m.delete_edge(eid);
        }
        GOp::DeleteNode { slot } => {
            let id = match m.slot(*slot) {
                Some(i) => i,
                None => return Ok(false),
            };
            store.delete_node("default", NodeId::new(id)).map_err(|e| format!("delete_node({id}) of a live node refused: {e}"))?;
            m.delete_node(id);
        }
        GOp::AddLabel { slot, label } => {
            let id = match m.slot(*slot) {
                Some(i) => i,
                None => return Ok(false),
            };
            store.add_label_to_node("default", NodeId::new(id), label_of(*label)).map_err(|e| format!("add_label_to_node({id}) refused: {e}"))?;
            m.nodes.get_mut(&id).unwrap().labels.insert(label % 2);
        }
        GOp::RemoveLabel { slot, label } => {
            let id = match m.slot(*slot) {
                Some(i) => i,
                None => return Ok(false),
            };
            let had = m.nodes.get_mut(&id).unwrap().labels.remove(&(label % 2));
            let r = store.remove_label_from_node(NodeId::new(id), &label_of(*label)).map_err(|e| format!("remove_label_from_node({id}) refused: {e}"))?;
            if r != had {
                return Err(format!("remove_label_from_node({id},{}) returned {r}, the node {} the label", LABELS[*label as usize % 2], if had { "carried" } else { "did not carry" }));
            }
        }
        GOp::SetProp { slot, key, val } => {
            let id = match m.slot(*slot) {
                Some(i) => i,
                None => return Ok(false),
            };
            store.set_node_property("default", NodeId::new(id), NKEYS[*key as usize % 2], gval(*val)).map_err(|e| format!("set_node_property({id}) refused: {e}"))?;
            m.nodes.get_mut(&id).unwrap().props.insert(key % 2, gval(*val));
        }
        GOp::RemoveProp { slot, key } => {
            let id = match m.slot(*slot) {
                Some(i) => i,
                None => return Ok(false),
            };
            store.remove_node_property(NodeId::new(id), NKEYS[*key as usize % 2]);
            m.nodes.get_mut(&id).unwrap().props.remove(&(key % 2));
        }
        GOp::SetEdgeProp { nth, key, val } => {
            let eid = match m.nth_edge(*nth) {
                Some(e) => e,
                None => return Ok(false),
            };
            store.set_edge_property(EdgeId::new(eid), EKEYS[*key as usize % 2], gval(*val)).map_err(|e| format!("set_edge_property({eid}) refused: {e}"))?;
            m.edges.get_mut(&eid).unwrap().props.insert(key % 2, gval(*val));
            m.residue.entry(eid).or_default().insert(key % 2, gval(*val));
        }
        GOp::RemoveEdgeProp { nth, key } => {
            let eid = match m.nth_edge(*nth) {
                Some(e) => e,
                None => return Ok(false),
            };
            store.remove_edge_property(EdgeId::new(eid), EKEYS[*key as usize % 2]);
            m.edges.get_mut(&eid).unwrap().props.remove(&(key % 2));
            if let Some(r) = m.residue.get_mut(&eid) {
                r.remove(&(key % 2));
            }
        }
        GOp::Compact => {
            store.compact_adjacency();
            m.compact();
        }
        GOp::Bulk { stubs, cols, edges, compactions } => {
            m.bulk_blocks += 1;
            let mut chunked = false;
            let mut stub_edges = 0u32;
            let mut new_ids: Vec<Option<u64>> = Vec::new();
            for l in stubs {
                match m.free_slot() {
                    Some(slot) => {
                        let id = store.create_node_stub(label_of(*l));
                        m.add_node(id.as_u64(), slot, [l % 2].into_iter().collect(), BTreeMap::new())?;
                        new_ids.push(Some(id.as_u64()));
                    }
                    None => new_ids.push(None),
                }
            }
            let resolve = |m: &Model, r: &NRef| -> Option<u64> {
                match r {
                    NRef::Slot(s) => m.slot(*s),
                    NRef::New(k) => new_ids.get(*k as usize).copied().flatten(),
                }
            };
            for (r, k, v) in cols {
                let id = match resolve(m, r) {
                    Some(i) => i,
                    None => continue,
                };
                // importer precondition: only keys the node does not hold yet
                if m.nodes[&id].props.contains_key(&(k % 2)) {
                    continue;
                }
                store.set_column_property(NodeId::new(id), NKEYS[*k as usize % 2], gval(*v));
                m.nodes.get_mut(&id).unwrap().props.insert(k % 2, gval(*v));
            }
            // compaction between chunks of the load
            let mut compact_at = |store: &mut GraphStore, m: &mut Model, pos_now: usize, last: bool| -> Result<(), String> {
                for (pos, kind) in compactions {
                    let here = if last { *pos as usize >= pos_now } else { *pos as usize == pos_now };
                    if !here {
                        continue;
                    }
                    let buffered: usize = m.buf_out.values().map(|v| v.len()).sum();
                    match kind % 3 {
                        0 => {
                            store.compact_adjacency();
                            if buffered > 0 {
                                chunked = true;
                            }
                            m.compact();
                        }
                        k => {
                            let threshold = if k == 1 { 0 } else { 2 };
                            let want = buffered > 0 && buffered >= threshold;
                            let ran = store.compact_adjacency_if_needed(threshold);
                            if ran != want {
                                return Err(format!("compact_adjacency_if_needed({threshold}) returned {ran} with {buffered} relationships in the write buffer"));
                            }
                            if ran {
                                chunked = true;
                                m.compact();
                            }
                        }
                    }
                }
                Ok(())
            };
            for (i, (a, b, ty, w)) in edges.iter().enumerate() {
                if let (Some(s), Some(d)) = (resolve(m, a), resolve(m, b)) {
                    match w {
                        None => {
                            let eid = store.create_edge_stub(NodeId::new(s), NodeId::new(d), type_of(*ty)).map_err(|e| format!("create_edge_stub between live nodes refused: {e}"))?;
                            m.add_edge(eid.as_u64(), s, d, ty % 2, BTreeMap::new(), true)?;
                            stub_edges += 1;
                        }
                        Some(w) => {
                            let (h, bm) = pmap(&EKEYS, &[(0, *w)]);
                            let eid = store.create_edge_with_properties(NodeId::new(s), NodeId::new(d), type_of(*ty), h).map_err(|e| format!("create_edge_with_properties in bulk block refused: {e}"))?;
                            m.add_edge(eid.as_u64(), s, d, ty % 2, bm, false)?;
                        }
                    }
                }
                if i + 1 < edges.len() {
                    compact_at(store, m, i, false)?;
                }
            }
            compact_at(store, m, edges.len().saturating_sub(1), true)?;
            if chunked {
                m.chunked_blocks += 1;
            }
            if stub_edges > 0 && m.buf_out.values().all(|v| v.is_empty()) {
                m.finish_on_empty_buffer += 1;
            }
            store.finish_bulk_load();
            m.compact();
        }
    }
    Ok(true)
}

fn pv_eq(a: &PropertyValue, b: &PropertyValue) -> bool {
    canon(a) == canon(b)
}

fn edge_matches(e: &samyama::graph::Edge, id: u64, want: &MEdge) -> Result<(), String> {
    let mut props: BTreeMap<String, String> = BTreeMap::new();
    for (k, v) in &e.properties {
        props.insert(k.clone(), canon(v));
    }
    let wprops: BTreeMap<String, String> = want.props.iter().map(|(k, v)| (EKEYS[*k as usize].to_string(), canon(v))).collect();
    if e.id.as_u64() != id || e.source.as_u64() != want.src || e.target.as_u64() != want.dst || e.edge_type.as_str() != TYPES[want.ty as usize] || props != wprops {
        return Err(format!(
            "relationship {id} reads as {}:({})-[:{} {:?}]->({}), the graph holds ({})-[:{} {:?}]->({})",
            e.id,
            e.source,
            e.edge_type,
            props,
            e.target,
            want.src,
            TYPES[want.ty as usize],
            wprops,
            want.dst
        ));
    }
    Ok(())
}

/// Compare every read view named by the property with the model.
fn c06_compare(store: &GraphStore, m: &mut Model) -> Result<(), String> {
    // ---- nodes
    let max_n = m.ever_nodes.iter().max().copied().unwrap_or(0);
    let probes_n: Vec<u64> = std::iter::once(0).chain(m.ever_nodes.iter().copied()).chain(std::iter::once(max_n + 1)).collect();
    for &id in &probes_n {
        let nid = NodeId::new(id);
        let live = m.nodes.get(&id);
        if store.has_node(nid) != live.is_some() {
            return Err(format!("has_node({id}) = {}, the graph {} node {id}", store.has_node(nid), if live.is_some() { "holds" } else { "does not hold" }));
        }
        match (store.get_node(nid), live) {
            (None, None) => {}
            (Some(n), Some(w)) => {
                let got: BTreeSet<String> = n.labels.iter().map(|l| l.as_str().to_string()).collect();
                let want: BTreeSet<String> = w.labels.iter().map(|l| LABELS[*l as usize].to_string()).collect();
                if n.id.as_u64() != id || got != want {
                    return Err(format!("get_node({id}) = id {} labels {got:?}, the graph holds labels {want:?}", n.id));
                }
                // nothing in the row store that the node does not logically hold
                for (k, v) in &n.properties {
                    let ki = NKEYS.iter().position(|x| x == k);
                    let wv = ki.and_then(|ki| w.props.get(&(ki as u8)));
                    if wv.map_or(true, |wv| !pv_eq(wv, v)) {
                        return Err(format!("node {id} row store holds {k}={}, the node's properties are {:?}", canon(v), w.props));
                    }
                }
                // nothing in the column store either
                for (ki, k) in NKEYS.iter().enumerate() {
                    let cv = store.node_columns.get_property(id as usize, k);
                    if !cv.is_null() && w.props.get(&(ki as u8)).map_or(true, |wv| !pv_eq(wv, &cv)) {
                        return Err(format!("node {id} column store holds {k}={}, the node's properties are {:?}", canon(&cv), w.props));
                    }
                }
                let full: BTreeMap<String, String> = store.node_properties_full(nid).iter().map(|(k, v)| (k.clone(), canon(v))).collect();
                let wfull: BTreeMap<String, String> = w.props.iter().map(|(k, v)| (NKEYS[*k as usize].to_string(), canon(v))).collect();
                if full != wfull {
                    return Err(format!("node_properties_full({id}) = {full:?}, the node's properties are {wfull:?}"));
                }
            }
            (g, w) => return Err(format!("get_node({id}) is {}, the graph {}", if g.is_some() { "Some" } else { "None" }, if w.is_some() { "holds the node" } else { "does not hold it" })),
        }
    }
    if store.node_count() != m.nodes.len() {
        return Err(format!("node_count() = {}, the graph holds {} nodes", store.node_count(), m.nodes.len()));
    }
    let mut alln: Vec<u64> = store.all_nodes().iter().map(|n| n.id.as_u64()).collect();
    alln.sort();
    if alln != m.nodes.keys().copied().collect::<Vec<_>>() {
        return Err(format!("all_nodes() ids = {alln:?}, the graph holds {:?}", m.nodes.keys().collect::<Vec<_>>()));
    }
    for li in 0..3u8 {
        let (label, want): (Label, Vec<u64>) = if li < 2 { (label_of(li), m.nodes.iter().filter(|(_, n)| n.labels.contains(&li)).map(|(k, _)| *k).collect()) } else { (Label::new("Z"), vec![]) };
        let mut got: Vec<u64> = store.get_nodes_by_label(&label).iter().map(|n| n.id.as_u64()).collect();
        got.sort();
        if got != want {
            return Err(format!("get_nodes_by_label({label}) = {got:?}, nodes carrying it: {want:?}"));
        }
        let mut got2: Vec<u64> = store.nodes_with_label(&label).map(|s| s.iter().map(|n| n.as_u64()).collect()).unwrap_or_default();
        got2.sort();
        if got2 != want {
            return Err(format!("nodes_with_label({label}) = {got2:?}, nodes carrying it: {want:?}"));
        }
        if store.label_node_count(&label) != want.len() {
            return Err(format!("label_node_count({label}) = {}, nodes carrying it: {want:?}", store.label_node_count(&label)));
        }
    }

    // ---- relationships by id
    let max_e = m.ever_edges.iter().max().copied().unwrap_or(0);
    let probes_e: Vec<u64> = std::iter::once(0).chain(m.ever_edges.iter().copied()).chain(std::iter::once(max_e + 1)).collect();
    for &id in &probes_e {
        let eid = EdgeId::new(id);
        let live = m.edges.get(&id).cloned();
        if store.has_edge(eid) != live.is_some() {
            return Err(format!("has_edge({id}) = {}, the graph {} relationship {id}", store.has_edge(eid), if live.is_some() { "holds" } else { "does not hold" }));
        }
        let ge = store.get_edge(eid);
        let gp = store.get_edge_endpoints(eid).map(|(a, b)| (a.as_u64(), b.as_u64()));
        let gt = store.get_edge_type(eid).map(|t| t.as_str().to_string());
        match &live {
            None => {
                if ge.is_some() || gp.is_some() || gt.is_some() {
                    return Err(format!("relationship id {id} is not in the graph, but get_edge={:?} endpoints={gp:?} type={gt:?}", ge.map(|e| (e.source.as_u64(), e.target.as_u64()))));
                }
            }
            Some(w) => {
                match ge {
                    Some(e) => edge_matches(&e, id, w)?,
                    None => return Err(format!("get_edge({id}) = None, the graph holds ({})-[{}]->({})", w.src, TYPES[w.ty as usize], w.dst)),
                }
                if gp != Some((w.src, w.dst)) || gt.as_deref() != Some(TYPES[w.ty as usize]) {
                    return Err(format!("relationship {id}: endpoints {gp:?} type {gt:?}, the graph holds ({})-[{}]->({})", w.src, TYPES[w.ty as usize], w.dst));
                }
                // column store of the relationship: nothing the relationship does not hold
                for (ki, k) in EKEYS.iter().enumerate() {
                    let cv = store.edge_columns.get_property(id as usize, k);
                    let wv: Option<&PropertyValue> = if m.q.edgecol { m.residue.get(&id).and_then(|r| r.get(&(ki as u8))) } else { w.props.get(&(ki as u8)) };
                    if m.q.edgecol {
                        let lv = w.props.get(&(ki as u8));
                        if lv.map(canon) != wv.map(canon) {
                            m.used_edgecol = true;
                        }
                        if wv.map(canon) != (if cv.is_null() { None } else { Some(canon(&cv)) }) {
                            return Err(format!("relationship {id} column store holds {k}={}, expected {:?} (leftover of previous owners included)", canon(&cv), wv.map(canon)));
                        }
                    } else if !cv.is_null() && wv.map_or(true, |wv| !pv_eq(wv, &cv)) {
                        return Err(format!("relationship {id} column store (what r.{k} reads first) holds {k}={}, the relationship's properties are {:?}", canon(&cv), w.props));
                    }
                }
            }
        }
    }
    let alle = store.all_edges();
    let mut alle_ids: Vec<u64> = alle.iter().map(|e| e.id.as_u64()).collect();
    alle_ids.sort();
    if alle_ids != m.edges.keys().copied().collect::<Vec<_>>() {
        return Err(format!("all_edges() ids = {alle_ids:?}, the graph holds {:?}", m.edges.keys().collect::<Vec<_>>()));
    }
    for e in &alle {
        edge_matches(e, e.id.as_u64(), &m.edges[&e.id.as_u64()])?;
        if !store.has_node(e.source) || !store.has_node(e.target) {
            return Err(format!("relationship {} dangles: ({})->({}) with a missing endpoint", e.id, e.source, e.target));
        }
    }
    let want_count = m.expected_edge_count();
    if store.edge_count() != want_count {
        return Err(format!("edge_count() = {}, the graph holds {} relationships", store.edge_count(), want_count));
    }
    for ti in 0..3u8 {
        let (ty, want): (EdgeType, Vec<u64>) = if ti < 2 { (type_of(ti), m.edges.iter().filter(|(_, e)| e.ty == ti).map(|(k, _)| *k).collect()) } else { (EdgeType::new("Z"), vec![]) };
        let mut got: Vec<u64> = store.get_edges_by_type(&ty).iter().map(|e| e.id.as_u64()).collect();
        got.sort();
        if got != want {
            return Err(format!("get_edges_by_type({ty}) = {got:?}, relationships of that type: {want:?}"));
        }
        if store.edge_type_count(&ty) != want.len() {
            return Err(format!("edge_type_count({ty}) = {}, relationships of that type: {want:?}", store.edge_type_count(&ty)));
        }
    }

    let listed_types: BTreeSet<String> = store.all_edge_types().iter().map(|t| t.as_str().to_string()).collect();
    for e in m.edges.values() {
        if !listed_types.contains(TYPES[e.ty as usize]) {
            return Err(format!("all_edge_types() = {listed_types:?} misses {}, which live relationships carry", TYPES[e.ty as usize]));
        }
    }
    let listed_labels: BTreeSet<String> = store.all_labels().iter().map(|l| l.as_str().to_string()).collect();
    for n in m.nodes.values() {
        for l in &n.labels {
            if !listed_labels.contains(LABELS[*l as usize]) {
                return Err(format!("all_labels() = {listed_labels:?} misses {}, which live nodes carry", LABELS[*l as usize]));
            }
        }
    }

    // ---- adjacency
    let ever: Vec<u64> = m.ever_nodes.iter().copied().collect();
    for &n in &ever {
        let nid = NodeId::new(n);
        for out in [true, false] {
            let dir = if out { "outgoing" } else { "incoming" };
            let entries = m.entries(n, out);
            if m.q.frozen {
                let (mut a, mut b) = (entries.clone(), m.logical_entries(n, out));
                a.sort();
                b.sort();
                if a != b {
                    m.used_frozen = true;
                }
            }
            let live: Vec<(u64, u64)> = entries.iter().copied().filter(|(_, e)| m.edges.contains_key(e)).collect();
            // get_*_edges
            let got_edges = if out { store.get_outgoing_edges(nid) } else { store.get_incoming_edges(nid) };
            let mut got_ids: Vec<u64> = got_edges.iter().map(|e| e.id.as_u64()).collect();
            got_ids.sort();
            let mut want_ids: Vec<u64> = live.iter().map(|(_, e)| *e).collect();
            want_ids.sort();
            if got_ids != want_ids {
                return Err(format!("get_{dir}_edges({n}) = relationships {got_ids:?}, the graph has {want_ids:?} {dir} at node {n}"));
            }
            for e in &got_edges {
                edge_matches(e, e.id.as_u64(), &m.edges[&e.id.as_u64()])?;
            }
            // for_each_*_neighbor, all filters
            let mut filters: Vec<(String, Option<Vec<u16>>, Option<u8>)> = vec![("any".into(), None, None), ("none".into(), Some(vec![]), Some(9))];
            for ti in 0..2u8 {
                match store.edge_type_id(&type_of(ti)) {
                    Some(t) => filters.push((TYPES[ti as usize].into(), Some(vec![t]), Some(ti))),
                    None => {
                        if live.iter().any(|(_, e)| m.edges[e].ty == ti) {
                            return Err(format!("edge_type_id({}) = None although the graph holds relationships of that type", TYPES[ti as usize]));
                        }
                    }
                }
            }
            for (fname, fids, fty) in &filters {
                let mut got: Vec<(u64, u64)> = Vec::new();
                if out {
                    store.for_each_outgoing_neighbor(nid, fids.as_deref(), |x, e| got.push((x.as_u64(), e.as_u64())));
                } else {
                    store.for_each_incoming_neighbor(nid, fids.as_deref(), |x, e| got.push((x.as_u64(), e.as_u64())));
                }
                got.sort();
                let mut want: Vec<(u64, u64)> = live.iter().copied().filter(|(_, e)| fty.map_or(true, |t| m.edges[e].ty == t)).collect();
                want.sort();
                if got != want {
                    return Err(format!("for_each_{dir}_neighbor({n}, types={fname}) visited (neighbour, relationship) {got:?}, the graph has {want:?}"));
                }
            }
            for ti in 0..2u8 {
                let ty = type_of(ti);
                let mut want: Vec<u64> = live.iter().filter(|(_, e)| m.edges[e].ty == ti).map(|(x, _)| *x).collect();
                want.sort();
                let deg = if out { store.outgoing_degree_for_type(nid, &ty) } else { store.incoming_degree_for_type(nid, &ty) };
                if deg != want.len() {
                    return Err(format!("{dir}_degree_for_type({n}, {ty}) = {deg}, the graph has {} such relationships at node {n}", want.len()));
                }
                let mut got: Vec<u64> = Vec::new();
                if out {
                    store.for_each_outgoing_neighbor_of_type(nid, &ty, |x| got.push(x.as_u64()));
                } else {
                    store.for_each_incoming_neighbor_of_type(nid, &ty, |x| got.push(x.as_u64()));
                }
                got.sort();
                if got != want {
                    return Err(format!("for_each_{dir}_neighbor_of_type({n}, {ty}) visited {got:?}, the graph has neighbours {want:?}"));
                }
            }
            // lightweight tuples
            let tuples = if out { store.get_outgoing_edge_targets(nid) } else { store.get_incoming_edge_sources(nid) };
            let mut got: Vec<(u64, u64, u64, String)> = tuples.iter().map(|(e, s, t, ty)| (e.as_u64(), s.as_u64(), t.as_u64(), ty.as_str().to_string())).collect();
            got.sort();
            let mut want: Vec<(u64, u64, u64, String)> = live.iter().map(|(x, e)| if out { (*e, n, *x, TYPES[m.edges[e].ty as usize].to_string()) } else { (*e, *x, n, TYPES[m.edges[e].ty as usize].to_string()) }).collect();
            want.sort();
            if got != want {
                return Err(format!("get_{dir}_edge_{}({n}) = {got:?}, the graph has {want:?}", if out { "targets" } else { "sources" }));
            }
        }
    }
    // ---- relationships between
    for &s in &ever {
        for &d in &ever {
            for tyi in [None, Some(0u8), Some(1u8)] {
                let ty = tyi.map(type_of);
                let want = m.expected_between(s, d, tyi);
                let mut got: Vec<u64> = store.edges_between(NodeId::new(s), NodeId::new(d), ty.as_ref()).iter().map(|e| e.as_u64()).collect();
                got.sort();
                if got != want {
                    return Err(format!("edges_between({s}, {d}, {:?}) = {got:?}, the graph has {want:?}", tyi.map(|t| TYPES[t as usize])));
                }
                let one = store.edge_between(NodeId::new(s), NodeId::new(d), ty.as_ref()).map(|e| e.as_u64());
                match one {
                    None if !want.is_empty() => return Err(format!("edge_between({s}, {d}, {:?}) = None, the graph has {want:?}", tyi.map(|t| TYPES[t as usize]))),
                    Some(x) if !want.contains(&x) => return Err(format!("edge_between({s}, {d}, {:?}) = {x}, the graph has {want:?}", tyi.map(|t| TYPES[t as usize]))),
                    _ => {}
                }
            }
        }
    }
    Ok(())
}

#[derive(Default, Clone, Debug)]
struct RunInfo {
    last_applied: bool,
    nontrivial: bool,
    delete_after_compact: bool,
    id_reuse: bool,
    skipped: u32,
    applied: u32,
    compactions: u32,
    bulk_blocks: u32,
    chunked_blocks: u32,
    finish_on_empty_buffer: u32,
    used: Vec<&'static str>,
}

/// Run a sequence on a fresh store against the model under quirk switches `q`.
/// `check_all`: compare after every step (else only after the last one).
fn c06_run(ops: &[GOp], q: Q6, max_slots: usize, check_all: bool) -> Result<RunInfo, String> {
    let mut store = GraphStore::new();
    let mut m = Model::new(q, max_slots);
    let mut info = RunInfo::default();
    for (i, op) in ops.iter().enumerate() {
        let applied = c06_exec(&mut store, &mut m, op).map_err(|e| format!("step {i} ({op:?}): {e}"))?;
        info.last_applied = applied;
        if applied {
            info.applied += 1;
        } else {
            info.skipped += 1;
        }
        if applied && (check_all || i + 1 == ops.len()) {
            c06_compare(&store, &mut m).map_err(|e| format!("after step {i} ({op:?}): {e}"))?;
        }
    }
    info.delete_after_compact = m.nt_delete_after_compact;
    info.id_reuse = m.nt_id_reuse;
    info.nontrivial = m.nt_delete_after_compact || m.nt_id_reuse;
    info.compactions = m.compactions;
    info.bulk_blocks = m.bulk_blocks;
    info.chunked_blocks = m.chunked_blocks;
    info.finish_on_empty_buffer = m.finish_on_empty_buffer;
    if m.used_frozen {
        info.used.push("KF-C06-1");
    }
    if m.used_edgecol {
        info.used.push("KF-C06-2");
    }
    if m.used_multiseg {
        info.used.push("KF-C06-3");
    }
    Ok(info)
}

enum Verdict6 {
    Pass(RunInfo),
    Known(RunInfo),
    Fail(String),
}

/// strict run; on failure, the run under the enabled quirk switches decides known / violation
fn c06_judge(ops: &[GOp], active: Q6, max_slots: usize, check_all: bool) -> Verdict6 {
    match catch(|| c06_run(ops, Q6::default(), max_slots, check_all)) {
        Ok(Ok(i)) => Verdict6::Pass(i),
        Ok(Err(msg)) | Err(msg) => {
            if !active.any() {
                return Verdict6::Fail(msg);
            }
            match catch(|| c06_run(ops, active, max_slots, check_all)) {
                Ok(Ok(i)) if !i.used.is_empty() => Verdict6::Known(i),
                Ok(Ok(_)) => Verdict6::Fail(format!("{msg} [not explained: no quirk switch changed an answer]")),
                Ok(Err(m2)) | Err(m2) => Verdict6::Fail(format!("{m2} [strict model: {msg}]")),
            }
        }
    }
}

fn c06_alphabet() -> Vec<GOp> {
    let mut a = vec![
        GOp::CreateNode { labels: vec![0] },
        GOp::CreateNode { labels: vec![1] },
        GOp::CreateNode { labels: vec![] },
        GOp::CreateNodeProps { labels: vec![0, 1], props: vec![(0, 1)] },
    ];
    for s in 0..3u8 {
        for d in 0..3u8 {
            a.push(GOp::CreateEdge { src: s, dst: d, ty: 0 });
        }
    }
    a.push(GOp::CreateEdge { src: 0, dst: 1, ty: 1 });
    a.push(GOp::CreateEdge { src: 1, dst: 0, ty: 1 });
    a.push(GOp::CreateEdge { src: 0, dst: 0, ty: 1 });
    a.push(GOp::CreateEdgeProps { src: 0, dst: 1, ty: 0, props: vec![(0, 1)] });
    a.push(GOp::CreateEdgeProps { src: 0, dst: 0, ty: 1, props: vec![(0, 1), (1, 3)] });
    for n in 0..3u8 {
        a.push(GOp::DeleteEdge { nth: n });
    }
    for s in 0..3u8 {
        a.push(GOp::DeleteNode { slot: s });
    }
    a.push(GOp::AddLabel { slot: 0, label: 1 });
    a.push(GOp::RemoveLabel { slot: 0, label: 0 });
    a.push(GOp::RemoveLabel { slot: 1, label: 1 });
    a.push(GOp::SetProp { slot: 0, key: 0, val: 2 });
    a.push(GOp::SetProp { slot: 1, key: 1, val: 3 });
    a.push(GOp::RemoveProp { slot: 0, key: 0 });
    a.push(GOp::SetEdgeProp { nth: 0, key: 1, val: 4 });
    a.push(GOp::RemoveEdgeProp { nth: 0, key: 0 });
    a.push(GOp::Compact);
    a.push(GOp::Bulk { stubs: vec![0], cols: vec![(NRef::New(0), 0, 1)], edges: vec![], compactions: vec![] });
    a.push(GOp::Bulk { stubs: vec![], cols: vec![], edges: vec![(NRef::Slot(0), NRef::Slot(1), 0, None)], compactions: vec![] });
    a.push(GOp::Bulk { stubs: vec![1], cols: vec![(NRef::Slot(0), 1, 2)], edges: vec![(NRef::Slot(0), NRef::New(0), 0, None)], compactions: vec![] });
    a.push(GOp::Bulk { stubs: vec![0, 1], cols: vec![(NRef::New(1), 0, 3)], edges: vec![(NRef::New(1), NRef::New(0), 1, None), (NRef::New(0), NRef::New(0), 0, Some(1)), (NRef::New(1), NRef::New(0), 0, None)], compactions: vec![] });
    // chunked loads: compaction inside the block, finish_bulk_load on an empty / non-empty buffer
    a.push(GOp::Bulk { stubs: vec![], cols: vec![], edges: vec![(NRef::Slot(0), NRef::Slot(1), 0, None)], compactions: vec![(255, 0)] });
    a.push(GOp::Bulk { stubs: vec![1], cols: vec![], edges: vec![(NRef::Slot(0), NRef::New(0), 0, None), (NRef::New(0), NRef::Slot(0), 1, None)], compactions: vec![(0, 1)] });
    a.push(GOp::Bulk { stubs: vec![0], cols: vec![], edges: vec![(NRef::New(0), NRef::New(0), 1, None), (NRef::Slot(0), NRef::New(0), 0, None)], compactions: vec![(0, 0), (1, 1)] });
    a
}

fn c06_op_strategy(slots: u8) -> BoxedStrategy<GOp> {
    let labels = || prop_oneof![4 => (0..2u8).prop_map(|l| vec![l]), 1 => Just(vec![0u8, 1u8]), 1 => Just(Vec::<u8>::new())];
    let props = || proptest::collection::vec((0..2u8, 0..6i64), 0..3);
    let nref = move || prop_oneof![3 => (0..slots).prop_map(NRef::Slot), 2 => (0..2u8).prop_map(NRef::New)];
    prop_oneof![
        4 => labels().prop_map(|labels| GOp::CreateNode { labels }),
        2 => (labels(), props()).prop_map(|(labels, props)| GOp::CreateNodeProps { labels, props }),
        8 => (0..slots, 0..slots, 0..2u8).prop_map(|(src, dst, ty)| GOp::CreateEdge { src, dst, ty }),
        3 => (0..slots, 0..slots, 0..2u8, props()).prop_map(|(src, dst, ty, props)| GOp::CreateEdgeProps { src, dst, ty, props }),
        6 => (0..6u8).prop_map(|nth| GOp::DeleteEdge { nth }),
        3 => (0..slots).prop_map(|slot| GOp::DeleteNode { slot }),
        1 => (0..slots, 0..2u8).prop_map(|(slot, label)| GOp::AddLabel { slot, label }),
        1 => (0..slots, 0..2u8).prop_map(|(slot, label)| GOp::RemoveLabel { slot, label }),
        2 => (0..slots, 0..2u8, 0..6i64).prop_map(|(slot, key, val)| GOp::SetProp { slot, key, val }),
        1 => (0..slots, 0..2u8).prop_map(|(slot, key)| GOp::RemoveProp { slot, key }),
        1 => (0..6u8, 0..2u8, 0..6i64).prop_map(|(nth, key, val)| GOp::SetEdgeProp { nth, key, val }),
        1 => (0..6u8, 0..2u8).prop_map(|(nth, key)| GOp::RemoveEdgeProp { nth, key }),
        4 => Just(GOp::Compact),
        4 => (
            proptest::collection::vec(0..2u8, 0..3),
            proptest::collection::vec((nref(), 0..2u8, 0..6i64), 0..3),
            proptest::collection::vec((nref(), nref(), 0..2u8, prop_oneof![3 => Just(None), 1 => (0..6i64).prop_map(Some)]), 0..5),
            prop_oneof![2 => Just(Vec::new()), 3 => proptest::collection::vec((prop_oneof![3 => 0..4u8, 2 => Just(255u8)], 0..3u8), 1..=2)]
        )
            .prop_map(|(stubs, cols, edges, compactions)| GOp::Bulk { stubs, cols, edges, compactions }),
    ]
    .boxed()
}

#[derive(Clone, Debug, Serialize, Deserialize)]
struct Case6 {
    slots: usize,
    ops: Vec<GOp>,
}

fn c06(args: &Args) {
    let mut ev = Evidence::new(
        args,
        "exploration",
        "operation sequences over {create_node / create_node_with_labels / create_node_with_properties, create_edge(_with_properties), delete_edge, delete_node, add/remove label, set/remove node and relationship property, compact_adjacency, bulk block (create_node_stub, set_column_property, create_edge_stub / create_edge_with_properties, optionally chunked by compact_adjacency / compact_adjacency_if_needed between relationships or right before the end, closed by finish_bulk_load)} on 3 (exhaustive) or 5 (random) node slots, labels {A,B}, types {R,S}: bounded-exhaustive over a fixed alphabet (every prefix is a case, compared after its last step) plus random sequences to length 80 (compared after every step); every read view named in the property compared with a plain reference graph. Non-trivial = the sequence deletes a relationship that was compacted into the frozen tier before, or a node/relationship id is handed out a second time; distinct = distinct op sequences.",
    );
    ev.assume("bulk-block preconditions taken from snapshot import: stubs and set_column_property only for keys the node does not hold yet, relationship stubs only between live nodes, block always closed by finish_bulk_load and not observed in between");
    ev.assume("single MVCC version (current_version never advanced): versioned reads are C07's subject");
    ev.assume("planner statistics (GraphCatalog estimates) are not asserted; label_node_count / edge_type_count (exact index sizes) are");
    let kf = Known::load(args);
    let gag = gag_stderr();

    if let Some(p) = &args.replay {
        let case: Case6 = serde_json::from_value(load_replay(p)).expect("replay case");
        ev.case();
        let v = c06_judge(&case.ops, Q6::default(), case.slots, true);
        ungag_stderr(gag);
        match v {
            Verdict6::Pass(_) | Verdict6::Known(_) => println!("replay: property held"),
            Verdict6::Fail(m) => {
                report_violation(&mut ev, &json!(case), &m);
            }
        }
        ev.nontrivial(&case.ops);
        ev.nontrivial(&"replay");
        ev.sample(json!(case));
        finish(&ev);
    }

    // known findings: replay each witness through the strict oracle
    let mut active = Q6::default();
    for (id, field) in [("KF-C06-1", 0), ("KF-C06-2", 1), ("KF-C06-3", 2)] {
        if let Some(w) = witness_case(&kf, id) {
            let case: Case6 = serde_json::from_value(w).expect("witness case");
            let still = matches!(c06_judge(&case.ops, Q6::default(), case.slots, true), Verdict6::Fail(_));
            let on = kf.witness_result(&mut ev, id, still);
            if on {
                match field {
                    0 => active.frozen = true,
                    1 => active.edgecol = true,
                    _ => active.multiseg = true,
                }
            }
        }
    }
    ev.set("quirk_switches_enabled", json!({"frozen_tier_stale": active.frozen, "edge_columns_leftover": active.edgecol, "multi_segment_search": active.multiseg}));

    let mut failure: Option<(Case6, String)> = None;
    let account = |ev: &mut Evidence, ops: &[GOp], v: &Verdict6, tag: &str| match v {
        Verdict6::Pass(i) | Verdict6::Known(i) => {
            if i.nontrivial {
                ev.nontrivial(ops);
                ev.class(&format!("{tag}_nontrivial"));
                if ev.want_sample() && ops.len() >= 4 {
                    ev.sample(json!(ops));
                }
            }
            if i.delete_after_compact {
                ev.class("delete_after_compaction");
            }
            if i.id_reuse {
                ev.class("id_reuse");
            }
            if i.bulk_blocks > 0 {
                ev.class("has_bulk_block");
            }
            if i.chunked_blocks > 0 {
                ev.class("bulk_block_chunked_by_compaction");
            }
            if i.finish_on_empty_buffer > 0 {
                ev.class("finish_bulk_load_on_empty_write_buffer");
            }
            if i.compactions > 1 {
                ev.class("multi_segment");
            }
            if tag == "random" {
                ev.class_n("random_ops_applied", i.applied as u64);
                ev.class_n("random_ops_not_applicable", i.skipped as u64);
            }
            if let Verdict6::Known(i) = v {
                for k in &i.used {
                    ev.kf_hit(k);
                }
            }
        }
        Verdict6::Fail(_) => {}
    };

    // regression corpus first
    for (p, case) in corpus_cases("C06") {
        let case: Case6 = serde_json::from_value(case).expect("corpus case");
        ev.case();
        ev.class("corpus");
        let v = c06_judge(&case.ops, active, case.slots, true);
        account(&mut ev, &case.ops, &v, "corpus");
        if let Verdict6::Fail(m) = v {
            failure = Some((case, format!("{m} (corpus {})", p.display())));
            break;
        }
    }

    // bounded-exhaustive: every applicable sequence over the alphabet up to `depth`
    let depth = args.tier.pick(4usize, 5usize);
    let alphabet = c06_alphabet();
    if failure.is_none() {
        fn dfs(depth: usize, alphabet: &[GOp], stack: &mut Vec<GOp>, active: Q6, ev: &mut Evidence, failure: &mut Option<(Case6, String)>, account: &dyn Fn(&mut Evidence, &[GOp], &Verdict6, &str)) {
            for op in alphabet {
                stack.push(op.clone());
                let v = c06_judge(stack, active, 3, false);
                let applied = match &v {
                    Verdict6::Pass(i) | Verdict6::Known(i) => i.last_applied,
                    Verdict6::Fail(_) => true,
                };
                if applied {
                    ev.case();
                    ev.class("exhaustive");
                    account(ev, stack, &v, "exhaustive");
                    if let Verdict6::Fail(m) = v {
                        *failure = Some((Case6 { slots: 3, ops: stack.clone() }, m));
                        stack.pop();
                        return;
                    }
                    if stack.len() < depth {
                        dfs(depth, alphabet, stack, active, ev, failure, account);
                        if failure.is_some() {
                            stack.pop();
                            return;
                        }
                    }
                }
                stack.pop();
            }
        }
        let mut stack = Vec::new();
        dfs(depth, &alphabet, &mut stack, active, &mut ev, &mut failure, &account);
        ev.exhaustive = Some(failure.is_none());
        ev.set("exhaustive_bound", json!({"depth": depth, "alphabet_ops": alphabet.len(), "node_slots": 3}));
    }

    // random longer sequences
    if failure.is_none() {
        let n = args.tier.pick(3000u32, 60_000u32);
        let strat = proptest::collection::vec(c06_op_strategy(5), 1..=80);
        let evc = RefCell::new(&mut ev);
        let res = search(args.seed, n, &strat, |ops| {
            let mut e = evc.borrow_mut();
            e.case();
            e.class("random");
            let v = c06_judge(ops, active, 5, true);
            account(&mut e, ops, &v, "random");
            match v {
                Verdict6::Fail(m) => {
                    e.frozen = true;
                    Err(m)
                }
                _ => Ok(()),
            }
        });
        drop(evc);
        if let Some((ops, msg)) = res {
            failure = Some((Case6 { slots: 5, ops }, msg));
        }
    }

    ungag_stderr(gag);
    if let Some((case, msg)) = failure {
        ev.frozen = true;
        let g2 = gag_stderr();
        let slots = case.slots;
        let fails = |cand: &[GOp]| -> bool { matches!(c06_judge(cand, active, slots, true), Verdict6::Fail(_)) };
        let min = shrink_vec(case.ops.clone(), &fails);
        let msg2 = match c06_judge(&min, active, slots, true) {
            Verdict6::Fail(m) => m,
            _ => msg,
        };
        ungag_stderr(g2);
        report_violation(&mut ev, &json!(Case6 { slots, ops: min }), &msg2);
    }
    finish(&ev);
}


// =======================================================================================
// C10
// =======================================================================================

/// Quirk switches of the reference order = confirmed deviations (known findings).
#[derive(Clone, Copy, PartialEq, Eq, Debug, Default)]
struct Q10 {
    /// KF-C10-1: floats among themselves by total_cmp (negative NaN first) although Integer sorts below every NaN
    negnan: bool,
    /// KF-C10-2: cmp and hash tell +0.0 from -0.0 (bit patterns), == does not
    zerobits: bool,
    /// KF-C10-3: == is IEEE (NaN != NaN) while cmp(NaN, NaN) = Equal
    naneq: bool,
}
impl Q10 {
    fn subsets_of(active: Q10) -> Vec<Q10> {
        let mut v = Vec::new();
        for bits in 0..8u8 {
            let q = Q10 { negnan: bits & 1 != 0, zerobits: bits & 2 != 0, naneq: bits & 4 != 0 };
            if (q.negnan && !active.negnan) || (q.zerobits && !active.zerobits) || (q.naneq && !active.naneq) {
                continue;
            }
            v.push(q);
        }
        v.sort_by_key(|q| q.negnan as u8 + q.zerobits as u8 + q.naneq as u8);
        v
    }
    fn ids(&self) -> Vec<&'static str> {
        let mut v = Vec::new();
        if self.negnan {
            v.push("KF-C10-1");
        }
        if self.zerobits {
            v.push("KF-C10-2");
        }
        if self.naneq {
            v.push("KF-C10-3");
        }
        v
    }
}

fn cz64(f: f64, q: Q10) -> f64 {
    if !q.zerobits && f == 0.0 {
        0.0
    } else {
        f
    }
}
fn cz32(f: f32, q: Q10) -> f32 {
    if !q.zerobits && f == 0.0 {
        0.0
    } else {
        f
    }
}

fn m_bucket(v: &PropertyValue) -> u8 {
    use PropertyValue::*;
    match v {
        Boolean(_) => 0,
        Integer(_) | Float(_) => 1,
        String(_) => 2,
        DateTime(_) => 3,
        Array(_) => 4,
        Map(_) => 5,
        Vector(_) => 6,
        Duration { .. } => 7,
        Null => 8,
    }
}

/// Reference order: the engine's documented order (numbers by value across Integer/Float with
/// Integer first on ties, NaNs where total_cmp puts them, buckets Boolean < number < String <
/// DateTime < Array < Map < Vector < Duration < Null), lawful when every switch is off.
fn m_cmp(a: &PropertyValue, b: &PropertyValue, q: Q10) -> Ordering {
    use PropertyValue::*;
    match (a, b) {
        (Integer(x), Integer(y)) => x.cmp(y),
        // lawful placement of NaN: after every number (where Integer already puts it and where
        // cypher_order puts it), NaNs among themselves by bit pattern. Quirk: plain total_cmp,
        // which puts the negative NaNs first.
        (Float(x), Float(y)) => {
            if !q.negnan && x.is_nan() != y.is_nan() {
                if x.is_nan() {
                    Ordering::Greater
                } else {
                    Ordering::Less
                }
            } else {
                cz64(*x, q).total_cmp(&cz64(*y, q))
            }
        }
        (Integer(x), Float(y)) => (*x as f64).partial_cmp(y).unwrap_or(Ordering::Less).then(Ordering::Less),
        (Float(x), Integer(y)) => x.partial_cmp(&(*y as f64)).unwrap_or(Ordering::Greater).then(Ordering::Greater),
        (Boolean(x), Boolean(y)) => x.cmp(y),
        (String(x), String(y)) => x.cmp(y),
        (DateTime(x), DateTime(y)) => x.cmp(y),
        (Array(x), Array(y)) => {
            for (xi, yi) in x.iter().zip(y.iter()) {
                let c = m_cmp(xi, yi, q);
                if c != Ordering::Equal {
                    return c;
                }
            }
            x.len().cmp(&y.len())
        }
        (Vector(x), Vector(y)) => x.iter().map(|f| cz32(*f, q).to_bits()).cmp(y.iter().map(|f| cz32(*f, q).to_bits())),
        (Duration { months: m1, days: d1, seconds: s1, nanos: n1 }, Duration { months: m2, days: d2, seconds: s2, nanos: n2 }) => m1.cmp(m2).then(d1.cmp(d2)).then(s1.cmp(s2)).then(n1.cmp(n2)),
        (Null, Null) => Ordering::Equal,
        (Map(x), Map(y)) => {
            let mut kx: Vec<_> = x.keys().collect();
            let mut ky: Vec<_> = y.keys().collect();
            kx.sort();
            ky.sort();
            for (a, b) in kx.iter().zip(ky.iter()) {
                match a.cmp(b) {
                    Ordering::Equal => {}
                    o => return o,
                }
            }
            if kx.len() != ky.len() {
                return kx.len().cmp(&ky.len());
            }
            for k in kx {
                match m_cmp(&x[k], &y[k], q) {
                    Ordering::Equal => {}
                    o => return o,
                }
            }
            Ordering::Equal
        }
        (a, b) => m_bucket(a).cmp(&m_bucket(b)),
    }
}

/// Reference equality: with every switch off, "same value" = m_cmp Equal. Under `naneq` it is
/// the derived (IEEE) equality for NaNs; signed zeros are equal in either case.
fn m_eq(a: &PropertyValue, b: &PropertyValue, q: Q10) -> bool {
    use PropertyValue::*;
    fn f64eq(x: f64, y: f64, q: Q10) -> bool {
        if x.is_nan() || y.is_nan() {
            !q.naneq && x.to_bits() == y.to_bits()
        } else {
            x == y
        }
    }
    fn f32eq(x: f32, y: f32, q: Q10) -> bool {
        if x.is_nan() || y.is_nan() {
            !q.naneq && x.to_bits() == y.to_bits()
        } else {
            x == y
        }
    }
    match (a, b) {
        (Float(x), Float(y)) => f64eq(*x, *y, q),
        (Vector(x), Vector(y)) => x.len() == y.len() && x.iter().zip(y.iter()).all(|(p, r)| f32eq(*p, *r, q)),
        (Array(x), Array(y)) => x.len() == y.len() && x.iter().zip(y.iter()).all(|(p, r)| m_eq(p, r, q)),
        (Map(x), Map(y)) => x.len() == y.len() && x.iter().all(|(k, v)| y.get(k).map_or(false, |w| m_eq(v, w, q))),
        (Integer(x), Integer(y)) => x == y,
        (String(x), String(y)) => x == y,
        (Boolean(x), Boolean(y)) => x == y,
        (DateTime(x), DateTime(y)) => x == y,
        (Duration { months: m1, days: d1, seconds: s1, nanos: n1 }, Duration { months: m2, days: d2, seconds: s2, nanos: n2 }) => m1 == m2 && d1 == d2 && s1 == s2 && n1 == n2,
        (Null, Null) => true,
        _ => false,
    }
}

/// What the hash distinguishes: typed canonical text, floats by bit pattern (zeros folded
/// unless `zerobits`).
fn m_key(v: &PropertyValue, q: Q10) -> String {
    use PropertyValue::*;
    match v {
        Float(f) => format!("F{:016x}", cz64(*f, q).to_bits()),
        Vector(x) => format!("V[{}]", x.iter().map(|f| format!("{:08x}", cz32(*f, q).to_bits())).collect::<Vec<_>>().join(",")),
        Array(x) => format!("A[{}]", x.iter().map(|e| m_key(e, q)).collect::<Vec<_>>().join(",")),
        Map(x) => {
            let mut ks: Vec<&std::string::String> = x.keys().collect();
            ks.sort();
            format!("M{{{}}}", ks.iter().map(|k| format!("{:?}:{}", k, m_key(&x[*k], q))).collect::<Vec<_>>().join(","))
        }
        other => canon(other),
    }
}

fn m_cypher(a: &PropertyValue, b: &PropertyValue, q: Q10) -> Ordering {
    use PropertyValue::*;
    fn rank(v: &PropertyValue) -> u8 {
        match v {
            Map(_) => 0,
            Array(_) | Vector(_) => 1,
            String(_) => 2,
            Boolean(_) => 3,
            Integer(_) | Float(_) | DateTime(_) | Duration { .. } => 4,
            Null => 5,
        }
    }
    let (ra, rb) = (rank(a), rank(b));
    if ra != rb {
        return ra.cmp(&rb);
    }
    match (a, b) {
        (Array(x), Array(y)) => {
            for (xi, yi) in x.iter().zip(y.iter()) {
                let c = m_cypher(xi, yi, q);
                if c != Ordering::Equal {
                    return c;
                }
            }
            x.len().cmp(&y.len())
        }
        (Float(x), Float(y)) if x.is_nan() || y.is_nan() => match (x.is_nan(), y.is_nan()) {
            (true, true) => Ordering::Equal,
            (true, false) => Ordering::Greater,
            _ => Ordering::Less,
        },
        _ => m_cmp(a, b, q),
    }
}

fn std_hash(v: &PropertyValue) -> u64 {
    use std::hash::{Hash, Hasher};
    let mut h = std::collections::hash_map::DefaultHasher::new();
    v.hash(&mut h);
    h.finish()
}

/// answers of one implementation (engine or model) for every ordered pair of a value list
#[derive(Clone)]
struct Answers {
    n: usize,
    cmp: Vec<Ordering>,
    cy: Vec<Ordering>,
    eq: Vec<bool>,
    /// hash equality (engine: the two hashes agree for std's hasher and for FNV; model: keys agree)
    heq: Vec<bool>,
}

fn engine_answers(vals: &[PropertyValue]) -> Result<Answers, String> {
    let n = vals.len();
    let h1: Vec<u64> = vals.iter().map(std_hash).collect();
    let h2: Vec<u64> = vals.iter().map(|v| fnv(v)).collect();
    let mut a = Answers { n, cmp: Vec::with_capacity(n * n), cy: Vec::with_capacity(n * n), eq: Vec::with_capacity(n * n), heq: Vec::with_capacity(n * n) };
    for i in 0..n {
        for j in 0..n {
            let (x, y) = (&vals[i], &vals[j]);
            let c = catch(|| x.cmp(y)).map_err(|e| format!("cmp({}, {}) panicked: {e}", canon(x), canon(y)))?;
            let pc = catch(|| x.partial_cmp(y)).map_err(|e| format!("partial_cmp({}, {}) panicked: {e}", canon(x), canon(y)))?;
            if pc != Some(c) {
                return Err(format!("partial_cmp({}, {}) = {pc:?} but cmp = {c:?}", canon(x), canon(y)));
            }
            a.cmp.push(c);
            a.cy.push(catch(|| cypher_order(x, y)).map_err(|e| format!("cypher_order({}, {}) panicked: {e}", canon(x), canon(y)))?);
            a.eq.push(catch(|| x == y).map_err(|e| format!("{} == {} panicked: {e}", canon(x), canon(y)))?);
            a.heq.push(h1[i] == h1[j] && h2[i] == h2[j]);
        }
    }
    Ok(a)
}

fn model_answers(vals: &[PropertyValue], q: Q10) -> Answers {
    let n = vals.len();
    let keys: Vec<String> = vals.iter().map(|v| m_key(v, q)).collect();
    let mut a = Answers { n, cmp: Vec::with_capacity(n * n), cy: Vec::with_capacity(n * n), eq: Vec::with_capacity(n * n), heq: Vec::with_capacity(n * n) };
    for i in 0..n {
        for j in 0..n {
            a.cmp.push(m_cmp(&vals[i], &vals[j], q));
            a.cy.push(m_cypher(&vals[i], &vals[j], q));
            a.eq.push(m_eq(&vals[i], &vals[j], q));
            a.heq.push(keys[i] == keys[j]);
        }
    }
    a
}

/// first law broken by the triple (i, j, k), if any
fn law_broken(a: &Answers, i: usize, j: usize, k: usize) -> Option<&'static str> {
    let n = a.n;
    let at = |x: usize, y: usize| x * n + y;
    // laws of one value (checked on the diagonal i == j == k)
    if i == j && j == k {
        if a.cmp[at(i, i)] != Ordering::Equal {
            return Some("cmp_reflexive");
        }
        if a.cy[at(i, i)] != Ordering::Equal {
            return Some("cypher_reflexive");
        }
    }
    // laws of a pair (checked once per ordered pair, on j == k)
    if j == k {
        if a.cmp[at(i, j)] != a.cmp[at(j, i)].reverse() {
            return Some("cmp_antisymmetric");
        }
        if a.cy[at(i, j)] != a.cy[at(j, i)].reverse() {
            return Some("cypher_antisymmetric");
        }
        if a.eq[at(i, j)] != (a.cmp[at(i, j)] == Ordering::Equal) {
            return Some("eq_iff_cmp_equal");
        }
        if a.eq[at(i, j)] && !a.heq[at(i, j)] {
            return Some("eq_implies_hash_eq");
        }
    }
    // transitivity
    for (m, name) in [(&a.cmp, "cmp_transitive"), (&a.cy, "cypher_transitive")] {
        let (ab, bc, ac) = (m[at(i, j)], m[at(j, k)], m[at(i, k)]);
        if ab != Ordering::Greater && bc != Ordering::Greater {
            if ac == Ordering::Greater {
                return Some(name);
            }
            if (ab == Ordering::Less || bc == Ordering::Less) && ac != Ordering::Less {
                return Some(name);
            }
        }
    }
    None
}

/// do the engine's answers on all pairs among {i,j,k} equal the model's under these switches?
fn answers_match(e: &Answers, m: &Answers, idx: &[usize]) -> bool {
    let n = e.n;
    for &x in idx {
        for &y in idx {
            let p = x * n + y;
            if e.cmp[p] != m.cmp[p] || e.cy[p] != m.cy[p] || e.eq[p] != m.eq[p] {
                return false;
            }
            // the model predicts "same hash" exactly, "different hash" up to collisions
            if m.heq[p] && !e.heq[p] {
                return false;
            }
        }
    }
    true
}

fn special_float(v: &PropertyValue) -> bool {
    use PropertyValue::*;
    match v {
        Float(f) => !f.is_finite() || *f == 0.0,
        Vector(x) => x.iter().any(|f| !f.is_finite() || *f == 0.0),
        Array(x) => x.iter().any(special_float),
        Map(x) => x.values().any(special_float),
        _ => false,
    }
}
fn variant_id(v: &PropertyValue) -> u8 {
    use PropertyValue::*;
    match v {
        String(_) => 0,
        Integer(_) => 1,
        Float(_) => 2,
        Boolean(_) => 3,
        DateTime(_) => 4,
        Array(_) => 5,
        Map(_) => 6,
        Vector(_) => 7,
        Duration { .. } => 8,
        Null => 9,
    }
}

struct LawReport {
    triples: u64,
    /// law -> count of failing triples explained by enabled switches
    known: BTreeMap<String, u64>,
    kf_hits: BTreeMap<&'static str, u64>,
    /// first unexplained failure
    failure: Option<(Vec<usize>, String)>,
}

/// All laws over all ordered triples of `vals`; failures are classified by the smallest set of
/// enabled quirk switches under which the model gives exactly the engine's answers.
fn c10_laws(vals: &[PropertyValue], active: Q10, ev: Option<&mut Evidence>, only: Option<[usize; 3]>) -> LawReport {
    let mut rep = LawReport { triples: 0, known: BTreeMap::new(), kf_hits: BTreeMap::new(), failure: None };
    let e = match engine_answers(vals) {
        Ok(a) => a,
        Err(m) => {
            rep.failure = Some(((0..vals.len().min(3)).collect(), m));
            return rep;
        }
    };
    let subsets = Q10::subsets_of(active);
    let models: Vec<(Q10, Answers)> = subsets.iter().map(|q| (*q, model_answers(vals, *q))).collect();
    let n = vals.len();
    let hashes: Vec<u64> = vals.iter().map(|v| fnv_str(&canon(v))).collect();
    let special: Vec<bool> = vals.iter().map(special_float).collect();
    let variant: Vec<u8> = vals.iter().map(variant_id).collect();
    let mut ev = ev;
    for i in 0..n {
        for j in 0..n {
            for k in 0..n {
                if only.map_or(false, |o| o != [i, j, k]) {
                    continue;
                }
                rep.triples += 1;
                if let Some(ev) = ev.as_deref_mut() {
                    let mixed = variant[i] != variant[j] || variant[j] != variant[k];
                    let sp = special[i] || special[j] || special[k];
                    if mixed || sp {
                        ev.nontrivial_hash(hashes[i].wrapping_mul(0x9E3779B97F4A7C15) ^ hashes[j].rotate_left(21) ^ hashes[k].rotate_left(42).wrapping_mul(31));
                    }
                    if mixed {
                        ev.class("triple_mixed_variants");
                    }
                    if sp {
                        ev.class("triple_with_nonfinite_or_zero_float");
                    }
                }
                let law = match law_broken(&e, i, j, k) {
                    Some(l) => l,
                    None => continue,
                };
                let idx = [i, j, k];
                let mut explained = None;
                for (q, m) in &models {
                    if (q.negnan || q.zerobits || q.naneq) && answers_match(&e, m, &idx) {
                        explained = Some(*q);
                        break;
                    }
                }
                match explained {
                    Some(q) => {
                        *rep.known.entry(law.to_string()).or_insert(0) += 1;
                        for id in q.ids() {
                            *rep.kf_hits.entry(id).or_insert(0) += 1;
                        }
                    }
                    None => {
                        if rep.failure.is_none() {
                            let at = |x: usize, y: usize| x * n + y;
                            let d = format!(
                                "law {law} broken by a={} b={} c={}: cmp(a,b)={:?} cmp(b,c)={:?} cmp(a,c)={:?} cmp(b,a)={:?}; cypher_order(a,b)={:?} (b,c)={:?} (a,c)={:?} (b,a)={:?}; a==b {} hash-equal {}",
                                canon(&vals[i]),
                                canon(&vals[j]),
                                canon(&vals[k]),
                                e.cmp[at(i, j)],
                                e.cmp[at(j, k)],
                                e.cmp[at(i, k)],
                                e.cmp[at(j, i)],
                                e.cy[at(i, j)],
                                e.cy[at(j, k)],
                                e.cy[at(i, k)],
                                e.cy[at(j, i)],
                                e.eq[at(i, j)],
                                e.heq[at(i, j)]
                            );
                            rep.failure = Some((idx.to_vec(), d));
                        }
                    }
                }
            }
        }
    }
    rep
}

// ---- consequences: sorting and the property index

fn perms_of(n: usize) -> Vec<Vec<usize>> {
    let id: Vec<usize> = (0..n).collect();
    let mut rev = id.clone();
    rev.reverse();
    let mut rot = id.clone();
    rot.rotate_left(n / 2);
    let inter: Vec<usize> = id.iter().copied().filter(|i| i % 2 == 0).chain(id.iter().copied().filter(|i| i % 2 == 1)).collect();
    let mut rot1 = rev.clone();
    rot1.rotate_left(n / 3);
    vec![id, rev, rot, inter, rot1]
}

/// canonical rendering of a sort outcome (Err = the sort panicked)
type SortOut = Result<Vec<String>, String>;

fn sort_with(vals: &[PropertyValue], perm: &[usize], cmp: &dyn Fn(&PropertyValue, &PropertyValue) -> Ordering) -> (SortOut, Vec<PropertyValue>) {
    let mut v: Vec<PropertyValue> = perm.iter().map(|i| vals[*i].clone()).collect();
    let r = catch(|| {
        v.sort_by(|a, b| cmp(a, b));
    });
    match r {
        Ok(()) => (Ok(v.iter().map(canon).collect()), v),
        Err(_) => (Err("sort panicked".to_string()), Vec::new()),
    }
}

/// Sorting every permutation must give the same sequence (up to the order's own equivalence).
/// Returns Err(message) on a strict failure.
fn sort_consequence(vals: &[PropertyValue], which: &str) -> Result<(), String> {
    let engine_cmp: &dyn Fn(&PropertyValue, &PropertyValue) -> Ordering = if which == "ord" { &|a, b| a.cmp(b) } else { &|a, b| cypher_order(a, b) };
    let perms = perms_of(vals.len());
    let mut first: Option<Vec<PropertyValue>> = None;
    let mut input: Vec<String> = vals.iter().map(canon).collect();
    input.sort();
    for p in &perms {
        let (out, sorted) = sort_with(vals, p, engine_cmp);
        let out = out.map_err(|_| format!("sort ({which}) of permutation {p:?} panicked (std detected an inconsistent total order)"))?;
        let mut o2 = out.clone();
        o2.sort();
        if o2 != input {
            return Err(format!("sort ({which}) output is not a permutation of its input"));
        }
        for w in sorted.windows(2) {
            if engine_cmp(&w[0], &w[1]) == Ordering::Greater {
                return Err(format!("sort ({which}) of permutation {p:?} left {} before {} although the first compares Greater", canon(&w[0]), canon(&w[1])));
            }
        }
        match &first {
            None => first = Some(sorted),
            Some(f) => {
                for (x, y) in f.iter().zip(sorted.iter()) {
                    if engine_cmp(x, y) != Ordering::Equal {
                        return Err(format!("sort ({which}) depends on the input order: permutation {:?} gives {:?}, permutation {p:?} gives {out:?}", perms[0], f.iter().map(canon).collect::<Vec<_>>()));
                    }
                }
            }
        }
    }
    Ok(())
}

/// Is the engine's sorting behaviour on this list exactly what the model comparator under `q`
/// produces (same std sort, same answers => same outputs, panics included)?
fn sort_matches_model(vals: &[PropertyValue], which: &str, q: Q10) -> bool {
    let engine_cmp: &dyn Fn(&PropertyValue, &PropertyValue) -> Ordering = if which == "ord" { &|a, b| a.cmp(b) } else { &|a, b| cypher_order(a, b) };
    let model_cmp = move |a: &PropertyValue, b: &PropertyValue| if which == "ord" { m_cmp(a, b, q) } else { m_cypher(a, b, q) };
    for p in perms_of(vals.len()) {
        let (eo, _) = sort_with(vals, &p, engine_cmp);
        let (mo, _) = sort_with(vals, &p, &model_cmp);
        if eo != mo {
            return false;
        }
    }
    true
}

#[derive(Clone, Debug)]
struct MKey(PropertyValue, Q10);
impl PartialEq for MKey {
    fn eq(&self, o: &Self) -> bool {
        m_cmp(&self.0, &o.0, self.1) == Ordering::Equal
    }
}
impl Eq for MKey {}
impl PartialOrd for MKey {
    fn partial_cmp(&self, o: &Self) -> Option<Ordering> {
        Some(self.cmp(o))
    }
}
impl Ord for MKey {
    fn cmp(&self, o: &Self) -> Ordering {
        m_cmp(&self.0, &o.0, self.1)
    }
}

/// observable behaviour of an index filled in one insertion order
#[derive(PartialEq, Eq, Debug, Clone)]
struct IndexObs {
    gets: Vec<Vec<u64>>,
    counts: Vec<usize>,
    full_range: Vec<u64>,
    left_after_removal: Vec<u64>,
}

fn index_engine(vals: &[PropertyValue], perm: &[usize]) -> Result<IndexObs, String> {
    catch(|| {
        let mut ix = PropertyIndex::new();
        for &i in perm {
            ix.insert(vals[i].clone(), NodeId::new(i as u64 + 1));
        }
        let mut gets = Vec::new();
        let mut counts = Vec::new();
        for v in vals {
            let mut g: Vec<u64> = ix.get(v).iter().map(|n| n.as_u64()).collect();
            g.sort();
            gets.push(g);
            counts.push(ix.count(v));
        }
        let mut full: Vec<u64> = ix.range::<(std::ops::Bound<PropertyValue>, std::ops::Bound<PropertyValue>)>((std::ops::Bound::Unbounded, std::ops::Bound::Unbounded)).iter().map(|n| n.as_u64()).collect();
        full.sort();
        for &i in perm.iter().rev() {
            ix.remove(&vals[i], NodeId::new(i as u64 + 1));
        }
        let mut left: Vec<u64> = ix.range::<(std::ops::Bound<PropertyValue>, std::ops::Bound<PropertyValue>)>((std::ops::Bound::Unbounded, std::ops::Bound::Unbounded)).iter().map(|n| n.as_u64()).collect();
        left.sort();
        IndexObs { gets, counts, full_range: full, left_after_removal: left }
    })
}

fn index_model(vals: &[PropertyValue], perm: &[usize], q: Q10) -> Result<IndexObs, String> {
    catch(|| {
        let mut ix: BTreeMap<MKey, BTreeSet<u64>> = BTreeMap::new();
        for &i in perm {
            ix.entry(MKey(vals[i].clone(), q)).or_default().insert(i as u64 + 1);
        }
        let mut gets = Vec::new();
        let mut counts = Vec::new();
        for v in vals {
            let g: Vec<u64> = ix.get(&MKey(v.clone(), q)).map(|s| s.iter().copied().collect()).unwrap_or_default();
            counts.push(g.len());
            gets.push(g);
        }
        let mut full: Vec<u64> = ix.values().flat_map(|s| s.iter().copied()).collect();
        full.sort();
        for &i in perm.iter().rev() {
            let k = MKey(vals[i].clone(), q);
            if let Some(s) = ix.get_mut(&k) {
                s.remove(&(i as u64 + 1));
                if s.is_empty() {
                    ix.remove(&k);
                }
            }
        }
        let mut left: Vec<u64> = ix.values().flat_map(|s| s.iter().copied()).collect();
        left.sort();
        IndexObs { gets, counts, full_range: full, left_after_removal: left }
    })
}

/// A PropertyIndex filled in any insertion order finds every key it holds.
fn index_consequence(vals: &[PropertyValue]) -> Result<(), String> {
    let n = vals.len();
    let canons: Vec<String> = vals.iter().map(canon).collect();
    for p in perms_of(n) {
        let obs = index_engine(vals, &p).map_err(|e| format!("PropertyIndex panicked for insertion order {p:?}: {e}"))?;
        for i in 0..n {
            let must: Vec<u64> = (0..n).filter(|j| canons[*j] == canons[i]).map(|j| j as u64 + 1).collect();
            let may: Vec<u64> = (0..n).filter(|j| canons[*j] == canons[i] || vals[*j] == vals[i] || vals[*j].cmp(&vals[i]) == Ordering::Equal).map(|j| j as u64 + 1).collect();
            for id in &must {
                if !obs.gets[i].contains(id) {
                    return Err(format!("PropertyIndex filled in order {p:?}: get({}) = {:?} misses node {id}, which was inserted under exactly that value", canons[i], obs.gets[i]));
                }
            }
            for id in &obs.gets[i] {
                if !may.contains(id) {
                    return Err(format!("PropertyIndex filled in order {p:?}: get({}) = {:?} contains node {id}, inserted under {}", canons[i], obs.gets[i], canons[*id as usize - 1]));
                }
            }
            if obs.counts[i] != obs.gets[i].len() {
                return Err(format!("PropertyIndex filled in order {p:?}: count({}) = {} but get returns {} nodes", canons[i], obs.counts[i], obs.gets[i].len()));
            }
        }
        let all: Vec<u64> = (1..=n as u64).collect();
        if obs.full_range != all {
            return Err(format!("PropertyIndex filled in order {p:?}: range(..) = {:?}, inserted nodes {all:?}", obs.full_range));
        }
        if !obs.left_after_removal.is_empty() {
            return Err(format!("PropertyIndex filled in order {p:?} and emptied in reverse order still holds nodes {:?}", obs.left_after_removal));
        }
    }
    Ok(())
}

fn index_matches_model(vals: &[PropertyValue], q: Q10) -> bool {
    for p in perms_of(vals.len()) {
        if index_engine(vals, &p) != index_model(vals, &p, q) {
            return false;
        }
    }
    true
}

/// consequence check with classification; Ok(Some(q)) = explained by enabled switches q
fn c10_consequence(kind: &str, vals: &[PropertyValue], active: Q10) -> Result<Option<Q10>, String> {
    let strict = match kind {
        "sort" => sort_consequence(vals, "ord").and_then(|_| sort_consequence(vals, "cypher")),
        _ => index_consequence(vals),
    };
    let msg = match strict {
        Ok(()) => return Ok(None),
        Err(m) => m,
    };
    for q in Q10::subsets_of(active) {
        if !(q.negnan || q.zerobits || q.naneq) {
            continue;
        }
        let ok = match kind {
            "sort" => sort_matches_model(vals, "ord", q) && sort_matches_model(vals, "cypher", q),
            _ => index_matches_model(vals, q),
        };
        if ok {
            return Ok(Some(q));
        }
    }
    Err(msg)
}

fn c10_values() -> Vec<PropertyValue> {
    use PropertyValue::*;
    let mut s = values::boundary_set();
    let nn = f64::from_bits(values::NEG_NAN_BITS);
    let mk = |v: PropertyValue| {
        let mut m = HashMap::new();
        m.insert("a".to_string(), v);
        Map(m)
    };
    s.extend(vec![
        Float(f64::from_bits(0xfff8_0000_0000_0001)),
        Float(-2.5),
        Integer(-2),
        Array(vec![Float(-1.0)]),
        Array(vec![Integer(0)]),
        Array(vec![Float(f64::from_bits(values::NAN_PAYLOAD_BITS))]),
        Array(vec![Vector(vec![f32::NAN]), Integer(1)]),
        mk(Float(nn)),
        mk(Float(-1.0)),
        mk(Integer(0)),
        mk(Float(0.0)),
        mk(Array(vec![Float(f64::NAN)])),
        Vector(vec![f32::from_bits(0xffc0_0000)]),
        Vector(vec![0.0, 1.0]),
        Vector(vec![-0.0, 1.0]),
        Duration { months: 0, days: 0, seconds: 0, nanos: -1 },
        DateTime(i64::MIN),
    ]);
    s
}

#[derive(Clone, Debug, Serialize, Deserialize)]
struct Case10 {
    /// "laws" (all ordered triples of the values) | "triple" (exactly values[0..3] in order) | "sort" | "index"
    kind: String,
    values: Vec<J>,
}

fn c10_case_json(kind: &str, vals: &[PropertyValue]) -> J {
    json!(Case10 { kind: kind.to_string(), values: vals.iter().map(values::to_json).collect() })
}

/// strict or classified evaluation of one case; Err = violation message
fn c10_eval_case(case: &Case10, active: Q10) -> Result<Vec<&'static str>, String> {
    let vals: Vec<PropertyValue> = case.values.iter().map(values::from_json).collect();
    match case.kind.as_str() {
        "laws" => {
            let rep = c10_laws(&vals, active, None, None);
            match rep.failure {
                Some((_, m)) => Err(m),
                None => Ok(rep.kf_hits.keys().copied().collect()),
            }
        }
        "triple" => {
            // exactly the ordered triple (values[0], values[1], values[2]); equal values share an index
            let mut distinct: Vec<PropertyValue> = Vec::new();
            let mut idx = [0usize; 3];
            for (n, v) in vals.iter().take(3).enumerate() {
                idx[n] = match distinct.iter().position(|d| canon(d) == canon(v)) {
                    Some(p) => p,
                    None => {
                        distinct.push(v.clone());
                        distinct.len() - 1
                    }
                };
            }
            let rep = c10_laws(&distinct, active, None, Some(idx));
            match rep.failure {
                Some((_, m)) => Err(m),
                None => Ok(rep.kf_hits.keys().copied().collect()),
            }
        }
        k => c10_consequence(k, &vals, active).map(|q| q.map(|q| q.ids()).unwrap_or_default()),
    }
}

fn c10(args: &Args) {
    let mut ev = Evidence::new(
        args,
        "exploration",
        "all ordered triples over an enumerated boundary set of PropertyValues (every variant; signed zeros, NaNs of either sign and two payloads, infinities, integers beyond 2^53, empty and nested lists/maps holding the awkward floats, vectors, durations, null) plus random triples from the boundary value generator: Ord reflexive / antisymmetric / transitive, a == b <=> cmp Equal, a == b => equal hashes (std SipHash and FNV), cypher_order reflexive / antisymmetric / transitive as a preorder; consequences on random lists: sort() and sort_by(cypher_order) of 5 fixed permutations give the same sequence, a PropertyIndex filled in each permutation finds every key, lists everything once and empties completely. Non-trivial = triple/list mixes >= 2 variants or contains a non-finite or zero float; distinct = distinct value triples / lists.",
    );
    ev.assume("the model order used to classify known findings mirrors the engine's documented order; it is consulted only for failing cases, never to judge a passing one");
    let kf = Known::load(args);

    if let Some(p) = &args.replay {
        let case: Case10 = serde_json::from_value(load_replay(p)).expect("replay case");
        ev.case();
        match c10_eval_case(&case, Q10::default()) {
            Ok(_) => println!("replay: property held"),
            Err(m) => {
                report_violation(&mut ev, &json!(case), &m);
            }
        }
        ev.nontrivial(&format!("{:?}", case.values));
        ev.nontrivial(&"replay");
        ev.sample(json!(case));
        finish(&ev);
    }

    // the model with every switch off must itself be lawful on the boundary set (harness self-check)
    let set = c10_values();
    {
        let m = model_answers(&set, Q10::default());
        for i in 0..set.len() {
            for j in 0..set.len() {
                for k in 0..set.len() {
                    if let Some(l) = law_broken(&m, i, j, k) {
                        eprintln!("INCONCLUSIVE: the reference order of the harness breaks {l} on {} {} {}", canon(&set[i]), canon(&set[j]), canon(&set[k]));
                        std::process::exit(2);
                    }
                }
            }
        }
    }

    let mut active = Q10::default();
    for (id, f) in [("KF-C10-1", 0), ("KF-C10-2", 1), ("KF-C10-3", 2)] {
        if let Some(w) = witness_case(&kf, id) {
            let case: Case10 = serde_json::from_value(w).expect("witness case");
            let still = c10_eval_case(&case, Q10::default()).is_err();
            if kf.witness_result(&mut ev, id, still) {
                match f {
                    0 => active.negnan = true,
                    1 => active.zerobits = true,
                    _ => active.naneq = true,
                }
            }
        }
    }
    ev.set("quirk_switches_enabled", json!({"integer_below_negative_nan": active.negnan, "zero_sign_in_cmp_and_hash": active.zerobits, "ieee_nan_equality": active.naneq}));

    let mut failure: Option<(J, String)> = None;
    for (p, case) in corpus_cases("C10") {
        let case: Case10 = serde_json::from_value(case).expect("corpus case");
        ev.case();
        ev.class("corpus");
        match c10_eval_case(&case, active) {
            Ok(h) => h.iter().for_each(|k| ev.kf_hit(k)),
            Err(m) => {
                failure = Some((json!(case), format!("{m} (corpus {})", p.display())));
                break;
            }
        }
    }

    // 1. exhaustive triples over the boundary set
    if failure.is_none() {
        let rep = c10_laws(&set, active, Some(&mut ev), None);
        ev.cases(rep.triples);
        ev.class_n("exhaustive_triples", rep.triples);
        for (law, n) in &rep.known {
            ev.class_n(&format!("known_{law}"), *n);
        }
        for (k, n) in &rep.kf_hits {
            for _ in 0..(*n).min(1) {
                ev.kf_hit(k);
            }
            *ev.kf_hits.entry(k.to_string()).or_insert(0) += n.saturating_sub(1);
        }
        ev.exhaustive = Some(rep.failure.is_none());
        ev.set("exhaustive_bound", json!({"boundary_values": set.len(), "triples": rep.triples}));
        if let Some((idx, m)) = rep.failure {
            let vals: Vec<PropertyValue> = idx.iter().map(|i| set[*i].clone()).collect();
            failure = Some((c10_case_json("triple", &vals), m));
        }
        for t in [[0usize, 7, 21], [8, 3, 21], [1, 0, 40]] {
            if t.iter().all(|i| *i < set.len()) {
                ev.sample(json!(t.iter().map(|i| canon(&set[*i])).collect::<Vec<_>>()));
            }
        }
    }

    // 2. random triples
    if failure.is_none() {
        let n = args.tier.pick(100_000u32, 5_000_000u32);
        let strat = (values::value_strategy(2), values::value_strategy(2), values::value_strategy(2));
        let evc = RefCell::new(&mut ev);
        let res = search(args.seed, n, &strat, |(a, b, c)| {
            let vals = [a.clone(), b.clone(), c.clone()];
            let mut e = evc.borrow_mut();
            e.case();
            e.class("random_value_triple");
            let vs: BTreeSet<u8> = vals.iter().map(variant_id).collect();
            if vs.len() >= 2 || vals.iter().any(special_float) {
                e.nontrivial(&vals.iter().map(canon).collect::<Vec<_>>());
            }
            let rep = c10_laws(&vals, active, None, None);
            for (k, _) in &rep.kf_hits {
                e.kf_hit(k);
            }
            match rep.failure {
                Some((_, m)) => {
                    e.frozen = true;
                    Err(m)
                }
                None => Ok(()),
            }
        });
        drop(evc);
        if let Some(((a, b, c), m)) = res {
            // report the exact failing ordered triple among the three values
            let vals = [a, b, c];
            let rep = c10_laws(&vals, active, None, None);
            let case = match rep.failure {
                Some((idx, _)) => c10_case_json("triple", &idx.iter().map(|i| vals[*i].clone()).collect::<Vec<_>>()),
                None => c10_case_json("laws", &vals),
            };
            failure = Some((case, m));
        }
    }

    // 3. consequences on random lists
    for kind in ["sort", "index"] {
        if failure.is_some() {
            break;
        }
        let n = args.tier.pick(15_000u32, 1_000_000u32);
        let awkward: Vec<PropertyValue> = set.iter().filter(|v| special_float(v) || matches!(v, PropertyValue::Integer(_))).cloned().collect();
        let elem = prop_oneof![3 => proptest::sample::select(set.clone()), 2 => proptest::sample::select(awkward), 1 => values::value_strategy(1)];
        let strat = proptest::collection::vec(elem, 2..12);
        let evc = RefCell::new(&mut ev);
        let res = search(args.seed ^ fnv_str(kind), n, &strat, |vals| {
            let mut e = evc.borrow_mut();
            e.case();
            e.class(&format!("{kind}_list"));
            let vs: BTreeSet<u8> = vals.iter().map(variant_id).collect();
            if vs.len() >= 2 || vals.iter().any(special_float) {
                e.nontrivial(&(kind, vals.iter().map(canon).collect::<Vec<_>>()));
                if e.want_sample() && e.samples.len() < 5 {
                    e.sample(json!({"kind": kind, "values": vals.iter().map(canon).collect::<Vec<_>>()}));
                }
            }
            match c10_consequence(kind, vals, active) {
                Ok(None) => Ok(()),
                Ok(Some(q)) => {
                    e.class(&format!("{kind}_known"));
                    for k in q.ids() {
                        e.kf_hit(k);
                    }
                    Ok(())
                }
                Err(m) => {
                    e.frozen = true;
                    Err(m)
                }
            }
        });
        drop(evc);
        if let Some((vals, m)) = res {
            ev.frozen = true;
            let fails = |cand: &[PropertyValue]| cand.len() >= 2 && c10_consequence(kind, cand, active).is_err();
            let min = shrink_vec(vals, &fails);
            let m2 = c10_consequence(kind, &min, active).err().unwrap_or(m);
            failure = Some((c10_case_json(kind, &min), m2));
        }
    }

    if let Some((case, msg)) = failure {
        report_violation(&mut ev, &case, &msg);
    }
    finish(&ev);
}

// =======================================================================================
// C30
// =======================================================================================

#[derive(Clone, Debug, Serialize, Deserialize, PartialEq, Eq, Hash)]
enum VT {
    Int,
    Float,
    Str,
    Bool,
    Other,
    Mixed,
    Null,
    /// the type the key's column currently holds (Int when the column does not exist yet)
    Same,
}

#[derive(Clone, Debug, Serialize, Deserialize, PartialEq, Eq, Hash)]
enum COp {
    Set { row: u32, key: u8, ty: VT, v: u8 },
    Remove { row: u32, key: u8 },
    ClearRow { row: u32 },
    /// `len` writes at start, start+stride, … (descending from the top when `desc`)
    Fill { start: u32, len: u16, stride: u8, key: u8, ty: VT, v: u8, desc: bool },
    RemoveRange { start: u32, len: u16, stride: u8, key: u8 },
    ClearRange { start: u32, len: u16 },
    /// write `delta` rows below the lowest row of the key (rebase of a dense column)
    Below { key: u8, delta: u16, ty: VT, v: u8 },
    /// write `delta` rows above the highest row of the key (extension, or demotion when far)
    Above { key: u8, delta: u32, ty: VT, v: u8 },
}

const CKEYS: [&str; 3] = ["k0", "k1", "k2"];

fn cval(ty: &VT, v: u32) -> PropertyValue {
    use PropertyValue::*;
    match ty {
        VT::Int => Integer([0i64, 1, -1, 7, i64::MAX, i64::MIN, 42, 0][v as usize % 8]),
        VT::Float => Float([0.0f64, -0.0, 1.5, f64::NAN, f64::INFINITY, -1.0, 0.0, 1e300][v as usize % 8]),
        VT::Str => String(["", "a", "a longer string value", "é", "", "0", "null", "b"][v as usize % 8].to_string()),
        VT::Bool => Boolean(v % 2 == 1),
        VT::Other => match v % 6 {
            0 => DateTime(0),
            1 => Array(vec![]),
            2 => Array(vec![Integer(1), Null]),
            3 => Map(HashMap::new()),
            4 => Vector(vec![0.0, 1.0]),
            _ => Duration { months: 0, days: 0, seconds: 0, nanos: 0 },
        },
        VT::Mixed => match v % 5 {
            0 => cval(&VT::Int, v / 5),
            1 => cval(&VT::Float, v / 5),
            2 => cval(&VT::Str, v / 5),
            3 => cval(&VT::Bool, v / 5),
            _ => cval(&VT::Other, v / 5),
        },
        VT::Null => Null,
        VT::Same => Integer(v as i64),
    }
}

fn resolve_ty(store: &ColumnStore, key: u8, ty: &VT) -> VT {
    if *ty != VT::Same {
        return ty.clone();
    }
    match col_repr(store, CKEYS[key as usize % 3]).map(|r| r.0) {
        Some("float") => VT::Float,
        Some("string") => VT::Str,
        Some("bool") => VT::Bool,
        Some("other") => VT::Other,
        _ => VT::Int,
    }
}

fn col_repr(store: &ColumnStore, key: &str) -> Option<(&'static str, bool)> {
    store.get_column(key).map(|c| {
        let name = match c {
            Column::Int(_) => "int",
            Column::Float(_) => "float",
            Column::String(_) => "string",
            Column::Bool(_) => "bool",
            Column::Other(_) => "other",
        };
        (name, c.is_dense())
    })
}

#[derive(Default)]
struct C30Info {
    prim_ops: u64,
    repr_changes: u32,
    classes: BTreeMap<&'static str, u32>,
}

const MAX_ROW: u32 = 1_050_000;

fn c30_run(ops: &[COp]) -> Result<C30Info, String> {
    let mut store = ColumnStore::new();
    let mut model: Vec<BTreeMap<u32, PropertyValue>> = vec![BTreeMap::new(), BTreeMap::new(), BTreeMap::new()];
    let mut touched: BTreeSet<u32> = BTreeSet::new();
    let mut info = C30Info::default();
    let mut repr: Vec<Option<(&'static str, bool)>> = vec![None, None, None];
    let touch = |t: &mut BTreeSet<u32>, r: u32| {
        t.insert(r);
        if r > 0 {
            t.insert(r - 1);
        }
        t.insert(r + 1);
    };
    for (step, op) in ops.iter().enumerate() {
        let mins: Vec<Option<u32>> = model.iter().map(|m| m.keys().next().copied()).collect();
        let maxs: Vec<Option<u32>> = model.iter().map(|m| m.keys().next_back().copied()).collect();
        let set = |store: &mut ColumnStore, model: &mut Vec<BTreeMap<u32, PropertyValue>>, touched: &mut BTreeSet<u32>, info: &mut C30Info, row: u32, key: u8, val: PropertyValue| {
            if row > MAX_ROW {
                return;
            }
            let k = key as usize % 3;
            store.set_property(row as usize, CKEYS[k], val.clone());
            model[k].insert(row, val);
            touch(touched, row);
            info.prim_ops += 1;
        };
        match op {
            COp::Set { row, key, ty, v } => {
                if *ty == VT::Null {
                    *info.classes.entry("set_null").or_insert(0) += 1;
                }
                {
                    let ty = resolve_ty(&store, *key, ty);
                    set(&mut store, &mut model, &mut touched, &mut info, *row, *key, cval(&ty, *v as u32))
                }
            }
            COp::Remove { row, key } => {
                let k = *key as usize % 3;
                store.remove_property(*row as usize, CKEYS[k]);
                model[k].remove(row);
                touch(&mut touched, *row);
                info.prim_ops += 1;
            }
            COp::ClearRow { row } => {
                store.clear_row(*row as usize);
                for m in model.iter_mut() {
                    m.remove(row);
                }
                touch(&mut touched, *row);
                info.prim_ops += 1;
            }
            COp::Fill { start, len, stride, key, ty, v, desc } => {
                let stride = (*stride).max(1) as u32;
                let ty = &resolve_ty(&store, *key, ty);
                for i in 0..*len as u32 {
                    let j = if *desc { *len as u32 - 1 - i } else { i };
                    set(&mut store, &mut model, &mut touched, &mut info, start + j * stride, *key, cval(ty, *v as u32 + j));
                }
            }
            COp::RemoveRange { start, len, stride, key } => {
                let stride = (*stride).max(1) as u32;
                let k = *key as usize % 3;
                for i in 0..*len as u32 {
                    let row = start + i * stride;
                    store.remove_property(row as usize, CKEYS[k]);
                    model[k].remove(&row);
                    touch(&mut touched, row);
                    info.prim_ops += 1;
                }
            }
            COp::ClearRange { start, len } => {
                for i in 0..*len as u32 {
                    let row = start + i;
                    store.clear_row(row as usize);
                    for m in model.iter_mut() {
                        m.remove(&row);
                    }
                    touch(&mut touched, row);
                    info.prim_ops += 1;
                }
            }
            COp::Below { key, delta, ty, v } => {
                let k = *key as usize % 3;
                if let Some(mn) = mins[k] {
                    let row = mn.saturating_sub((*delta).max(1) as u32);
                    if row < mn {
                        let was_dense = repr[k].map_or(false, |r| r.1);
                        let ty = &resolve_ty(&store, *key, ty);
                        set(&mut store, &mut model, &mut touched, &mut info, row, *key, cval(ty, *v as u32));
                        if was_dense && col_repr(&store, CKEYS[k]).map_or(false, |r| r.1) {
                            *info.classes.entry("rebase_below_dense_base").or_insert(0) += 1;
                        }
                    }
                }
            }
            COp::Above { key, delta, ty, v } => {
                let k = *key as usize % 3;
                if let Some(mx) = maxs[k] {
                    let row = mx.saturating_add((*delta).max(1));
                    let was_dense = repr[k].map_or(false, |r| r.1);
                    let ty = &resolve_ty(&store, *key, ty);
                    set(&mut store, &mut model, &mut touched, &mut info, row, *key, cval(ty, *v as u32));
                    if was_dense && row <= MAX_ROW && col_repr(&store, CKEYS[k]).map_or(false, |r| r.1) {
                        *info.classes.entry("extend_dense_upward").or_insert(0) += 1;
                    }
                }
            }
        }
        // representation changes (observed through Column::is_dense / the column's variant)
        for k in 0..3 {
            let now = col_repr(&store, CKEYS[k]);
            if now != repr[k] {
                if let (Some(a), Some(b)) = (repr[k], now) {
                    info.repr_changes += 1;
                    let c = if a.0 != b.0 {
                        "spill_to_other"
                    } else if b.1 {
                        "promote_to_dense"
                    } else {
                        "demote_to_sparse"
                    };
                    *info.classes.entry(c).or_insert(0) += 1;
                    if a.0 != b.0 && a.1 {
                        *info.classes.entry("spill_from_dense").or_insert(0) += 1;
                    }
                } else if let Some(b) = now {
                    if b.1 {
                        info.repr_changes += 1;
                        *info.classes.entry("promote_to_dense").or_insert(0) += 1;
                    }
                }
                repr[k] = now;
            }
        }
        // within one macro-op a column may have gone dense and back; count via the final state only.
        // oracle: every touched row and its neighbours, every key
        for &r in &touched {
            let mut want_keys: Vec<&str> = Vec::new();
            let mut free_keys: Vec<&str> = Vec::new();
            for k in 0..3 {
                let got = store.get_property(r as usize, CKEYS[k]);
                let want = model[k].get(&r).cloned().unwrap_or(PropertyValue::Null);
                if canon(&got) != canon(&want) {
                    return Err(format!("after step {step} ({op:?}): get_property(row {r}, {}) = {}, last value set = {}", CKEYS[k], canon(&got), canon(&want)));
                }
                match model[k].get(&r) {
                    Some(PropertyValue::Null) => free_keys.push(CKEYS[k]),
                    Some(_) => want_keys.push(CKEYS[k]),
                    None => {}
                }
            }
            let mut got_keys = store.get_property_keys(r as usize);
            got_keys.sort();
            let got_checked: Vec<&str> = got_keys.iter().map(|s| s.as_str()).filter(|k| !free_keys.contains(k)).collect();
            if got_checked != want_keys {
                return Err(format!("after step {step} ({op:?}): get_property_keys(row {r}) = {got_keys:?}, keys holding a value = {want_keys:?}"));
            }
            let mut d = got_keys.clone();
            d.dedup();
            if d.len() != got_keys.len() {
                return Err(format!("after step {step} ({op:?}): get_property_keys(row {r}) lists a key twice: {got_keys:?}"));
            }
        }
    }
    Ok(info)
}

fn c30_op_strategy(thorough: bool) -> BoxedStrategy<COp> {
    let row = || {
        prop_oneof![
            3 => proptest::sample::select(vec![0u32, 1, 2, 63, 64, 1000, 1023, 1024, 4095, 4096, 65_536, 999_000]),
            3 => 0u32..3000,
            1 => 0u32..1_000_000,
        ]
    };
    let lens: Vec<u16> = if thorough { vec![1, 2, 63, 64, 65, 511, 512, 513, 1023, 1024, 1025, 2047, 2048, 2049, 4095, 4096, 4097] } else { vec![1, 2, 63, 64, 65, 511, 512, 513, 1023, 1024, 1025, 1025, 2047, 2048, 2049] };
    let len = move || prop_oneof![4 => proptest::sample::select(lens.clone()), 1 => 1u16..1200];
    let stride = || proptest::sample::select(vec![1u8, 1, 1, 1, 2, 2, 3, 7, 100]);
    let ty = || prop_oneof![12 => Just(VT::Same), 4 => Just(VT::Int), 2 => Just(VT::Float), 2 => Just(VT::Str), 3 => Just(VT::Bool), 1 => Just(VT::Other), 1 => Just(VT::Mixed)];
    let ty1 = || prop_oneof![12 => Just(VT::Same), 4 => Just(VT::Int), 2 => Just(VT::Float), 2 => Just(VT::Str), 3 => Just(VT::Bool), 1 => Just(VT::Other), 1 => Just(VT::Mixed), 1 => Just(VT::Null)];
    let key = || 0u8..3;
    prop_oneof![
        3 => (row(), key(), ty1(), any::<u8>()).prop_map(|(row, key, ty, v)| COp::Set { row, key, ty, v }),
        2 => (row(), key()).prop_map(|(row, key)| COp::Remove { row, key }),
        1 => row().prop_map(|row| COp::ClearRow { row }),
        6 => (row(), len(), stride(), key(), ty(), any::<u8>(), any::<bool>()).prop_map(|(start, len, stride, key, ty, v, desc)| COp::Fill { start, len, stride, key, ty, v, desc }),
        2 => (row(), len(), stride(), key()).prop_map(|(start, len, stride, key)| COp::RemoveRange { start, len, stride, key }),
        1 => (row(), 1u16..600).prop_map(|(start, len)| COp::ClearRange { start, len }),
        5 => (key(), prop_oneof![Just(1u16), 1u16..40, 1u16..3000], ty(), any::<u8>()).prop_map(|(key, delta, ty, v)| COp::Below { key, delta, ty, v }),
        5 => (key(), prop_oneof![Just(1u32), 1u32..2000, 100_000u32..900_000], ty(), any::<u8>()).prop_map(|(key, delta, ty, v)| COp::Above { key, delta, ty, v }),
    ]
    .boxed()
}

fn c30(args: &Args) {
    let mut ev = Evidence::new(
        args,
        "exploration",
        "sequences of macro-operations on a ColumnStore over 3 keys and rows up to 1.05e6: single set/remove/clear_row, fill runs (ascending or descending, strides 1..100, lengths at 64/512/1024/2048(/4096)±1 so sparse columns cross the 1024-entry promotion check at powers of two), remove/clear ranges, writes below the lowest row (rebase) and above the highest (extension / far-away demotion), typed values including the typed defaults (0, 0.0, \"\", false), mixed types (spill to Other); after every macro-step get_property on every touched row and its neighbours for every key equals the last value set (Null if removed/cleared) and get_property_keys equals the keys holding a value (a key whose last set value is an explicit Null is not asserted either way). Non-trivial = some column changed representation (Column::is_dense flipped or the typed column spilled to Other); distinct = distinct sequences.",
    );
    ev.assume("an explicit set_property(.., Null) must read back Null; whether get_property_keys lists such a key is left open (counted as class set_null)");

    if let Some(p) = &args.replay {
        let ops: Vec<COp> = serde_json::from_value(load_replay(p)).expect("replay case");
        ev.case();
        match catch(|| c30_run(&ops)) {
            Ok(Ok(_)) => println!("replay: property held"),
            Ok(Err(m)) | Err(m) => {
                report_violation(&mut ev, &json!(ops), &m);
            }
        }
        ev.nontrivial(&ops);
        ev.nontrivial(&"replay");
        ev.sample(json!(ops));
        finish(&ev);
    }

    let mut failure: Option<(Vec<COp>, String)> = None;
    let account = |e: &mut Evidence, ops: &Vec<COp>, i: &C30Info| {
        if i.repr_changes > 0 {
            e.nontrivial(ops);
            e.class("representation_changed");
            if e.want_sample() && ops.len() <= 6 {
                e.sample(json!(ops));
            }
        }
        for (c, n) in &i.classes {
            e.class_n(c, *n as u64);
        }
        e.class_n("primitive_ops", i.prim_ops);
    };
    for (p, case) in corpus_cases("C30") {
        let ops: Vec<COp> = serde_json::from_value(case).expect("corpus case");
        ev.case();
        ev.class("corpus");
        match catch(|| c30_run(&ops)) {
            Ok(Ok(i)) => account(&mut ev, &ops, &i),
            Ok(Err(m)) | Err(m) => {
                failure = Some((ops, format!("{m} (corpus {})", p.display())));
                break;
            }
        }
    }
    if failure.is_none() {
        let n = args.tier.pick(1500u32, 40_000u32);
        // most sequences start with a run that makes a column dense, so that rebase / extension /
        // demotion / spill-from-dense are reached by the operations that follow
        let dense_prefix = (
            proptest::sample::select(vec![0u32, 1000, 2000, 4096, 65_536, 999_000]),
            proptest::sample::select(vec![1024u16, 1025, 1500, 2048, 2049]),
            proptest::sample::select(vec![1u8, 1, 1, 2]),
            0u8..3,
            prop_oneof![3 => Just(VT::Int), 2 => Just(VT::Bool), 1 => Just(VT::Float), 1 => Just(VT::Str)],
            any::<u8>(),
            any::<bool>(),
        )
            .prop_map(|(start, len, stride, key, ty, v, desc)| COp::Fill { start, len, stride, key, ty, v, desc });
        let strat = (prop_oneof![1 => Just(None), 3 => dense_prefix.prop_map(Some)], proptest::collection::vec(c30_op_strategy(args.tier == Tier::Thorough), 1..=12)).prop_map(|(p, mut body)| {
            if let Some(p) = p {
                body.insert(0, p);
            }
            body
        });
        let evc = RefCell::new(&mut ev);
        let res = search(args.seed, n, &strat, |ops| {
            let mut e = evc.borrow_mut();
            e.case();
            e.class("sequence");
            match catch(|| c30_run(ops)) {
                Ok(Ok(i)) => {
                    account(&mut e, ops, &i);
                    Ok(())
                }
                Ok(Err(m)) | Err(m) => {
                    e.frozen = true;
                    Err(m)
                }
            }
        });
        drop(evc);
        if let Some((ops, m)) = res {
            failure = Some((ops, m));
        }
    }
    if let Some((ops, msg)) = failure {
        ev.frozen = true;
        let fails = |cand: &[COp]| matches!(catch(|| c30_run(cand)), Ok(Err(_)) | Err(_));
        let min = shrink_vec(ops, &fails);
        let m2 = match catch(|| c30_run(&min)) {
            Ok(Err(m)) | Err(m) => m,
            _ => msg,
        };
        report_violation(&mut ev, &json!(min), &m2);
    }
    finish(&ev);
}
