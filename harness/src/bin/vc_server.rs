//! C19 (acknowledged server writes survive restart) and C23 (RESP and HTTP run statements
//! like the engine) — DESIGN §4.
//!
//! Both properties drive the two server front ends in-process:
//! * RESP: `CommandHandler::handle_command(["GRAPH.QUERY","default",<stmt>])`
//! * HTTP: `HttpServer::router()` + `tower::ServiceExt::oneshot(POST /api/query)`
use axum::body::Body;
use axum::http::Request;
use http_body_util::BodyExt;
use proptest::prelude::*;
use samyama::graph::{EdgeType, GraphStore, Label, NodeId, PropertyMap, PropertyValue};
use samyama::http::server::HttpServer;
use samyama::persistence::PersistenceManager;
use samyama::protocol::{CommandHandler, RespValue};
use samyama::query::executor::QueryPlanner;
use samyama::query::{parse_query, MutQueryExecutor, QueryEngine, QueryExecutor, RecordBatch, Value};
use serde::{Deserialize, Serialize};
use serde_json::{json, Value as Json};
use std::cell::RefCell;
use std::collections::{BTreeMap, BTreeSet};
use std::sync::Arc;
use tokio::sync::RwLock;
use tower::ServiceExt;
use vcheck::dump::{dump_by_uid, schema_dump, DEdge, DNode, Dump};
use vcheck::values::canon;
use vcheck::*;

fn main() {
    let args = parse_args();
    quiet_panics();
    // the engine consults these; a run must not depend on the caller's environment
    std::env::remove_var("SAMYAMA_GRAPH_NATIVE");
    std::env::remove_var("SAMYAMA_QUERY_TIMEOUT");
    start_watchdog(args.tier.pick(900, 3600));
    match args.prop.as_str() {
        "C19" => c19(&args),
        "C23" => c23(&args),
        "PROBE" => probe(),
        p => {
            eprintln!("vc_server does not serve {p}");
            std::process::exit(2)
        }
    }
}

type Store = Arc<RwLock<GraphStore>>;
type Rt = tokio::runtime::Runtime;

/// Map `f` over `items` on `threads` worker threads; results come back in item order.
fn par_map<T: Sync, R: Send>(items: &[T], threads: usize, f: impl Fn(&T) -> R + Sync) -> Vec<R> {
    let next = std::sync::atomic::AtomicUsize::new(0);
    let slots: Vec<std::sync::Mutex<Option<R>>> = items.iter().map(|_| std::sync::Mutex::new(None)).collect();
    std::thread::scope(|sc| {
        for _ in 0..threads.max(1) {
            sc.spawn(|| loop {
                let i = next.fetch_add(1, std::sync::atomic::Ordering::SeqCst);
                if i >= items.len() {
                    break;
                }
                let r = f(&items[i]);
                *slots[i].lock().unwrap() = Some(r);
            });
        }
    });
    slots.into_iter().map(|m| m.into_inner().unwrap().expect("every item was processed")).collect()
}

fn new_rt() -> Rt {
    tokio::runtime::Builder::new_current_thread().enable_all().build().unwrap()
}

// =======================================================================================
// Graph specifications (DESIGN §3.2, small): every node carries a unique integer `uid`,
// every relationship a unique integer `rid`.

#[derive(Clone, Debug, Serialize, Deserialize, PartialEq)]
enum Pv {
    I(i64),
    F(f64),
    S(String),
    B(bool),
}

impl Pv {
    fn to_pv(&self) -> PropertyValue {
        match self {
            Pv::I(i) => PropertyValue::Integer(*i),
            Pv::F(f) => PropertyValue::Float(*f),
            Pv::S(s) => PropertyValue::String(s.clone()),
            Pv::B(b) => PropertyValue::Boolean(*b),
        }
    }
}

#[derive(Clone, Debug, Serialize, Deserialize, PartialEq)]
struct GNode {
    uid: i64,
    labels: Vec<String>,
    props: Vec<(String, Pv)>,
}

#[derive(Clone, Debug, Serialize, Deserialize, PartialEq)]
struct GEdge {
    rid: i64,
    src: usize,
    dst: usize,
    ty: String,
    props: Vec<(String, Pv)>,
}

#[derive(Clone, Debug, Default, Serialize, Deserialize, PartialEq)]
struct GraphSpec {
    nodes: Vec<GNode>,
    edges: Vec<GEdge>,
    /// labels that carry a property index on `p` (created with `CREATE INDEX ON :L(p)`)
    #[serde(default)]
    indexes: Vec<String>,
}

const LABELS: [&str; 3] = ["A", "B", "C"];
const TYPES: [&str; 2] = ["R", "S"];

fn build_graph(spec: &GraphSpec) -> GraphStore {
    let mut g = GraphStore::new();
    let mut ids: Vec<NodeId> = Vec::new();
    for n in &spec.nodes {
        let mut props: PropertyMap = PropertyMap::new();
        props.insert("uid".to_string(), PropertyValue::Integer(n.uid));
        for (k, v) in &n.props {
            props.insert(k.clone(), v.to_pv());
        }
        let labels: Vec<Label> = n.labels.iter().map(|l| Label::from(l.as_str())).collect();
        ids.push(g.create_node_with_properties("default", labels, props));
    }
    for e in &spec.edges {
        if e.src >= ids.len() || e.dst >= ids.len() {
            continue;
        }
        let mut props: PropertyMap = PropertyMap::new();
        props.insert("rid".to_string(), PropertyValue::Integer(e.rid));
        for (k, v) in &e.props {
            props.insert(k.clone(), v.to_pv());
        }
        let _ = g.create_edge_with_properties(ids[e.src], ids[e.dst], EdgeType::from(e.ty.as_str()), props);
    }
    for l in &spec.indexes {
        let _ = QueryEngine::new().execute_mut(&format!("CREATE INDEX ON :{l}(p)"), &mut g, "default");
    }
    g
}

fn pv_strategy() -> BoxedStrategy<Pv> {
    prop_oneof![
        (0i64..4).prop_map(Pv::I),
        prop::sample::select(vec![0.5f64, 1.0, 2.0]).prop_map(Pv::F),
        prop::sample::select(vec!["a", "b", "x SET y"]).prop_map(|s| Pv::S(s.to_string())),
        any::<bool>().prop_map(Pv::B),
    ]
    .boxed()
}

fn graph_strategy(max_nodes: usize, max_edges: usize) -> BoxedStrategy<GraphSpec> {
    let node = (1u8..8, prop::option::of(pv_strategy()), prop::option::of(pv_strategy()), prop::option::weighted(0.3, pv_strategy()));
    let edge = (any::<u16>(), any::<u16>(), 0usize..2, prop::option::of(pv_strategy()));
    (prop::collection::vec(node, 0..=max_nodes), prop::collection::vec(edge, 0..=max_edges), prop::option::weighted(0.25, 0usize..3))
        .prop_map(|(ns, es, ix)| {
            let mut spec = GraphSpec::default();
            if let Some(ix) = ix {
                spec.indexes.push(LABELS[ix].to_string());
            }
            for (i, (mask, p, q, s)) in ns.into_iter().enumerate() {
                let labels: Vec<String> = LABELS.iter().enumerate().filter(|(b, _)| mask & (1 << b) != 0).map(|(_, l)| l.to_string()).collect();
                let mut props = Vec::new();
                if let Some(p) = p {
                    props.push(("p".to_string(), p));
                }
                if let Some(q) = q {
                    props.push(("q".to_string(), q));
                }
                if let Some(s) = s {
                    props.push(("s".to_string(), s));
                }
                spec.nodes.push(GNode { uid: i as i64 + 1, labels, props });
            }
            let n = spec.nodes.len();
            if n > 0 {
                for (i, (a, b, t, w)) in es.into_iter().enumerate() {
                    let mut props = Vec::new();
                    if let Some(w) = w {
                        props.push(("w".to_string(), w));
                    }
                    spec.edges.push(GEdge { rid: 1001 + i as i64, src: pick_idx(a, n), dst: pick_idx(b, n), ty: TYPES[t].to_string(), props });
                }
            }
            spec
        })
        .boxed()
}

// =======================================================================================
// Statement templates. A template is plain text whose single spaces are *gaps*: the
// renderer replaces each gap by a chosen separator and re-cases the keywords. Spaces
// that belong to a string literal are written as U+0001 and restored after rendering.

const KEYWORDS: [&str; 27] = [
    "MATCH", "OPTIONAL", "UNWIND", "WITH", "CALL", "MERGE", "CREATE", "FOREACH", "SET", "REMOVE", "DELETE", "DETACH", "RETURN", "WHERE", "AS", "ORDER", "BY", "LIMIT", "ON", "IN", "YIELD", "DISTINCT", "AND", "INDEX",
    "DROP", "SKIP", "EXPLAIN",
];
const WRITE_KEYWORDS: [&str; 6] = ["CREATE", "SET", "REMOVE", "DELETE", "MERGE", "DROP"];

/// separator table; index 0 is the plain space every shrink converges to
const SEPS: [&str; 9] = [" ", "\t", "\n", "\r\n", "  ", " /* c */ ", " // c\n", "/**/", ""];
const SEP_NAMES: [&str; 9] = ["space", "tab", "newline", "crlf", "2space", "block_comment", "line_comment", "bare_comment", "none"];

fn recase(word: &str, mode: u8, k: usize) -> String {
    match mode {
        0 => word.to_string(),
        1 => word.to_lowercase(),
        2 => {
            let mut c = word.chars();
            let f = c.next().unwrap();
            format!("{}{}", f, c.as_str().to_lowercase())
        }
        _ => word.chars().enumerate().map(|(i, ch)| if (i + k) % 2 == 0 { ch.to_ascii_lowercase() } else { ch }).collect(),
    }
}

/// Render a template. Returns the text and the names of the separators that directly
/// precede a write keyword (for the class histogram).
fn render(template: &str, kwcase: u8, seps: &[u8]) -> (String, Vec<&'static str>) {
    let toks: Vec<&str> = template.split(' ').filter(|t| !t.is_empty()).collect();
    let mut out = String::new();
    let mut before_write = Vec::new();
    for (i, t) in toks.iter().enumerate() {
        if i > 0 {
            let mut s = seps.get(i - 1).copied().unwrap_or(0) as usize % SEPS.len();
            if s == 8 {
                // the empty separator is only legal at a punctuation boundary
                let prev = toks[i - 1].chars().last().unwrap();
                let next = t.chars().next().unwrap();
                if !(matches!(prev, ')' | ']' | '}') || matches!(next, '(')) {
                    s = 0;
                }
            }
            out.push_str(SEPS[s]);
            if WRITE_KEYWORDS.contains(t) {
                before_write.push(SEP_NAMES[s]);
            }
        }
        if KEYWORDS.contains(t) {
            out.push_str(&recase(t, kwcase, i));
        } else {
            out.push_str(t);
        }
    }
    (out.replace('\u{1}', " "), before_write)
}

struct Sel<'a> {
    s: &'a [u16],
    i: usize,
    /// uids / rids a statement may address (existing entities, plus misses)
    old_uids: Vec<(i64, &'static str)>,
    old_rids: Vec<i64>,
    /// first fresh uid (the second one is +10) and fresh rid of this statement
    new_uid: i64,
    new_rid: i64,
}
impl<'a> Sel<'a> {
    fn pick(&mut self, n: usize) -> usize {
        let v = self.s.get(self.i).copied().unwrap_or(0);
        self.i += 1;
        pick_idx(v, n)
    }
    fn label(&mut self) -> &'static str {
        LABELS[self.pick(3)]
    }
    fn ty(&mut self) -> &'static str {
        TYPES[self.pick(2)]
    }
    fn lit(&mut self) -> &'static str {
        ["1", "0", "2", "3", "0.5", "1.0", "2.0", "'a'", "'b'", "true", "false", "'x\u{1}SET\u{1}y'", "'\u{1}create\u{1}'"][self.pick(13)]
    }
    /// an addressable uid and a label it was created with
    fn old(&mut self) -> (i64, &'static str) {
        let n = self.old_uids.len();
        let k = self.pick(n.max(1));
        self.old_uids.get(k).copied().unwrap_or((1, "A"))
    }
    fn old_rid(&mut self) -> i64 {
        let n = self.old_rids.len();
        let k = self.pick(n.max(1));
        self.old_rids.get(k).copied().unwrap_or(1001)
    }
}

#[derive(Clone, Copy, PartialEq, Eq, Debug)]
enum Dom {
    /// C23: reads and writes
    All,
    /// C19: write statements only, with RETURN variants
    Writes,
}

const N_READ: usize = 22;
const N_WRITE: usize = 40;

/// Returns (template, class, uids the statement creates when it succeeds, rids likewise).
/// `k` indexes reads 0..N_READ then writes.
fn template(k: usize, s: &mut Sel) -> (String, String, Vec<(i64, &'static str)>, Vec<i64>) {
    let (txt, class, l, l2) = template_text(k, s);
    let (u1, u2, r1) = (s.new_uid, s.new_uid + 10, s.new_rid);
    let has = |u: i64| txt.contains(&format!("uid: {u}}}")) || txt.contains(&format!("uid: {u},")) || txt.contains(&format!("[{u}, ")) || txt.contains(&format!(", {u}]")) || txt.contains(&format!("WITH {u} AS"));
    let uids = [(u1, l), (u2, if k == 23 { l2 } else { l })].into_iter().filter(|u| has(u.0)).collect();
    let rids = if txt.contains(&format!("rid: {r1}}}")) { vec![r1] } else { vec![] };
    (txt, class, uids, rids)
}

fn template_text(k: usize, s: &mut Sel) -> (String, String, &'static str, &'static str) {
    let (l, l2) = (s.label(), s.label());
    let (txt, class) = template_body(k, s, l, l2);
    (txt, class, l, l2)
}

fn template_body(k: usize, s: &mut Sel, l: &'static str, l2: &'static str) -> (String, String) {
    let t = s.ty();
    let v = s.lit();
    let v2 = s.lit();
    let (k1, kl) = s.old();
    let (k2, _) = s.old();
    let u1 = s.new_uid;
    let u2 = u1 + 10;
    let r1 = s.new_rid;
    let kr = s.old_rid();
    let ret = s.pick(4);
    let rd = |txt: String, lead: &str| (txt, format!("read:{lead}"));
    let wr = |txt: String, lead: &str| (txt, format!("write:{lead}"));
    // RETURN variants for a write binding `n`
    let retn = |ret: usize| match ret {
        0 => "",
        1 => " RETURN n.uid",
        2 => " RETURN n",
        _ => " RETURN n.uid, n.p ORDER BY n.uid",
    };
    match k {
        0 => rd(format!("MATCH (n:{l}) RETURN n.uid, n.p"), "MATCH"),
        1 => rd(format!("MATCH (n:{l}) WHERE n.p = {v} RETURN n.uid"), "MATCH"),
        2 => rd(format!("MATCH (n) RETURN n.uid ORDER BY n.uid LIMIT {}", 1 + ret), "MATCH"),
        3 => rd(format!("MATCH (a)-[r:{t}]->(b) RETURN a.uid, r.rid, b.uid"), "MATCH"),
        4 => rd(format!("MATCH (n:{l}) RETURN n"), "MATCH"),
        5 => rd("MATCH (a)-[r]->(b) RETURN r".to_string(), "MATCH"),
        6 => rd(format!("OPTIONAL MATCH (n:{l}) RETURN n.uid"), "OPTIONAL MATCH"),
        7 => rd(format!("OPTIONAL MATCH (n:{l}) WHERE n.p = {v} RETURN n.uid, n.q"), "OPTIONAL MATCH"),
        8 => rd(format!("UNWIND [1, 2, {v}] AS x RETURN x"), "UNWIND"),
        9 => rd(format!("UNWIND [{k1}, {k2}] AS x MATCH (n) WHERE n.uid = x RETURN x, n.p"), "UNWIND"),
        10 => rd(format!("WITH {v} AS x RETURN x"), "WITH"),
        11 => rd(format!("WITH {k1} AS x MATCH (n) WHERE n.uid = x RETURN n.uid, n.p"), "WITH"),
        12 => rd(format!("RETURN {v} AS x, {v2} AS y"), "RETURN"),
        13 => rd("CALL db.labels() YIELD label RETURN label".to_string(), "CALL"),
        14 => rd("CALL db.relationshipTypes()".to_string(), "CALL"),
        15 => rd(format!("MATCH (n:{l}) WITH n RETURN n.uid"), "MATCH"),
        16 => rd(format!("MATCH (n:{l}) WITH n.p AS v, count(n) AS c RETURN v, c"), "MATCH"),
        17 => rd("MATCH (n) WHERE n.s = 'x\u{1}SET\u{1}y' RETURN n.uid".to_string(), "MATCH(keyword in string)"),
        18 => rd("RETURN '\u{1}CREATE\u{1}' AS x".to_string(), "RETURN(keyword in string)"),
        19 => rd(format!("MATCH (n:{l}) RETURN count(n)"), "MATCH"),
        20 => rd(format!("MATCH (n:{l}) RETURN DISTINCT n.p"), "MATCH"),
        21 => rd(format!("MATCH (a:{l})-[r]->(b) WHERE b.uid = {k1} RETURN a.uid, r.rid"), "MATCH"),
        // ---------------- writes
        22 => wr(format!("CREATE (n:{l} {{uid: {u1}, p: {v}}}){}", retn(ret)), "CREATE"),
        23 => wr(
            format!(
                "CREATE (a:{l} {{uid: {u1}}})-[r:{t} {{rid: {r1}}}]->(b:{l2} {{uid: {u2}}}){}",
                ["", " RETURN a.uid, r.rid, b.uid", " RETURN a, r, b", " RETURN r"][ret]
            ),
            "CREATE",
        ),
        24 => wr(format!("MATCH (n:{l}) SET n.p = {v}{}", retn(ret)), "MATCH"),
        25 => wr(format!("MATCH (n) WHERE n.uid = {k1} SET n.q = {v}, n.p = {v2}{}", retn(ret)), "MATCH"),
        26 => wr(format!("MATCH (n:{l}) REMOVE n.p{}", retn(ret)), "MATCH"),
        27 => wr(format!("MATCH (n:{l}) SET n:{l2}{}", retn(ret)), "MATCH"),
        28 => wr(format!("MATCH (n:{l}) REMOVE n:{l2}{}", retn(ret)), "MATCH"),
        29 => wr(format!("MATCH (n:{l}) DETACH DELETE n"), "MATCH"),
        30 => wr(format!("MATCH (a)-[r:{t}]->(b) DELETE r"), "MATCH"),
        31 => wr(format!("MATCH (n) WHERE n.uid = {k1} DETACH DELETE n"), "MATCH"),
        32 => wr(
            format!(
                "MERGE ({}){}{}",
                // an existing node is addressed with a label it was created with (a MERGE
                // pattern without label does not find it), so that uid stays unique
                if ret % 2 == 0 { format!("n:{kl} {{uid: {k1}}}") } else { format!("n:{l} {{uid: {u1}}}") },
                ["", " ON CREATE SET n.p = 1", " ON MATCH SET n.q = 2", " ON CREATE SET n.p = 1 ON MATCH SET n.q = 2"][s.pick(4)],
                retn(ret)
            ),
            "MERGE",
        ),
        33 => wr(format!("UNWIND [{u1}, {u2}] AS x CREATE (n:{l} {{uid: x}}){}", retn(ret)), "UNWIND"),
        34 => wr(format!("OPTIONAL MATCH (n:{l}) DETACH DELETE n"), "OPTIONAL MATCH"),
        35 => wr(format!("OPTIONAL MATCH (n:{l}) SET n.p = {v}{}", retn(ret)), "OPTIONAL MATCH"),
        36 => wr(format!("WITH {u1} AS x CREATE (n:{l} {{uid: x}}){}", retn(ret)), "WITH"),
        37 => wr(
            format!("MATCH (a), (b) WHERE a.uid = {k1} AND b.uid = {k2} CREATE (a)-[r:{t} {{rid: {r1}}}]->(b){}", ["", " RETURN r.rid", " RETURN r", " RETURN a, r, b"][ret]),
            "MATCH",
        ),
        38 => wr(format!("MATCH (n:{l}) WITH n SET n.p = {v}{}", retn(ret)), "MATCH"),
        39 => wr(format!("FOREACH (x IN [{u1}, {u2}] | CREATE (:{l} {{uid: x}}))"), "FOREACH"),
        40 => wr(format!("MATCH (n:{l}) FOREACH (x IN [1] | SET n.p = x)"), "MATCH"),
        41 => wr(format!("UNWIND [{k1}, {k2}] AS x MATCH (n) WHERE n.uid = x SET n.p = x{}", retn(ret)), "UNWIND"),
        42 => wr(format!("CREATE INDEX ON :{l}(p)"), "CREATE INDEX"),
        43 => wr(format!("DROP INDEX ON :{l}(p)"), "DROP INDEX"),
        44 => wr(format!("MERGE (n:{kl} {{uid: {k1}}}) SET n.p = {v}{}", retn(ret)), "MERGE"),
        45 => wr(format!("MATCH (n) WHERE n.uid = {k1} SET n.p = {v} REMOVE n.q{}", retn(ret)), "MATCH"),
        46 => wr(format!("MATCH (n) WHERE n.uid = {k1} SET n:{l2} REMOVE n:{l}{}", retn(ret)), "MATCH"),
        47 => wr(format!("MATCH (a)-[r]->(b) WHERE r.rid = {kr} SET r.w = {v}{}", ["", " RETURN r.rid", " RETURN r", " RETURN r.w"][ret]), "MATCH"),
        48 => wr(format!("MATCH (a)-[r]->(b) WHERE r.rid = {kr} DELETE r"), "MATCH"),
        // ---------------- clause pipelines: the only write sits in the middle of a WITH pipeline
        49 => wr(format!("MATCH (n:{l}) REMOVE n.p WITH n RETURN n.uid"), "MATCH(pipeline)"),
        50 => wr(format!("MATCH (n:{l}) SET n.p = {v} WITH n RETURN n.uid, n.p"), "MATCH(pipeline)"),
        51 => wr(format!("MATCH (n:{l}) WITH n DETACH DELETE n"), "MATCH(pipeline)"),
        52 => wr(format!("MATCH (n) WHERE n.uid = {k1} REMOVE n.q WITH n RETURN n.uid, n.p"), "MATCH(pipeline)"),
        53 => wr(format!("MATCH (n:{l}) REMOVE n:{l2} WITH n RETURN n.uid"), "MATCH(pipeline)"),
        54 => wr(format!("MATCH (n:{l}) SET n:{l2} WITH n RETURN n.uid"), "MATCH(pipeline)"),
        55 => wr(format!("MATCH (a)-[r:{t}]->(b) WITH r, a DELETE r WITH a RETURN a.uid"), "MATCH(pipeline)"),
        56 => wr(format!("MATCH (n:{l}) REMOVE n.p WITH n SET n.q = {v} RETURN n.uid"), "MATCH(pipeline)"),
        57 => wr(format!("CREATE (a:{l} {{uid: {u1}}}) WITH a CREATE (b:{l} {{uid: {u2}}}) RETURN a.uid, b.uid"), "CREATE(pipeline)"),
        58 => wr(format!("MATCH (a)-[r]->(b) WHERE r.rid = {kr} REMOVE r.w WITH r RETURN r.rid"), "MATCH(pipeline)"),
        59 => wr(format!("UNWIND [{k1}, {k2}] AS x MATCH (n) WHERE n.uid = x REMOVE n.p WITH n, x RETURN x"), "UNWIND(pipeline)"),
        60 => wr(format!("MATCH (n) WHERE n.uid = {k1} WITH n DETACH DELETE n WITH 1 AS done RETURN done"), "MATCH(pipeline)"),
        _ => wr(format!("OPTIONAL MATCH (n:{l}) REMOVE n.p WITH n RETURN n.uid"), "OPTIONAL MATCH(pipeline)"),
    }
}

fn pick_template(dom: Dom, sel: u16) -> usize {
    match dom {
        Dom::All => pick_idx(sel, N_READ + N_WRITE),
        Dom::Writes => {
            // all write templates except the two DDL ones (42, 43)
            let k = N_READ + pick_idx(sel, N_WRITE - 2);
            if k >= 42 {
                k + 2
            } else {
                k
            }
        }
    }
}

// =======================================================================================
// Front ends and outcome normalisation

#[derive(Clone, Debug, PartialEq)]
enum Out {
    /// columns, rows of cells in the tolerant cell space described at `cell_of_value`
    Rows(Vec<String>, Vec<Vec<String>>),
    Refused(String),
}

impl Out {
    fn class(&self) -> &'static str {
        match self {
            Out::Rows(..) => "rows",
            Out::Refused(_) => "refusal",
        }
    }
    fn brief(&self) -> String {
        match self {
            Out::Rows(c, r) => format!("rows(columns={:?}, {} rows{})", c, r.len(), if r.len() <= 4 { format!(" {:?}", r) } else { String::new() }),
            Out::Refused(m) => format!("refusal({})", truncate(m, 160)),
        }
    }
}

const READONLY_MSG: &str = "Cannot execute write query with read-only executor";

/// Cell space shared by the three front ends (deliberately tolerant of the encoders'
/// formats): integers and floats by their shortest decimal text, strings as they are,
/// booleans `true/false`, null `null`, nodes `node#<id>`, relationships `edge#<id>`,
/// lists recursively (RESP) or opaque `X` (HTTP renders list items as debug strings),
/// maps / paths / other property kinds opaque `X`.
fn cell_of_value(v: &Value, lists_opaque: bool) -> String {
    match v {
        Value::Null => "null".into(),
        Value::Node(id, _) | Value::NodeRef(id) => format!("node#{}", id.as_u64()),
        Value::Edge(id, _) => format!("edge#{}", id.as_u64()),
        Value::EdgeRef(id, ..) => format!("edge#{}", id.as_u64()),
        Value::List(items) => {
            if lists_opaque {
                "X".into()
            } else {
                format!("[{}]", items.iter().map(|i| cell_of_value(i, false)).collect::<Vec<_>>().join(","))
            }
        }
        Value::Map(_) | Value::Path { .. } => "X".into(),
        Value::Property(p) => match p {
            PropertyValue::String(s) => s.clone(),
            PropertyValue::Integer(i) => i.to_string(),
            PropertyValue::Float(f) => f.to_string(),
            PropertyValue::Boolean(b) => b.to_string(),
            PropertyValue::Null => "null".into(),
            _ => "X".into(),
        },
    }
}

fn first_int(s: &str) -> Option<u64> {
    let digits: String = s.chars().skip_while(|c| !c.is_ascii_digit()).take_while(|c| c.is_ascii_digit()).collect();
    digits.parse().ok()
}

fn cell_of_resp(v: &RespValue) -> String {
    match v {
        RespValue::Integer(i) => i.to_string(),
        RespValue::Null | RespValue::BulkString(None) => "null".into(),
        RespValue::SimpleString(s) | RespValue::Error(s) => s.clone(),
        RespValue::BulkString(Some(b)) => {
            let s = String::from_utf8_lossy(b).to_string();
            if s.starts_with("Node(") {
                format!("node#{}", first_int(&s).unwrap_or(u64::MAX))
            } else if s.starts_with("Edge(") {
                format!("edge#{}", first_int(&s).unwrap_or(u64::MAX))
            } else if s == "Null" {
                "null".into()
            } else {
                s
            }
        }
        RespValue::Array(items) => format!("[{}]", items.iter().map(cell_of_resp).collect::<Vec<_>>().join(",")),
    }
}

fn cell_of_json(v: &Json) -> String {
    match v {
        Json::Null => "null".into(),
        Json::Bool(b) => b.to_string(),
        Json::Number(n) => {
            if let Some(i) = n.as_i64() {
                i.to_string()
            } else {
                n.as_f64().map(|f| f.to_string()).unwrap_or_else(|| n.to_string())
            }
        }
        Json::String(s) => s.clone(),
        Json::Array(_) => "X".into(),
        Json::Object(o) => {
            let id = o.get("id").and_then(|i| i.as_str()).and_then(|s| s.parse::<u64>().ok());
            match (id, o.contains_key("labels"), o.contains_key("source")) {
                (Some(id), true, _) => format!("node#{id}"),
                (Some(id), _, true) => format!("edge#{id}"),
                _ => "X".into(),
            }
        }
    }
}

fn out_of_batch(b: &RecordBatch, lists_opaque: bool) -> Out {
    let rows = b.records.iter().map(|r| b.columns.iter().map(|c| r.get(c).map(|v| cell_of_value(v, lists_opaque)).unwrap_or_else(|| "null".into())).collect()).collect();
    Out::Rows(b.columns.clone(), rows)
}

fn bulk(s: &str) -> RespValue {
    RespValue::BulkString(Some(s.as_bytes().to_vec()))
}

fn resp_query(rt: &Rt, handler: &CommandHandler, store: &Store, q: &str) -> RespValue {
    resp_command(rt, handler, store, "GRAPH.QUERY", q)
}

fn resp_command(rt: &Rt, handler: &CommandHandler, store: &Store, cmd: &str, q: &str) -> RespValue {
    let cmd = RespValue::Array(vec![bulk(cmd), bulk("default"), bulk(q)]);
    rt.block_on(handler.handle_command(&cmd, store))
}

fn out_of_resp(reply: &RespValue) -> Out {
    match reply {
        RespValue::Error(e) => Out::Refused(e.clone()),
        RespValue::Array(rows) if !rows.is_empty() => {
            let cols = match &rows[0] {
                RespValue::Array(h) => h.iter().map(cell_of_resp).collect(),
                other => vec![format!("<malformed header {:?}>", other)],
            };
            let data = rows[1..]
                .iter()
                .map(|r| match r {
                    RespValue::Array(cells) => cells.iter().map(cell_of_resp).collect(),
                    other => vec![format!("<malformed row {:?}>", other)],
                })
                .collect();
            Out::Rows(cols, data)
        }
        other => Out::Refused(format!("<unexpected reply shape {:?}>", other)),
    }
}

fn http_query(rt: &Rt, router: &axum::Router, q: &str) -> (u16, Json) {
    let req = Request::builder().method("POST").uri("/api/query").header("content-type", "application/json").body(Body::from(json!({ "query": q }).to_string())).unwrap();
    let resp = rt.block_on(router.clone().oneshot(req)).expect("router is infallible");
    let status = resp.status().as_u16();
    let bytes = rt.block_on(resp.into_body().collect()).map(|c| c.to_bytes()).unwrap_or_default();
    let body: Json = serde_json::from_slice(&bytes).unwrap_or_else(|_| json!({"<non-json body>": String::from_utf8_lossy(&bytes).to_string()}));
    (status, body)
}

fn out_of_http(status: u16, body: &Json) -> Out {
    if status == 200 {
        let cols = body["columns"].as_array().map(|a| a.iter().map(|c| c.as_str().unwrap_or("<non-string column>").to_string()).collect()).unwrap_or_default();
        let rows = body["records"].as_array().map(|a| a.iter().map(|r| r.as_array().map(|cells| cells.iter().map(cell_of_json).collect()).unwrap_or_default()).collect()).unwrap_or_default();
        Out::Rows(cols, rows)
    } else {
        Out::Refused(format!("{} {}", status, body["error"].as_str().map(|s| s.to_string()).unwrap_or_else(|| body.to_string())))
    }
}

/// The routing heuristics of the two front ends, replicated verbatim: they are the quirk
/// switch of the known findings KF-C23-1 / KF-C23-2 (a write statement the heuristic
/// sends down the read path is refused by the read-only executor).
fn resp_heuristic_is_write(q: &str) -> bool {
    let u = q.trim().to_uppercase();
    u.starts_with("CREATE") || u.starts_with("DELETE") || u.starts_with("SET") || u.starts_with("MERGE") || u.contains(" CREATE ") || u.contains(" DELETE ") || u.contains(" SET ") || u.contains(" MERGE ")
}
fn http_heuristic_is_write(q: &str) -> bool {
    let u = q.trim().to_uppercase();
    u.starts_with("CREATE")
        || u.starts_with("SET")
        || u.starts_with("DELETE")
        || u.starts_with("MERGE")
        || (u.starts_with("MATCH")
            && (u.contains(" CREATE ")
                || u.contains(" SET ")
                || u.contains(" DELETE ")
                || u.contains(" MERGE ")
                || u.contains(" REMOVE ")
                || u.ends_with(" CREATE")
                || u.ends_with(" SET")
                || u.ends_with(" DELETE")
                || u.ends_with(" MERGE")))
}


// =======================================================================================
// Graph view used for every graph comparison of C19 / C23: the uid-keyed dump (node and
// relationship *listings*) plus the *adjacency* views — per node the outgoing and incoming
// relationships as the store's neighbour accessors report them, and (C19) the rows of a
// directed pattern match in both orientations. A relationship that is listed but missing from
// an adjacency list (or the reverse) makes two views differ.

#[derive(Clone, Debug, PartialEq, Default)]
struct View {
    dump: Dump,
    /// "out <a> -[T r:… {props}]-> <b>" / "in <b> <-[T r:… {props}]- <a>", sorted
    adj: Vec<String>,
    /// rows of MATCH (a)-[r]->(b) and MATCH (b)<-[r]-(a), sorted ("fwd …" / "bwd …")
    pat: Vec<String>,
}

fn node_key_in(store: &GraphStore, id: NodeId) -> String {
    let props = store.node_properties_full(id);
    match props.get("uid") {
        Some(v) if !v.is_null() => format!("u:{}", canon(v)),
        _ => {
            // same key as dump_by_uid gives a node without uid
            let mut l: Vec<String> = store.get_node(id).map(|n| n.labels.iter().map(|l| l.as_str().to_string()).collect()).unwrap_or_default();
            l.sort();
            let l: Vec<&str> = l.iter().map(|x| x.as_str()).collect();
            format!("anon:{:?}:{:?}", l, props.iter().map(|(k, v)| (k.clone(), canon(v))).collect::<BTreeMap<String, String>>())
        }
    }
}

fn rid_key(props: &PropertyMap) -> String {
    match props.get("rid") {
        Some(v) if !v.is_null() => format!("r:{}", canon(v)),
        _ => String::new(),
    }
}

impl View {
    fn of_store(g: &GraphStore, with_pattern: bool) -> View {
        let dump = dump_by_uid(g, "uid", "rid", false);
        let mut adj = Vec::new();
        for id in vcheck::dump::live_node_ids(g) {
            let me = node_key_in(g, id);
            for e in g.get_outgoing_edges(id) {
                adj.push(format!("out {} -[{} {} {:?}]-> {}", me, e.edge_type.as_str(), rid_key(&e.properties), canon_props(&e.properties), node_key_in(g, e.target)));
            }
            for e in g.get_incoming_edges(id) {
                adj.push(format!("in {} <-[{} {} {:?}]- {}", me, e.edge_type.as_str(), rid_key(&e.properties), canon_props(&e.properties), node_key_in(g, e.source)));
            }
        }
        adj.sort();
        let mut pat = Vec::new();
        if with_pattern {
            let cell = |r: &samyama::query::Record, c: &str| match r.get(c) {
                Some(Value::Property(p)) if !p.is_null() => canon(p),
                _ => "null".to_string(),
            };
            for (tag, q) in [("fwd", "MATCH (a)-[r]->(b) RETURN a.uid AS a, type(r) AS t, r.rid AS r, b.uid AS b"), ("bwd", "MATCH (b)<-[r]-(a) RETURN a.uid AS a, type(r) AS t, r.rid AS r, b.uid AS b")] {
                match QueryEngine::new().execute(q, g) {
                    Ok(batch) => {
                        for rec in &batch.records {
                            pat.push(format!("{tag} u:{} -[{} r:{}]-> u:{}", cell(rec, "a"), cell(rec, "t"), cell(rec, "r"), cell(rec, "b")));
                        }
                    }
                    Err(e) => pat.push(format!("{tag} <pattern match refused: {e}>")),
                }
            }
            pat.sort();
        }
        View { dump, adj, pat }
    }

    /// The view a healthy store with this node / relationship listing has: adjacency and
    /// pattern rows as they follow from the listing.
    fn expected_of(dump: Dump, with_pattern: bool) -> View {
        let mut adj = Vec::new();
        let mut pat = Vec::new();
        for e in &dump.edges {
            adj.push(format!("out {} -[{} {} {:?}]-> {}", e.src, e.ty, e.key, e.props, e.dst));
            adj.push(format!("in {} <-[{} {} {:?}]- {}", e.dst, e.ty, e.key, e.props, e.src));
            if with_pattern {
                let rid = if e.key.is_empty() { "r:null".to_string() } else { e.key.clone() };
                let ty = canon(&PropertyValue::String(e.ty.clone()));
                pat.push(format!("fwd {} -[{} {}]-> {}", e.src, ty, rid, e.dst));
                pat.push(format!("bwd {} -[{} {}]-> {}", e.src, ty, rid, e.dst));
            }
        }
        adj.sort();
        pat.sort();
        View { dump, adj, pat }
    }

    fn diff(&self, other: &View) -> String {
        let mut s = self.dump.diff(&other.dump);
        for (name, a, b) in [("adjacency", &self.adj, &other.adj), ("pattern match", &self.pat, &other.pat)] {
            if a != b {
                s.push_str(&format!("{name} views differ:\n"));
                let (mut x, mut y) = (a.clone(), b.clone());
                // multiset difference
                let mut i = 0;
                while i < x.len() {
                    if let Some(j) = y.iter().position(|l| l == &x[i]) {
                        y.remove(j);
                        x.remove(i);
                    } else {
                        i += 1;
                    }
                }
                for l in x {
                    s.push_str(&format!("- {l}\n"));
                }
                for l in y {
                    s.push_str(&format!("+ {l}\n"));
                }
            }
        }
        s
    }

    fn has_parallel(&self) -> bool {
        let mut pairs: Vec<(&String, &String)> = self.dump.edges.iter().map(|e| (&e.src, &e.dst)).collect();
        pairs.sort();
        pairs.windows(2).any(|w| w[0] == w[1])
    }
    fn has_self_loop(&self) -> bool {
        self.dump.edges.iter().any(|e| e.src == e.dst)
    }
}

// =======================================================================================
// C23

#[derive(Clone, Debug, Serialize, Deserialize, PartialEq)]
struct C23Case {
    graph: GraphSpec,
    stmt: String,
    #[serde(default)]
    class: String,
}

#[derive(Debug)]
struct C23Result {
    /// planner's verdict on the embedded store (None: parse or planning refused)
    is_write: Option<bool>,
    /// outcome of QueryEngine::execute_mut (the reference)
    emb: Out,
    /// outcome of the executor the planner's is_write flag selects
    selected: Out,
    /// some executor refused where another answered, with identical effect (not flagged)
    tolerated_refusal: bool,
    resp: Out,
    http: Out,
    /// strict failures per front end ("resp" / "http" / "embedded")
    fails: Vec<(&'static str, String)>,
    /// failing front ends whose behaviour is exactly what the routing quirk predicts
    quirk_explains: Vec<&'static str>,
    changed: bool,
}


fn compare_rows(name: &'static str, want: &Out, got: &Out, ordered: bool) -> Option<String> {
    match (want, got) {
        (Out::Refused(_), Out::Refused(_)) => None,
        (Out::Rows(wc, wr), Out::Rows(gc, gr)) => {
            if wc != gc {
                return Some(format!("{name} columns {:?} differ from the engine's {:?}", gc, wc));
            }
            if wr.len() != gr.len() {
                return Some(format!("{name} returned {} rows, the engine {}", gr.len(), wr.len()));
            }
            // blank columns that are opaque on the engine side
            let opaque: BTreeSet<usize> = wr.iter().flat_map(|r| r.iter().enumerate().filter(|(_, c)| c.contains('X') && (c.as_str() == "X" || c.starts_with('['))).map(|(i, _)| i)).collect();
            let blank = |rows: &Vec<Vec<String>>| -> Vec<Vec<String>> { rows.iter().map(|r| r.iter().enumerate().map(|(i, c)| if opaque.contains(&i) { "X".to_string() } else { c.clone() }).collect()).collect() };
            let (mut a, mut b) = (blank(wr), blank(gr));
            if a.iter().any(|r| r.len() != wc.len()) || b.iter().any(|r| r.len() != wc.len()) {
                return Some(format!("{name} row width differs from the column count: engine {:?} vs {:?}", a, b));
            }
            if !ordered {
                a.sort();
                b.sort();
            }
            if a != b {
                return Some(format!("{name} cells differ: engine {:?} vs {name} {:?}", a, b));
            }
            None
        }
        (w, g) => Some(format!("outcome class differs: engine {} vs {name} {}", w.brief(), g.brief())),
    }
}

fn c23_run(rt: &Rt, case: &C23Case, allow_resp_quirk: bool, allow_http_quirk: bool) -> Result<C23Result, String> {
    let q = case.stmt.as_str();
    // ---- reference: the statement run directly on the engine (QueryEngine::execute_mut,
    // i.e. MutQueryExecutor whatever the planner thinks of the statement)
    let mut ref_store = build_graph(&case.graph);
    let before = View::of_store(&ref_store, false);
    let schema_before = schema_dump(&ref_store);
    let (ref_r, ref_h): (Out, Out) = catch(|| match QueryEngine::new().execute_mut(q, &mut ref_store, "default") {
        Ok(b) => (out_of_batch(&b, false), out_of_batch(&b, true)),
        Err(e) => (Out::Refused(e.to_string()), Out::Refused(e.to_string())),
    })
    .map_err(|p| format!("QueryEngine::execute_mut panicked: {p}"))?;
    let ref_after = View::of_store(&ref_store, false);
    let ref_schema = schema_dump(&ref_store);

    // ---- the executor the planner's is_write flag selects (what an embedding caller and
    // both front ends use to route): read executor for non-writing plans
    let mut emb_store = build_graph(&case.graph);
    let mut is_write = None;
    let emb_r: Out = catch(|| {
        let query = match parse_query(q) {
            Ok(qr) => qr,
            Err(e) => return Out::Refused(format!("parse: {e}")),
        };
        let w = match QueryPlanner::new().plan(&query, &emb_store) {
            Ok(p) => p.is_write,
            Err(e) => return Out::Refused(format!("plan: {e}")),
        };
        is_write = Some(w);
        let r = if w { MutQueryExecutor::new(&mut emb_store, "default".to_string()).execute(&query) } else { QueryExecutor::new(&emb_store).execute(&query) };
        match r {
            Ok(b) => out_of_batch(&b, false),
            Err(e) => Out::Refused(e.to_string()),
        }
    })
    .map_err(|p| format!("embedded executor panicked: {p}"))?;
    let emb_after = View::of_store(&emb_store, false);
    let emb_schema = schema_dump(&emb_store);
    let ordered = q.to_uppercase().contains("ORDER");

    let mut fails: Vec<(&'static str, String)> = Vec::new();
    let mut tolerated_refusal = false;
    if is_write == Some(false) && (ref_after != before || ref_schema != schema_before) {
        fails.push(("embedded", format!("the planner marks the statement non-writing, but running it directly on the engine (execute_mut) changes the graph:\n{}", before.diff(&ref_after))));
    }
    if emb_after != ref_after || emb_schema != ref_schema {
        fails.push(("embedded", format!("the executor selected by the planner's is_write flag ({:?}) leaves a different graph than execute_mut (execute_mut → selected executor):\n{}", is_write, ref_after.diff(&emb_after))));
    } else if ref_r.class() != emb_r.class() {
        // one executor refuses what the other answers, with the same (non-)effect: counted, not flagged
        tolerated_refusal = true;
    } else if let Some(m) = compare_rows("planner-selected executor", &ref_r, &emb_r, ordered) {
        fails.push(("embedded", m));
    }

    // ---- RESP
    let resp_store: Store = Arc::new(RwLock::new(build_graph(&case.graph)));
    let handler = CommandHandler::new(None);
    let reply = catch(|| resp_query(rt, &handler, &resp_store, q)).map_err(|p| format!("GRAPH.QUERY panicked: {p}"))?;
    let resp = out_of_resp(&reply);
    // GRAPH.RO_QUERY: for a statement the planner marks non-writing it must answer like
    // GRAPH.QUERY (nothing is asserted about writes sent to the read-only command)
    let ro = if is_write == Some(false) {
        let reply = catch(|| resp_command(rt, &handler, &resp_store, "GRAPH.RO_QUERY", q)).map_err(|p| format!("GRAPH.RO_QUERY panicked: {p}"))?;
        Some(out_of_resp(&reply))
    } else {
        None
    };
    let (resp_after, resp_schema) = {
        let g = rt.block_on(resp_store.read());
        (View::of_store(&g, false), schema_dump(&g))
    };
    // ---- HTTP
    let http_store: Store = Arc::new(RwLock::new(build_graph(&case.graph)));
    let router = HttpServer::new(Arc::clone(&http_store), 0).router();
    let (status, body) = catch(|| http_query(rt, &router, q)).map_err(|p| format!("POST /api/query panicked: {p}"))?;
    let http = out_of_http(status, &body);
    let (http_after, http_schema) = {
        let g = rt.block_on(http_store.read());
        (View::of_store(&g, false), schema_dump(&g))
    };

    let mut quirk_explains = Vec::new();
    for (name, want, got, after, schema, heur, allowed) in [
        ("resp", &ref_r, &resp, &resp_after, &resp_schema, resp_heuristic_is_write(q), allow_resp_quirk),
        ("http", &ref_h, &http, &http_after, &http_schema, http_heuristic_is_write(q), allow_http_quirk),
    ] {
        let mut f = if want.class() != got.class() && got.class() == emb_r.class() && after == &ref_after && schema == &ref_schema {
            // the front end routed to the executor the planner selects, and that executor
            // refuses (or answers) where execute_mut does not — same effect, counted only
            tolerated_refusal = true;
            None
        } else {
            compare_rows(name, want, got, ordered)
        };
        if f.is_none() && name == "resp" && want.class() == got.class() {
            if let Some(ro) = &ro {
                f = compare_rows("GRAPH.RO_QUERY", want, ro, ordered);
            }
        }
        if f.is_none() && (after != &ref_after || schema != &ref_schema) {
            f = Some(format!("graph after the statement differs from the graph after running it directly on the engine (engine → {name}):\n{}{}", ref_after.diff(after), if schema != &ref_schema { format!("schema {:?} vs {:?}", ref_schema, schema) } else { String::new() }));
        }
        if f.is_none() && is_write == Some(false) && (after != &before || schema != &schema_before) {
            f = Some(format!("{name} changed the graph on a statement the planner marks non-writing:\n{}", before.diff(after)));
        }
        if let Some(m) = f {
            // quirk switch: heuristic routing. Prediction for a planner-write the heuristic
            // sends down the read path: refusal with the read-only-executor text, store untouched.
            let predicted = is_write == Some(true) && !heur && matches!(got, Out::Refused(t) if t.contains(READONLY_MSG)) && after == &before && schema == &schema_before;
            if allowed && predicted {
                quirk_explains.push(name);
            }
            fails.push((name, m));
        }
    }
    Ok(C23Result { is_write, emb: ref_r, selected: emb_r, resp, http, changed: ref_after != before || ref_schema != schema_before, fails, quirk_explains, tolerated_refusal })
}

/// strict verdict + known-finding classification of one case.
/// Ok(Some(ids)) = explained by these findings; Ok(None) = held; Err = violation
fn c23_judge(res: &C23Result) -> Result<Option<Vec<&'static str>>, String> {
    if res.fails.is_empty() {
        return Ok(None);
    }
    let unexplained: Vec<&(&'static str, String)> = res.fails.iter().filter(|(n, _)| !res.quirk_explains.contains(n)).collect();
    if unexplained.is_empty() {
        return Ok(Some(res.quirk_explains.iter().map(|n| if *n == "resp" { "KF-C23-1" } else { "KF-C23-2" }).collect()));
    }
    Err(format!(
        "{}\n  planner is_write = {:?}\n  engine (execute_mut): {}\n  planner-selected executor: {}\n  GRAPH.QUERY: {}\n  POST /api/query: {}",
        unexplained.iter().map(|(n, m)| format!("[{n}] {m}")).collect::<Vec<_>>().join("\n"),
        res.is_write,
        res.emb.brief(),
        res.selected.brief(),
        res.resp.brief(),
        res.http.brief()
    ))
}

type C23Raw = (GraphSpec, u16, Vec<u16>, u8, Vec<u8>);

fn c23_strategy() -> BoxedStrategy<C23Raw> {
    (
        graph_strategy(5, 5),
        any::<u16>(),
        prop::collection::vec(any::<u16>(), 12),
        prop_oneof![3 => Just(0u8), 1 => Just(1u8), 1 => Just(2u8), 1 => Just(3u8)],
        prop::collection::vec(prop_oneof![1 => Just(0u8), 1 => 1u8..9], 26),
    )
        .boxed()
}

fn c23_build(raw: &C23Raw) -> (C23Case, Vec<&'static str>) {
    let (graph, tsel, sels, kwcase, seps) = raw;
    let nn = graph.nodes.len() as i64;
    let mut s = Sel { s: sels, i: 0, old_uids: (1..=nn + 1).map(|u| (u, graph.nodes.get(u as usize - 1).and_then(|n| n.labels.first()).map(|l| LABELS[LABELS.iter().position(|x| x == l).unwrap_or(0)]).unwrap_or("A"))).collect(), old_rids: (1001..=1001 + graph.edges.len() as i64).collect(), new_uid: 0, new_rid: 0 };
    s.new_uid = 101 + s.pick(4) as i64;
    s.new_rid = 2001 + s.pick(3) as i64;
    let k = pick_template(Dom::All, *tsel);
    let (tpl, class, _, _) = template(k, &mut s);
    let (stmt, before_write) = render(&tpl, *kwcase, seps);
    (C23Case { graph: graph.clone(), stmt, class }, before_write)
}

const C23_BASELINE: &str = "baselines/c23_supported.jsonl";

fn c23(args: &Args) {
    let mut ev = Evidence::new(
        args,
        "exploration",
        "generated read and write statements (62 templates incl. 13 clause pipelines whose only write (REMOVE / SET / DELETE / CREATE) sits in the middle of a WITH pipeline; leading clause MATCH / OPTIONAL MATCH / UNWIND / WITH / CALL / MERGE / CREATE / FOREACH / RETURN / DDL; keyword case upper, lower, capitalised, alternating; separators space, tab, LF, CRLF, double space, block comment, line comment, bare comment, none) on a generated graph (0-5 nodes, 0-5 relationships, unique uid / rid), run directly on the engine with QueryEngine::execute_mut (the reference, independent of the planner's is_write flag), through the executor that flag selects (QueryExecutor for non-writing plans), through GRAPH.QUERY (and GRAPH.RO_QUERY when the planner marks the statement non-writing) and to POST /api/query on identically built stores, each front end freshly constructed per case; compared: outcome class, columns, row count, cells (bag; sequence under ORDER BY), uid-keyed graph and index/constraint list afterwards, graph unchanged when the planner marks the statement non-writing. Non-trivial = the engine answers with rows and the statement is a write or a read whose first keyword is not MATCH; distinct = distinct (graph, statement text).",
    );
    let kf = Known::load(args);
    let rt = new_rt();

    if let Some(p) = &args.replay {
        let case: C23Case = serde_json::from_value(load_replay(p)).expect("replay case");
        ev.case();
        ev.nontrivial(&serde_json::to_string(&case).unwrap());
        ev.nontrivial(&"replay");
        ev.sample(json!(case));
        match c23_run(&rt, &case, !args.strict && kf.listed("KF-C23-1"), !args.strict && kf.listed("KF-C23-2")).and_then(|r| c23_judge(&r)) {
            Ok(None) => println!("replay: property held"),
            Ok(Some(ids)) => {
                println!("replay: fails, explained by listed known finding(s) {:?}", ids);
                for id in ids {
                    ev.kf_hit(id);
                }
            }
            Err(m) => {
                report_violation(&mut ev, &json!(case), &m);
            }
        }
        finish(&ev);
    }

    // known-finding witnesses, replayed strictly
    for (id, fe) in [("KF-C23-1", "resp"), ("KF-C23-2", "http")] {
        if let Some(w) = witness_case(&kf, id) {
            let case: C23Case = serde_json::from_value(w).expect("witness case");
            let still = match c23_run(&rt, &case, true, true) {
                Ok(r) => r.fails.iter().any(|(n, _)| *n == fe) && r.quirk_explains.contains(&fe),
                Err(_) => false,
            };
            kf.witness_result(&mut ev, id, still);
        }
    }
    let (q1, q2) = (kf.active("KF-C23-1"), kf.active("KF-C23-2"));

    // one-off generation of the pinned corpus (never part of a check run)
    if std::env::var("VC_SERVER_WRITE_BASELINE").is_ok() {
        let raws = generate(20260921, 6000, &c23_strategy());
        // pinned lines stay pinned: existing lines are kept, new ones are appended
        let existing = std::fs::read_to_string(std::path::Path::new(VERIF_ROOT).join(C23_BASELINE)).unwrap_or_default();
        let mut lines: Vec<String> = existing.lines().filter(|l| !l.trim().is_empty()).map(|l| l.to_string()).collect();
        let mut seen: BTreeSet<String> = lines.iter().cloned().collect();
        let mut per_class: BTreeMap<String, usize> = BTreeMap::new();
        for raw in &raws {
            let (case, _) = c23_build(raw);
            let key = serde_json::to_string(&case).unwrap();
            if !seen.insert(key.clone()) {
                continue;
            }
            if let Ok(r) = c23_run(&rt, &case, false, false) {
                let n = per_class.entry(case.class.clone()).or_insert(0);
                let cap = if case.class.ends_with(":MATCH") { 120 } else { 40 };
                if r.fails.is_empty() && matches!(r.emb, Out::Rows(..)) && *n < cap {
                    *n += 1;
                    lines.push(key);
                }
            }
        }
        std::fs::write(std::path::Path::new(VERIF_ROOT).join(C23_BASELINE), lines.join("\n") + "\n").unwrap();
        eprintln!("wrote {} baseline statements: {:?}", lines.len(), per_class);
        std::process::exit(0);
    }

    // ---- pinned "supported today" corpus first: any refusal / divergence is a violation,
    // known findings are not consulted here.
    let base_txt = std::fs::read_to_string(std::path::Path::new(VERIF_ROOT).join(C23_BASELINE)).unwrap_or_default();
    let mut n_base = 0u64;
    for line in base_txt.lines().filter(|l| !l.trim().is_empty()) {
        let case: C23Case = serde_json::from_str(line).expect("baseline line parses");
        ev.case();
        ev.class("baseline_corpus");
        n_base += 1;
        let verdict = c23_run(&rt, &case, false, false).and_then(|r| {
            if !matches!(r.emb, Out::Rows(..)) {
                return Err(format!("the engine no longer accepts a pinned supported statement: {}", r.emb.brief()));
            }
            if r.is_write == Some(true) || !case.class.starts_with("read:MATCH") {
                ev.nontrivial(line);
            }
            c23_judge(&r).map(|_| ())
        });
        if let Err(m) = verdict {
            report_violation(&mut ev, &json!(case), &format!("pinned corpus statement (baselines/c23_supported.jsonl) no longer runs alike everywhere: {m}"));
            finish(&ev);
        }
    }
    ev.set("baseline_corpus_statements", json!(n_base));
    if n_base == 0 {
        eprintln!("INCONCLUSIVE: {C23_BASELINE} missing or empty");
        std::process::exit(2);
    }
    for (p, case) in corpus_cases("C23") {
        let case: C23Case = serde_json::from_value(case).expect("corpus case");
        ev.case();
        ev.class("regression_corpus");
        if let Err(m) = c23_run(&rt, &case, q1, q2).and_then(|r| c23_judge(&r)) {
            report_violation(&mut ev, &json!(case), &format!("{m} (corpus {})", p.display()));
            finish(&ev);
        }
    }

    // ---- generated search
    let n = args.tier.pick(20_000u32, 1_000_000u32);
    let strat = c23_strategy();
    let evc = RefCell::new(&mut ev);
    let found = search(args.seed, n, &strat, |raw| {
        let (case, before_write) = c23_build(raw);
        let mut ev = evc.borrow_mut();
        ev.case();
        let res = match c23_run(&rt, &case, q1, q2) {
            Ok(r) => r,
            Err(m) => {
                ev.frozen = true;
                return Err(m);
            }
        };
        ev.class(&case.class);
        for s in &before_write {
            ev.class(&format!("sep_before_write_keyword:{s}"));
        }
        ev.class(&format!("engine:{}{}", res.emb.class(), match res.is_write {
            Some(true) => "/write",
            Some(false) => "/read",
            None => "/unplanned",
        }));
        if res.changed {
            ev.class("graph_changed");
        }
        if res.tolerated_refusal {
            ev.class("refused_by_one_executor_only(same effect, not flagged)");
        }
        if let Out::Refused(m) = &res.emb {
            ev.refusal();
            let head: String = m.chars().take_while(|c| !c.is_ascii_digit() && *c != '\n').take(48).collect();
            ev.class(&format!("engine_refusal:{}", head.trim()));
        }
        let first_kw_match = case.stmt.trim_start().to_uppercase().starts_with("MATCH");
        if matches!(res.emb, Out::Rows(..)) && (res.is_write == Some(true) || !first_kw_match) {
            ev.nontrivial(&serde_json::to_string(&case).unwrap());
            if ev.want_sample() && ev.evaluations % 97 == 0 {
                ev.sample(json!({"stmt": case.stmt, "class": case.class, "graph_nodes": case.graph.nodes.len(), "engine": res.emb.brief(), "resp": res.resp.brief(), "http": res.http.brief()}));
            }
        }
        match c23_judge(&res) {
            Ok(None) => Ok(()),
            Ok(Some(ids)) => {
                for id in ids {
                    ev.kf_hit(id);
                }
                Ok(())
            }
            Err(m) => {
                ev.frozen = true;
                Err(m)
            }
        }
    });
    drop(evc);
    if let Some((raw, msg)) = found {
        let (case, _) = c23_build(&raw);
        report_violation(&mut ev, &json!(case), &msg);
    }
    finish(&ev);
}

// =======================================================================================
// C19

#[derive(Clone, Debug, Serialize, Deserialize, PartialEq)]
enum Op {
    Resp(String),
    Http(String),
    Restart,
}

#[derive(Clone, Debug, Serialize, Deserialize, PartialEq)]
struct C19Case {
    ops: Vec<Op>,
}

/// What is on disk according to the quirk model of KF-C19-1 / KF-C19-2:
/// "persisted = the entities that appear as materialised values in the result rows of
/// acknowledged RESP write statements, as returned, keyed by internal id (a later put of
/// the same id overwrites); HTTP statements persist nothing; deletions are never persisted".
#[derive(Clone, Debug, Default)]
struct DiskModel {
    nodes: BTreeMap<u64, DNode>,
    /// edge id -> (src node id, dst node id, rid key, type, props)
    edges: BTreeMap<u64, (u64, u64, String, String, BTreeMap<String, String>)>,
}

impl DiskModel {
    fn predict(&self) -> Dump {
        let mut d = Dump::default();
        for n in self.nodes.values() {
            d.nodes.push(n.clone());
        }
        for (src, dst, key, ty, props) in self.edges.values() {
            // insert_recovered_edge refuses an edge whose endpoints were not recovered
            if let (Some(s), Some(t)) = (self.nodes.get(src), self.nodes.get(dst)) {
                d.edges.push(DEdge { key: key.clone(), src: s.key.clone(), dst: t.key.clone(), ty: ty.clone(), props: props.clone() });
            }
        }
        d.nodes.sort();
        d.edges.sort();
        d
    }
}

fn canon_props(m: &PropertyMap) -> BTreeMap<String, String> {
    m.iter().map(|(k, v)| (k.clone(), canon(v))).collect()
}

fn dnode_of(node: &samyama::graph::Node) -> DNode {
    let mut labels: Vec<String> = node.labels.iter().map(|l| l.as_str().to_string()).collect();
    labels.sort();
    let props = canon_props(&node.properties);
    let key = match node.properties.get("uid") {
        Some(v) if !v.is_null() => format!("u:{}", canon(v)),
        _ => format!("anon:{:?}:{:?}", labels, props),
    };
    DNode { key, labels, props }
}

/// In-process replica of main.rs::start_server's recovery sequence on `dir`.
fn recover_like_main(dir: &std::path::Path) -> Result<(GraphStore, Arc<PersistenceManager>, tokio::sync::mpsc::UnboundedReceiver<samyama::graph::event::IndexEvent>), String> {
    let (mut graph, rx) = GraphStore::with_async_indexing();
    let pm = Arc::new(PersistenceManager::new(dir).map_err(|e| format!("PersistenceManager::new: {e}"))?);
    let mut recovered = false;
    match pm.list_persisted_tenants() {
        Ok(tenants) if !tenants.is_empty() => {
            for tenant in &tenants {
                if let Ok((nodes, edges)) = pm.recover(tenant) {
                    for node in nodes {
                        graph.insert_recovered_node(node);
                    }
                    for edge in edges {
                        let _ = graph.insert_recovered_edge(edge);
                    }
                    recovered = true;
                }
            }
        }
        _ => {}
    }
    if !recovered {
        let _ = samyama::snapshot::persist::restore_persisted_snapshots(dir.to_str().unwrap(), &mut graph);
    }
    Ok((graph, pm, rx))
}

struct Server {
    store: Store,
    handler: CommandHandler,
    router: axum::Router,
    pm: Arc<PersistenceManager>,
}

fn start_server(rt: &Rt, dir: &std::path::Path) -> Result<Server, String> {
    let (graph, pm, rx) = recover_like_main(dir)?;
    let store: Store = Arc::new(RwLock::new(graph));
    let tenants = pm.tenants_arc();
    {
        let _g = rt.enter();
        let guard = rt.block_on(store.read());
        pm.start_indexer(&guard, rx);
    }
    let router = HttpServer::new(Arc::clone(&store), 0).with_data_path(Some(dir.to_string_lossy().to_string())).with_tenant_manager(Arc::clone(&tenants)).router();
    let handler = CommandHandler::new_with_tenants(Some(Arc::clone(&pm)), tenants);
    Ok(Server { store, handler, router, pm })
}

impl Server {
    fn view(&self, rt: &Rt) -> View {
        let g = rt.block_on(self.store.read());
        View::of_store(&g, true)
    }
    /// flush what a clean process exit would leave behind, then close RocksDB
    fn shutdown(self) -> Result<(), String> {
        let Server { store, handler, router, pm } = self;
        drop(handler);
        drop(router);
        drop(store);
        match Arc::try_unwrap(pm) {
            Ok(pm) => {
                drop(pm);
                Ok(())
            }
            Err(_) => Err("PersistenceManager still referenced at shutdown".into()),
        }
    }
}

#[derive(Debug, Default)]
struct C19Result {
    acked_changes: usize,
    acked_resp_changes: usize,
    acked_http_changes: usize,
    refusals: usize,
    restarts: usize,
    unjudgeable: Option<String>,
    /// an acknowledged statement sent after a restart did not have, on the served graph, the
    /// effect the engine gives it on an identical graph (e.g. an earlier node vanished or was
    /// replaced): never suppressed by a known finding
    effect_fail: Option<String>,
    /// strict failure (first restart at which after != before)
    strict_fail: Option<String>,
    /// the failing restart's graph equals the quirk model's prediction
    quirk_equal: bool,
    persisted_entities: usize,
    parallel_at_restart: bool,
    self_loop_at_restart: bool,
    /// some restart served two or more relationships between one ordered node pair
    parallel_recovered: bool,
    /// graph served before / after each restart, in order
    befores: Vec<Dump>,
    afters: Vec<Dump>,
    /// acknowledged? per statement op (None for restarts)
    acks: Vec<Option<bool>>,
}

fn c19_run(case: &C19Case) -> Result<C19Result, String> {
    // RocksDB starts ~35 threads per open; a memory-backed directory keeps the rest cheap
    let tmp = if std::path::Path::new("/dev/shm").is_dir() { tempfile::Builder::new().prefix("vc19-").tempdir_in("/dev/shm").or_else(|_| tempfile::tempdir()) } else { tempfile::tempdir() }.map_err(|e| e.to_string())?;
    let dir = tmp.path().to_path_buf();
    let mut res = C19Result::default();
    let mut disk = DiskModel::default();
    let mut ops = case.ops.clone();
    ops.push(Op::Restart); // a case always ends with a restart
    let mut rt = new_rt();
    let mut srv = start_server(&rt, &dir)?;
    // twin: an engine-only copy of the served graph, used to learn which entities a RESP
    // statement returned "as returned" (the handler does not expose its RecordBatch)
    let mut twin = GraphStore::new();
    let twin_engine = QueryEngine::new();
    // uid/rid key -> internal id on the *server* store (kept after deletion)
    let mut node_ids: BTreeMap<String, u64> = BTreeMap::new();
    let mut edge_ids: BTreeMap<String, u64> = BTreeMap::new();
    let refresh_ids = |srv: &Server, rt: &Rt, node_ids: &mut BTreeMap<String, u64>, edge_ids: &mut BTreeMap<String, u64>| {
        let g = rt.block_on(srv.store.read());
        for id in vcheck::dump::live_node_ids(&g) {
            if let Some(n) = g.get_node(id) {
                node_ids.insert(dnode_of(n).key, id.as_u64());
            }
        }
        for e in g.all_edges() {
            if let Some(v) = e.properties.get("rid") {
                edge_ids.insert(format!("r:{}", canon(v)), e.id.as_u64());
            }
        }
    };

    for (step, op) in ops.iter().enumerate() {
        match op {
            Op::Restart => {
                res.restarts += 1;
                let before = srv.view(&rt);
                if before.has_parallel() {
                    res.parallel_at_restart = true;
                }
                if before.has_self_loop() {
                    res.self_loop_at_restart = true;
                }
                srv.shutdown()?;
                drop(rt); // ends the background indexer task of this "process"
                rt = new_rt();
                srv = start_server(&rt, &dir)?;
                let after = srv.view(&rt);
                if after.has_parallel() {
                    res.parallel_recovered = true;
                }
                res.befores.push(before.dump.clone());
                res.afters.push(after.dump.clone());
                res.acks.push(None);
                node_ids.clear();
                edge_ids.clear();
                refresh_ids(&srv, &rt, &mut node_ids, &mut edge_ids);
                if after != before && res.strict_fail.is_none() {
                    let predicted = View::expected_of(disk.predict(), true);
                    res.quirk_equal = after == predicted;
                    res.strict_fail = Some(format!(
                        "restart at step {step}: graph served after restart (listings, adjacency, pattern matches) differs from the graph before shutdown (before → after):\n{}{}",
                        before.diff(&after),
                        if res.quirk_equal { String::new() } else { format!("and differs from the quirk model's prediction (predicted → after):\n{}", predicted.diff(&after)) }
                    ));
                    if !res.quirk_equal {
                        return Ok(res);
                    }
                } else if after != before {
                    // later restarts of an already-failing case must still follow the quirk model
                    let predicted = View::expected_of(disk.predict(), true);
                    if after != predicted {
                        res.quirk_equal = false;
                        res.strict_fail = Some(format!("restart at step {step}: graph after restart differs from before and from the quirk model (predicted → after):\n{}", predicted.diff(&after)));
                        return Ok(res);
                    }
                }
                // twin of the recovered graph, built through the ordinary creation API from what
                // the server serves (not through insert_recovered_*, so that the twin's id
                // allocation and adjacency are independent of the recovery path under test; ids
                // differ, every comparison is uid-keyed)
                twin = {
                    let g = rt.block_on(srv.store.read());
                    let mut t = GraphStore::new();
                    let mut map: BTreeMap<u64, NodeId> = BTreeMap::new();
                    for id in vcheck::dump::live_node_ids(&g) {
                        if let Some(n) = g.get_node(id) {
                            let mut labels: Vec<Label> = n.labels.iter().cloned().collect();
                            labels.sort_by(|a, b| a.as_str().cmp(b.as_str()));
                            let props: PropertyMap = g.node_properties_full(id).into_iter().collect();
                            map.insert(id.as_u64(), t.create_node_with_properties("default", labels, props));
                        }
                    }
                    for e in g.all_edges() {
                        if let (Some(a), Some(b)) = (map.get(&e.source.as_u64()), map.get(&e.target.as_u64())) {
                            let _ = t.create_edge_with_properties(*a, *b, e.edge_type.clone(), e.properties.clone());
                        }
                    }
                    t
                };
                if View::of_store(&twin, true) != after {
                    res.unjudgeable = Some(format!("twin of the recovered graph could not be rebuilt at step {step}"));
                    return Ok(res);
                }
                // from here on the model's disk content is what was actually recovered:
                // relationships whose endpoints were missing stay on disk but can never load
            }
            Op::Resp(q) | Op::Http(q) => {
                let is_resp = matches!(op, Op::Resp(_));
                let pre = srv.view(&rt);
                let acked = if is_resp {
                    let reply = catch(|| resp_query(&rt, &srv.handler, &srv.store, q)).map_err(|p| format!("GRAPH.QUERY panicked at step {step}: {p}"))?;
                    !matches!(reply, RespValue::Error(_))
                } else {
                    let (status, _) = catch(|| http_query(&rt, &srv.router, q)).map_err(|p| format!("POST /api/query panicked at step {step}: {p}"))?;
                    status == 200
                };
                // the real server runs the index task concurrently; let it drain here
                rt.block_on(async {
                    for _ in 0..3 {
                        tokio::task::yield_now().await;
                    }
                });
                res.acks.push(Some(acked));
                let post = srv.view(&rt);
                if post.dump.nodes.windows(2).any(|w| w[0].key == w[1].key) || post.dump.nodes.iter().any(|n| n.key.starts_with("anon")) {
                    res.unjudgeable = Some(format!("generator produced a duplicate or missing uid at step {step}"));
                    return Ok(res);
                }
                if !acked {
                    res.refusals += 1;
                    if post != pre {
                        res.unjudgeable = Some(format!("step {step} was refused but changed the graph (statement atomicity, C05) — not an acknowledged write"));
                        return Ok(res);
                    }
                    continue;
                }
                // keep the twin in step and learn what was returned
                let batch = catch(|| twin_engine.execute_mut(q, &mut twin, "default").map_err(|e| e.to_string())).map_err(|p| format!("twin panicked: {p}"))?;
                let batch = match batch {
                    Ok(b) => b,
                    Err(e) => {
                        res.unjudgeable = Some(format!("twin refused an acknowledged statement at step {step}: {e}"));
                        return Ok(res);
                    }
                };
                let expected = View::of_store(&twin, true);
                if expected != post {
                    if res.restarts > 0 {
                        // the served graph was rebuilt by recovery; the twin holds the same graph
                        // built the ordinary way. The statement was acknowledged, so the graph
                        // served now must be the graph served before it plus the statement's
                        // effect — every earlier acknowledged entity still there, unreplaced.
                        res.effect_fail = Some(format!(
                            "step {step} ({}), acknowledged after restart #{}: the served graph is not the previously served graph plus the statement's effect (expected → served):\n{}",
                            q,
                            res.restarts,
                            expected.diff(&post)
                        ));
                        return Ok(res);
                    }
                    res.unjudgeable = Some(format!("twin graph diverged from the served graph at step {step}"));
                    return Ok(res);
                }
                refresh_ids(&srv, &rt, &mut node_ids, &mut edge_ids);
                if post != pre {
                    res.acked_changes += 1;
                    if is_resp {
                        res.acked_resp_changes += 1;
                    } else {
                        res.acked_http_changes += 1;
                    }
                }
                if is_resp {
                    for rec in &batch.records {
                        for (_name, v) in rec.bindings().iter() {
                            match v {
                                Value::Node(_, node) => {
                                    let dn = dnode_of(node);
                                    match node_ids.get(&dn.key) {
                                        Some(id) => {
                                            disk.nodes.insert(*id, dn);
                                            res.persisted_entities += 1;
                                        }
                                        None => {
                                            res.unjudgeable = Some(format!("returned node {} has no known server id at step {step}", dn.key));
                                            return Ok(res);
                                        }
                                    }
                                }
                                Value::Edge(_, edge) => {
                                    let key = match edge.properties.get("rid") {
                                        Some(v) if !v.is_null() => format!("r:{}", canon(v)),
                                        _ => String::new(),
                                    };
                                    let src = twin.get_node(edge.source).map(|n| dnode_of(n).key);
                                    let dst = twin.get_node(edge.target).map(|n| dnode_of(n).key);
                                    let ids = (edge_ids.get(&key), src.and_then(|k| node_ids.get(&k)), dst.and_then(|k| node_ids.get(&k)));
                                    match ids {
                                        (Some(eid), Some(s), Some(t)) => {
                                            disk.edges.insert(*eid, (*s, *t, key, edge.edge_type.as_str().to_string(), canon_props(&edge.properties)));
                                            res.persisted_entities += 1;
                                        }
                                        _ => {
                                            res.unjudgeable = Some(format!("returned relationship {key} cannot be mapped to server ids at step {step}"));
                                            return Ok(res);
                                        }
                                    }
                                }
                                _ => {}
                            }
                        }
                    }
                }
            }
        }
    }
    let _ = srv.shutdown();
    Ok(res)
}

/// Ok(None) held · Ok(Some(ids)) explained by listed findings · Err violation
fn c19_judge(res: &C19Result, q_resp: bool, q_http: bool) -> Result<Option<Vec<&'static str>>, String> {
    if let Some(m) = &res.effect_fail {
        return Err(m.clone());
    }
    match &res.strict_fail {
        None => Ok(None),
        Some(m) => {
            let mut ids = Vec::new();
            let mut ok = res.quirk_equal;
            if res.acked_resp_changes > 0 {
                ok &= q_resp;
                ids.push("KF-C19-1");
            }
            if res.acked_http_changes > 0 {
                ok &= q_http;
                ids.push("KF-C19-2");
            }
            if ok && !ids.is_empty() {
                Ok(Some(ids))
            } else {
                Err(m.clone())
            }
        }
    }
}

type C19Ops = Vec<(u8, u16, Vec<u16>)>;
/// (class selector, nodes created and RETURNed in epoch 1, creations after the restart,
/// (source selector, target selector, type) of the relationships of the "parallel" class, free ops)
type C19Raw = (u8, usize, usize, Vec<(u8, u8, u8)>, C19Ops);

fn c19_strategy(max_len: usize) -> BoxedStrategy<C19Raw> {
    // kind: 0-5 RESP, 6-8 HTTP, 9 restart
    let ops = prop::collection::vec((prop_oneof![6 => 0u8..6, 3 => 6u8..9, 1 => Just(9u8)], any::<u16>(), prop::collection::vec(any::<u16>(), 12)), 1..=max_len);
    (0u8..4, 1usize..=6, 1usize..=3, prop::collection::vec((0u8..2, 0u8..3, 0u8..2), 2..=6), ops).boxed()
}

fn c19_build(raw: &C19Raw) -> C19Case {
    let (class, m, k, pairs, free) = raw;
    let mut ops = Vec::new();
    // uids / rids created by earlier statements of the sequence (assuming they succeeded)
    let mut uids: Vec<(i64, &'static str)> = Vec::new();
    let mut rids: Vec<i64> = Vec::new();
    let mut free: &[(u8, u16, Vec<u16>)] = free;
    if *class == 0 {
        // "contiguous ids" class: every node of epoch 1 is created with RETURN n over RESP, so
        // all of them are persisted and the persisted ids are exactly 1..=m (the id counter's
        // boundary); restart; further CREATE … RETURN n, which must get fresh ids; the final
        // restart (always appended) shows whether anything was overwritten on disk. At most
        // two free operations follow.
        let mut create = |ops: &mut Vec<Op>| {
            let i = ops.len();
            let l = LABELS[i % 3];
            let uid = 100 * (i as i64 + 1) + 1;
            ops.push(Op::Resp(format!("CREATE (n:{l} {{uid: {uid}, p: {}}}) RETURN n", i % 4)));
            uids.push((uid, l));
        };
        for _ in 0..*m {
            create(&mut ops);
        }
        ops.push(Op::Restart);
        for _ in 0..*k {
            create(&mut ops);
        }
        free = &free[..free.len().min(2)];
    }
    if *class == 1 {
        // "parallel relationships" class: 2-3 nodes created with RETURN n, then 2-6
        // relationships created with RETURN r over RESP between very few ordered pairs
        // (so parallel relationships and self-loops are the rule) — all persisted; restart;
        // at most two free operations; final restart.
        let nn = 2 + (*m % 2);
        for i in 0..nn {
            let l = LABELS[i % 3];
            let uid = 100 * (i as i64 + 1) + 1;
            ops.push(Op::Resp(format!("CREATE (n:{l} {{uid: {uid}, p: {}}}) RETURN n", i % 4)));
            uids.push((uid, l));
        }
        for (a, b, t) in pairs {
            let src = *a as usize % nn;
            let dst = if *b == 0 { src } else { (src + 1) % nn };
            let rid = 2001 + ops.len() as i64;
            ops.push(Op::Resp(format!("MATCH (a), (b) WHERE a.uid = {} AND b.uid = {} CREATE (a)-[r:{} {{rid: {rid}}}]->(b) RETURN r", uids[src].0, uids[dst].0, TYPES[*t as usize % 2])));
            rids.push(rid);
        }
        ops.push(Op::Restart);
        free = &free[..free.len().min(2)];
    }
    for (kind, tsel, sels) in free.iter() {
        if *kind == 9 {
            ops.push(Op::Restart);
            continue;
        }
        let i = ops.len();
        let mut s = Sel { s: sels, i: 0, old_uids: uids.clone(), old_rids: rids.clone(), new_uid: 100 * (i as i64 + 1) + 1, new_rid: 2001 + i as i64 };
        let k = pick_template(Dom::Writes, *tsel);
        let (tpl, _class, mut cu, mut cr) = template(k, &mut s);
        let (stmt, _) = render(&tpl, 0, &[]);
        uids.append(&mut cu);
        rids.append(&mut cr);
        ops.push(if *kind < 6 { Op::Resp(stmt) } else { Op::Http(stmt) });
    }
    C19Case { ops }
}

/// the generator's "contiguous ids" class: only CREATE … RETURN n before the first restart,
/// and a CREATE … RETURN n right after it
fn contiguous_class(case: &C19Case) -> bool {
    let is_create = |o: &Op| matches!(o, Op::Resp(q) if q.starts_with("CREATE (n:") && q.ends_with("RETURN n"));
    match case.ops.iter().position(|o| matches!(o, Op::Restart)) {
        Some(r) if r > 0 => case.ops[..r].iter().all(is_create) && case.ops.get(r + 1).map(is_create).unwrap_or(false),
        _ => false,
    }
}

fn c19(args: &Args) {
    let mut ev = Evidence::new(
        args,
        "exploration",
        "sequences (1-10) of write statements (38 templates, incl. clause pipelines; a quarter of the cases start with the 'parallel relationships' class: 2-3 nodes RETURNed, 2-6 MATCH (a),(b) CREATE (a)-[r]->(b) RETURN r between very few ordered pairs incl. self-loops, restart; another quarter with the 'contiguous ids' class: 1-6 CREATE (n) RETURN n over RESP so that persisted ids are exactly 1..m, restart, 1-3 further CREATE (n) RETURN n, restart; CREATE node / pattern with and without RETURN of scalars or entities, SET, REMOVE, label add/remove, DELETE / DETACH DELETE, MERGE with ON CREATE / ON MATCH, UNWIND / WITH / FOREACH forms, DDL) sent through CommandHandler::handle_command (with a PersistenceManager) or through the HTTP router (with data_path) on one shared store, interleaved with restarts; restart = drop every handle (RocksDB closed), reopen the same directory through an in-process replica of main.rs's recovery sequence (list tenants → recover → insert_recovered_node/edge, else restore_persisted_snapshots). Oracle: graph view (uid-keyed node / relationship listings + per-node outgoing and incoming adjacency from the store's neighbour accessors + rows of MATCH (a)-[r]->(b) and MATCH (b)<-[r]-(a)) served after each restart == view before shutdown; and after every statement acknowledged after a restart, the served graph == the previously served graph plus the statement's effect as the engine computes it on an identical graph built without the recovery path (so a node that vanishes or is replaced by a post-restart CREATE is flagged; never suppressed by a known finding). Non-trivial = at least one acknowledged statement changed the graph; distinct = distinct op sequences.",
    );
    if args.tier == Tier::Quick {
        ev.assume("restart is the in-process replica of main.rs's recovery sequence, not the real binary (the thorough tier also kills and restarts the real binary and checks that the replica serves the same graphs)");
    }
    ev.assume("statements refused by a front end (including the C23 routing refusals) are not acknowledged and carry no obligation; a refused statement that nevertheless changed the graph (C05) makes the case unjudgeable and is skipped and counted");
    let kf = Known::load(args);

    if let Some(p) = &args.replay {
        let case: C19Case = serde_json::from_value(load_replay(p)).expect("replay case");
        ev.case();
        ev.nontrivial(&serde_json::to_string(&case).unwrap());
        ev.nontrivial(&"replay");
        ev.sample(json!(case));
        match c19_run(&case).and_then(|r| c19_judge(&r, kf.listed("KF-C19-1"), kf.listed("KF-C19-2"))) {
            Ok(None) => println!("replay: property held"),
            Ok(Some(ids)) => {
                println!("replay: fails, explained by listed known finding(s) {:?}", ids);
                for id in ids {
                    ev.kf_hit(id);
                }
            }
            Err(m) => {
                report_violation(&mut ev, &json!(case), &m);
            }
        }
        finish(&ev);
    }

    for id in ["KF-C19-1", "KF-C19-2"] {
        if let Some(w) = witness_case(&kf, id) {
            let case: C19Case = serde_json::from_value(w).expect("witness case");
            let still = matches!(c19_run(&case), Ok(r) if r.strict_fail.is_some());
            kf.witness_result(&mut ev, id, still);
        }
    }
    let (q1, q2) = (kf.active("KF-C19-1"), kf.active("KF-C19-2"));

    for (p, case) in corpus_cases("C19") {
        let case: C19Case = serde_json::from_value(case).expect("corpus case");
        ev.case();
        ev.class("regression_corpus");
        match c19_run(&case).and_then(|r| c19_judge(&r, q1, q2)) {
            Ok(None) => {
                ev.class("corpus_held_strictly");
            }
            Ok(Some(ids)) => {
                for id in ids {
                    ev.kf_hit(id);
                }
            }
            Err(m) => {
                report_violation(&mut ev, &json!(case), &format!("{m} (corpus {})", p.display()));
                finish(&ev);
            }
        }
    }

    // Generated search. Every case costs several RocksDB opens (~35 threads started per
    // open), so the materialised cases are run on a fixed number of worker threads and the
    // verdicts are folded in case order: the result is a function of the cases alone.
    let n = args.tier.pick(300usize, 2000usize);
    let cases: Vec<C19Case> = generate(args.seed, n, &c19_strategy(10)).iter().map(c19_build).collect();
    let results = par_map(&cases, 4, |c| catch(|| c19_run(c)).unwrap_or_else(|p| Err(format!("harness-side panic: {p}"))));
    let mut unj = 0u64;
    let mut found: Option<(C19Case, String)> = None;
    for (case, res) in cases.iter().zip(results) {
        ev.case();
        let res = match res {
            Ok(r) => r,
            Err(m) => {
                found = Some((case.clone(), m));
                break;
            }
        };
        if let Some(why) = &res.unjudgeable {
            unj += 1;
            ev.class(&format!("unjudgeable:{}", why.split(" at step").next().unwrap_or("").split(" (").next().unwrap_or("")));
            continue;
        }
        for _ in 0..res.refusals {
            ev.refusal();
        }
        let fe = match (case.ops.iter().any(|o| matches!(o, Op::Resp(_))), case.ops.iter().any(|o| matches!(o, Op::Http(_)))) {
            (true, true) => "front_ends:mixed",
            (true, false) => "front_ends:resp_only",
            (false, true) => "front_ends:http_only",
            _ => "front_ends:none",
        };
        ev.class(fe);
        if res.restarts > 1 {
            ev.class("multi_epoch");
        }
        if contiguous_class(case) {
            ev.class("contiguous_persisted_ids_then_restart_then_create");
        }
        if res.parallel_at_restart {
            ev.class("restart_with_parallel_relationships");
        }
        if res.self_loop_at_restart {
            ev.class("restart_with_self_loop");
        }
        if res.parallel_recovered {
            ev.class("parallel_relationships_recovered_from_disk");
        }
        if res.persisted_entities > 0 {
            ev.class("model_predicts_persisted_entities");
        }
        if res.acked_changes > 0 {
            ev.nontrivial(&serde_json::to_string(&case).unwrap());
            ev.class("acknowledged_change");
            if ev.want_sample() && ev.evaluations % 37 == 0 {
                ev.sample(json!(case));
            }
        }
        match c19_judge(&res, q1, q2) {
            Ok(None) => ev.class("held_strictly"),
            Ok(Some(ids)) => {
                for id in ids {
                    ev.kf_hit(id);
                }
            }
            Err(m) => {
                found = Some((case.clone(), m));
                break;
            }
        }
    }
    // shrink: greedily drop operations while the case still violates (bounded effort)
    if let Some((case, msg)) = found.take() {
        ev.frozen = true;
        let budget = std::cell::Cell::new(150u32);
        let last_msg = RefCell::new(msg);
        let fails = |ops: &[Op]| -> bool {
            if budget.get() == 0 {
                return false;
            }
            budget.set(budget.get() - 1);
            let c = C19Case { ops: ops.to_vec() };
            let verdict = catch(|| c19_run(&c)).unwrap_or_else(|p| Err(format!("harness-side panic: {p}"))).and_then(|r| if r.unjudgeable.is_some() { Ok(None) } else { c19_judge(&r, q1, q2) });
            match verdict {
                Err(m) => {
                    *last_msg.borrow_mut() = m;
                    true
                }
                Ok(_) => false,
            }
        };
        let ops = shrink_vec(case.ops.clone(), &fails);
        found = Some((C19Case { ops }, last_msg.into_inner()));
    }
    ev.set("unjudgeable_cases", json!(unj));
    if let Some((case, msg)) = found {
        report_violation(&mut ev, &json!(case), &msg);
    } else if args.tier == Tier::Thorough {
        c19_real_phase(args, &mut ev, q1, q2, 40);
    }
    if ev.violations == 0 && unj * 20 > ev.evaluations {
        eprintln!("INCONCLUSIVE: {unj} of {} cases unjudgeable (> 5 %)", ev.evaluations);
        ev.write();
        std::process::exit(2);
    }
    finish(&ev);
}

// =======================================================================================
// C19, thorough tier: the real `samyama` binary over loopback sockets

struct RealServer {
    child: std::process::Child,
    resp: u16,
    http: u16,
}

impl Drop for RealServer {
    fn drop(&mut self) {
        let _ = self.child.kill(); // SIGKILL: a process crash, not a clean exit
        let _ = self.child.wait();
    }
}

fn free_port() -> Result<u16, String> {
    std::net::TcpListener::bind("127.0.0.1:0").and_then(|l| l.local_addr()).map(|a| a.port()).map_err(|e| format!("no free port: {e}"))
}

fn real_spawn(bin: &std::path::Path, dir: &std::path::Path) -> Result<RealServer, String> {
    use std::process::{Command, Stdio};
    let (resp, http) = (free_port()?, free_port()?);
    let child = Command::new(bin)
        .args(["--host", "127.0.0.1", "--port", &resp.to_string(), "--http-port", &http.to_string(), "--data-path", dir.to_str().unwrap()])
        .env_remove("SAMYAMA_GRAPH_NATIVE")
        .env_remove("EMBED_ENABLED")
        .env("RUST_LOG", "off")
        .current_dir(dir)
        .stdin(Stdio::null())
        .stdout(Stdio::null())
        .stderr(Stdio::null())
        .spawn()
        .map_err(|e| format!("spawn {}: {e}", bin.display()))?;
    let mut srv = RealServer { child, resp, http };
    for _ in 0..400 {
        if let Ok(Some(st)) = srv.child.try_wait() {
            return Err(format!("samyama exited during start-up: {st}"));
        }
        if std::net::TcpStream::connect(("127.0.0.1", resp)).is_ok() && std::net::TcpStream::connect(("127.0.0.1", http)).is_ok() {
            return Ok(srv);
        }
        std::thread::sleep(std::time::Duration::from_millis(25));
    }
    Err("samyama did not open its ports within 10 s".into())
}

/// one GRAPH.QUERY on a fresh connection; Ok(true) = acknowledged (reply is not an error)
fn real_resp(port: u16, q: &str) -> Result<bool, String> {
    use std::io::{Read, Write};
    let mut s = std::net::TcpStream::connect(("127.0.0.1", port)).map_err(|e| format!("RESP connect: {e}"))?;
    s.set_read_timeout(Some(std::time::Duration::from_secs(20))).ok();
    let mut buf = Vec::new();
    RespValue::Array(vec![bulk("GRAPH.QUERY"), bulk("default"), bulk(q)]).encode(&mut buf).map_err(|e| e.to_string())?;
    s.write_all(&buf).map_err(|e| format!("RESP write: {e}"))?;
    let mut first = [0u8; 1];
    s.read_exact(&mut first).map_err(|e| format!("RESP read: {e}"))?;
    Ok(first[0] != b'-')
}

fn real_http(port: u16, q: &str) -> Result<(u16, Json), String> {
    use std::io::{Read, Write};
    let mut s = std::net::TcpStream::connect(("127.0.0.1", port)).map_err(|e| format!("HTTP connect: {e}"))?;
    s.set_read_timeout(Some(std::time::Duration::from_secs(20))).ok();
    let body = json!({ "query": q }).to_string();
    let req = format!("POST /api/query HTTP/1.1\r\nHost: 127.0.0.1\r\nContent-Type: application/json\r\nContent-Length: {}\r\nConnection: close\r\n\r\n{}", body.len(), body);
    s.write_all(req.as_bytes()).map_err(|e| format!("HTTP write: {e}"))?;
    let mut raw = Vec::new();
    s.read_to_end(&mut raw).map_err(|e| format!("HTTP read: {e}"))?;
    let split = raw.windows(4).position(|w| w == b"\r\n\r\n").ok_or("HTTP response without header end")?;
    let head = String::from_utf8_lossy(&raw[..split]).to_string();
    let status: u16 = head.split_whitespace().nth(1).and_then(|c| c.parse().ok()).ok_or("HTTP status line")?;
    let mut payload = raw[split + 4..].to_vec();
    if head.to_lowercase().contains("transfer-encoding: chunked") {
        let mut out = Vec::new();
        let mut rest = &payload[..];
        loop {
            let eol = match rest.windows(2).position(|w| w == b"\r\n") {
                Some(p) => p,
                None => break,
            };
            let n = usize::from_str_radix(String::from_utf8_lossy(&rest[..eol]).trim(), 16).unwrap_or(0);
            if n == 0 || rest.len() < eol + 2 + n {
                break;
            }
            out.extend_from_slice(&rest[eol + 2..eol + 2 + n]);
            rest = &rest[(eol + 2 + n + 2).min(rest.len())..];
        }
        payload = out;
    }
    let v: Json = serde_json::from_slice(&payload).map_err(|e| format!("HTTP body is not JSON ({e}): {}", truncate(&String::from_utf8_lossy(&payload), 200)))?;
    Ok((status, v))
}

fn pv_of_json(v: &Json) -> PropertyValue {
    match v {
        Json::Bool(b) => PropertyValue::Boolean(*b),
        Json::Number(n) if n.is_i64() || n.is_u64() => PropertyValue::Integer(n.as_i64().unwrap_or(i64::MAX)),
        Json::Number(n) => PropertyValue::Float(n.as_f64().unwrap_or(f64::NAN)),
        Json::String(s) => PropertyValue::String(s.clone()),
        _ => PropertyValue::Null,
    }
}

/// uid-keyed dump of what the running server serves, read over HTTP
fn real_dump(port: u16) -> Result<Dump, String> {
    let mut d = Dump::default();
    let (st, body) = real_http(port, "MATCH (n) RETURN n")?;
    if st != 200 {
        return Err(format!("dump query refused: {st} {body}"));
    }
    for row in body["records"].as_array().cloned().unwrap_or_default() {
        let n = &row[0];
        let mut labels: Vec<String> = n["labels"].as_array().map(|a| a.iter().filter_map(|l| l.as_str().map(|s| s.to_string())).collect()).unwrap_or_default();
        labels.sort();
        let props: BTreeMap<String, String> = n["properties"].as_object().map(|o| o.iter().map(|(k, v)| (k.clone(), canon(&pv_of_json(v)))).collect()).unwrap_or_default();
        let key = props.get("uid").map(|u| format!("u:{u}")).unwrap_or_else(|| format!("anon:{:?}:{:?}", labels, props));
        d.nodes.push(DNode { key, labels, props });
    }
    let (st, body) = real_http(port, "MATCH (a)-[r]->(b) RETURN a.uid, b.uid, r.rid, type(r), r.w")?;
    if st != 200 {
        return Err(format!("dump query refused: {st} {body}"));
    }
    for row in body["records"].as_array().cloned().unwrap_or_default() {
        let mut props = BTreeMap::new();
        if !row[2].is_null() {
            props.insert("rid".to_string(), canon(&pv_of_json(&row[2])));
        }
        if !row[4].is_null() {
            props.insert("w".to_string(), canon(&pv_of_json(&row[4])));
        }
        d.edges.push(DEdge {
            key: if row[2].is_null() { String::new() } else { format!("r:{}", canon(&pv_of_json(&row[2]))) },
            src: format!("u:{}", canon(&pv_of_json(&row[0]))),
            dst: format!("u:{}", canon(&pv_of_json(&row[1]))),
            ty: row[3].as_str().unwrap_or("").to_string(),
            props,
        });
    }
    d.nodes.sort();
    d.edges.sort();
    Ok(d)
}

struct RealRun {
    befores: Vec<Dump>,
    afters: Vec<Dump>,
    acks: Vec<Option<bool>>,
}

fn c19_real_run(bin: &std::path::Path, case: &C19Case) -> Result<RealRun, String> {
    let tmp = tempfile::tempdir().map_err(|e| e.to_string())?;
    let dir = tmp.path().to_path_buf();
    let mut run = RealRun { befores: vec![], afters: vec![], acks: vec![] };
    let mut ops = case.ops.clone();
    ops.push(Op::Restart);
    let mut srv = real_spawn(bin, &dir)?;
    for op in &ops {
        match op {
            Op::Resp(q) => run.acks.push(Some(real_resp(srv.resp, q)?)),
            Op::Http(q) => run.acks.push(Some(real_http(srv.http, q)?.0 == 200)),
            Op::Restart => {
                run.acks.push(None);
                run.befores.push(real_dump(srv.http)?);
                drop(srv); // kill -9 and reap
                srv = real_spawn(bin, &dir)?;
                run.afters.push(real_dump(srv.http)?);
            }
        }
    }
    Ok(run)
}

/// Build (or reuse) the real server binary from /repo's current tree. None = unavailable.
fn build_real_binary() -> Result<std::path::PathBuf, String> {
    let target = std::path::Path::new(VERIF_ROOT).join("target/realbin");
    let out = std::process::Command::new("cargo")
        .args(["build", "--release", "--offline", "--manifest-path", "/repo/Cargo.toml", "--bin", "samyama", "--target-dir"])
        .arg(&target)
        .env_remove("RUSTFLAGS")
        .env("CARGO_NET_OFFLINE", "true")
        .current_dir(VERIF_ROOT)
        .output()
        .map_err(|e| format!("cargo not runnable: {e}"))?;
    if !out.status.success() {
        return Err(format!("cargo build --bin samyama failed: {}", truncate(&String::from_utf8_lossy(&out.stderr).lines().rev().take(6).collect::<Vec<_>>().join(" | "), 600)));
    }
    let bin = target.join("release/samyama");
    if bin.exists() {
        Ok(bin)
    } else {
        Err(format!("{} missing after build", bin.display()))
    }
}

/// thorough tier: `n` generated cases through the real binary. Each real restart must either
/// preserve the graph (strict) or — under active findings — serve exactly what the in-process
/// replica serves for the same case (which the quirk model has explained).
fn c19_real_phase(args: &Args, ev: &mut Evidence, q1: bool, q2: bool, n: usize) {
    let bin = match build_real_binary() {
        Ok(b) => b,
        Err(e) => {
            ev.set("real_binary", json!(format!("unavailable: {e}")));
            ev.assume("real-binary restarts not run (binary unavailable); the in-process replica of main.rs's recovery stands alone");
            return;
        }
    };
    let raws = generate(args.seed ^ 0x5eed_b1a5, n, &c19_strategy(6));
    let (mut agree, mut strict_ok, mut explained) = (0u64, 0u64, 0u64);
    for raw in &raws {
        let case = c19_build(raw);
        let inproc = match c19_run(&case) {
            Ok(r) if r.unjudgeable.is_none() => r,
            _ => continue,
        };
        let real = match c19_real_run(&bin, &case) {
            Ok(r) => r,
            Err(e) => {
                // infrastructure trouble (ports, spawn, timeouts) is never a violation
                ev.class("real_binary:infrastructure_error");
                ev.set("real_binary_last_error", json!(e));
                continue;
            }
        };
        ev.case();
        ev.class("real_binary:case");
        let replica_agrees = real.acks == inproc.acks && real.befores == inproc.befores && real.afters == inproc.afters;
        if replica_agrees {
            agree += 1;
        }
        if inproc.acked_changes > 0 {
            ev.nontrivial(&format!("real:{}", serde_json::to_string(&case).unwrap()));
        }
        let strict = real.befores == real.afters;
        if strict {
            strict_ok += 1;
            continue;
        }
        let verdict = c19_judge(&inproc, q1, q2);
        match verdict {
            Ok(Some(ids)) if replica_agrees => {
                explained += 1;
                for id in ids {
                    ev.kf_hit(id);
                }
            }
            _ => {
                let i = real.befores.iter().zip(&real.afters).position(|(b, a)| b != a).unwrap_or(0);
                let msg = format!(
                    "real samyama binary: graph served after restart #{i} differs from the graph before the kill (before → after):\n{}{}",
                    real.befores[i].diff(&real.afters[i]),
                    if replica_agrees { String::new() } else { format!("in-process replica disagrees with the binary (acks {:?} vs {:?}; replica after → real after):\n{}", inproc.acks, real.acks, inproc.afters.get(i).map(|d| d.diff(&real.afters[i])).unwrap_or_default()) }
                );
                report_violation(ev, &json!(case), &msg);
                break;
            }
        }
    }
    ev.set("real_binary", json!({"cases": raws.len(), "replica_agrees": agree, "held_strictly": strict_ok, "explained_by_findings": explained}));
}

// =======================================================================================
// development aid: VC_PROBE_FILE=<file with one statement per line> vc_server PROBE
fn probe() {
    let rt = new_rt();
    let graph = GraphSpec {
        nodes: vec![
            GNode { uid: 1, labels: vec!["A".into()], props: vec![("p".into(), Pv::I(1))] },
            GNode { uid: 2, labels: vec!["B".into()], props: vec![("p".into(), Pv::S("a".into()))] },
            GNode { uid: 3, labels: vec!["A".into(), "B".into()], props: vec![] },
        ],
        edges: vec![GEdge { rid: 1001, src: 0, dst: 1, ty: "R".into(), props: vec![] }, GEdge { rid: 1002, src: 1, dst: 2, ty: "S".into(), props: vec![] }],
        indexes: vec![],
    };
    let txt = std::fs::read_to_string(std::env::var("VC_PROBE_FILE").expect("VC_PROBE_FILE")).unwrap();
    for line in txt.lines().filter(|l| !l.trim().is_empty()) {
        let stmt = line.replace("\\n", "\n").replace("\\t", "\t");
        let case = C23Case { graph: graph.clone(), stmt: stmt.clone(), class: String::new() };
        println!("== {:?}", stmt);
        match c23_run(&rt, &case, true, true) {
            Ok(r) => {
                println!("   is_write={:?} changed={} heur(resp={}, http={})", r.is_write, r.changed, resp_heuristic_is_write(&stmt), http_heuristic_is_write(&stmt));
                println!("   emb : {}", r.emb.brief());
                println!("   sel : {}{}", r.selected.brief(), if r.tolerated_refusal { "  [tolerated refusal]" } else { "" });
                println!("   resp: {}", r.resp.brief());
                println!("   http: {}", r.http.brief());
                for (n, m) in &r.fails {
                    println!("   FAIL[{n}]{} {}", if r.quirk_explains.contains(n) { "(quirk)" } else { "" }, truncate(m, 300));
                }
            }
            Err(m) => println!("   PANIC {m}"),
        }
    }
}
