//! C15 (WAL replays exactly the durable prefix, in order) and C17 (persistent storage never
//! mixes tenants) — DESIGN §4.
use proptest::prelude::*;
use proptest::test_runner::{TestCaseError, TestError, TestRunner};
use samyama::graph::{Edge, EdgeId, EdgeType, Label, Node, NodeId, PropertyMap, PropertyValue};
use samyama::persistence::tenant::ResourceQuotas;
use samyama::persistence::{PersistenceManager, Wal, WalEntry, WalError};
use serde::{Deserialize, Serialize};
use serde_json::json;
use std::cell::RefCell;
use std::collections::{BTreeMap, BTreeSet};
use std::path::{Path, PathBuf};
use std::sync::atomic::Ordering;
use vcheck::forkrun::{run_isolated, Outcome, HARD_CAP, LIVE};
use vcheck::*;

// the fork-isolated probe of C15 needs an allocation verdict (a flipped length prefix makes the
// pinned replay allocate and zero up to 4 GiB before it notices the file is too short)
#[global_allocator]
static ALLOC: vcheck::forkrun::CountingAlloc = vcheck::forkrun::CountingAlloc;

fn main() {
    let args = parse_args();
    quiet_panics();
    start_watchdog(args.tier.pick(900, 3600));
    match args.prop.as_str() {
        "C15" => c15(&args),
        "C17" => c17(&args),
        p => {
            eprintln!("vc_wal does not serve {p}");
            std::process::exit(2)
        }
    }
}

/// proptest search like `vcheck::search`, with a smaller shrink budget: one history evaluation
/// of C15 is a whole fault enumeration (tens of ms).
fn search_budget<S, F>(seed: u64, cases: u32, max_shrink: u32, strat: &S, check: F) -> Option<(S::Value, String)>
where
    S: Strategy,
    S::Value: Clone + std::fmt::Debug,
    F: Fn(&S::Value) -> Result<(), String>,
{
    let mut cfg = pt_config(seed, cases);
    cfg.max_shrink_iters = max_shrink;
    let mut runner = TestRunner::new(cfg);
    let res = runner.run(strat, |v| match check(&v) {
        Ok(()) => Ok(()),
        Err(m) => Err(TestCaseError::fail(m)),
    });
    match res {
        Ok(()) => None,
        Err(TestError::Fail(reason, v)) => Some((v, reason.message().to_string())),
        Err(TestError::Abort(reason)) => {
            eprintln!("INCONCLUSIVE: proptest aborted: {}", reason.message());
            std::process::exit(2);
        }
    }
}

// =======================================================================================
// C15
// =======================================================================================

const KF1: &str = "KF-C15-1"; // reopen restarts the sequence at the newest file's name
const KF2: &str = "KF-C15-2"; // a tail torn inside a record body fails the replay
const KF3: &str = "KF-C15-3"; // checksum = 8-bit XOR over the re-serialised entry only

#[derive(Clone, Debug, Serialize, Deserialize, PartialEq, Eq, Hash)]
enum EntrySpec {
    CreateNode { tenant: String, node_id: u64, labels: Vec<String>, properties: Vec<u8> },
    CreateEdge { tenant: String, edge_id: u64, source: u64, target: u64, edge_type: String, properties: Vec<u8> },
    DeleteNode { tenant: String, node_id: u64 },
    DeleteEdge { tenant: String, edge_id: u64 },
    UpdateNode { tenant: String, node_id: u64, properties: Vec<u8>, version: u64 },
    UpdateEdge { tenant: String, edge_id: u64, properties: Vec<u8>, version: u64 },
    Checkpoint { sequence: u64, timestamp: i64 },
    /// a record whose size is the point: `shape` says which field carries `size` bytes
    /// ("node_blob", "update_blob", "edge_blob", "labels", "tenant", "edge_type"); bytes are
    /// `fill + 31*i` (fill 0 = all zero); expanded at run time so replay files stay small
    Big { shape: String, size: usize, fill: u8 },
}

fn big_bytes(size: usize, fill: u8) -> Vec<u8> {
    if fill == 0 {
        vec![0u8; size]
    } else {
        (0..size).map(|i| fill.wrapping_add((i as u8).wrapping_mul(31))).collect()
    }
}
fn big_text(size: usize, fill: u8) -> String {
    (0..size).map(|i| (b'a' + ((fill as usize + i) % 26) as u8) as char).collect()
}

impl EntrySpec {
    fn to_entry(&self) -> WalEntry {
        if let EntrySpec::Big { shape, size, fill } = self {
            return match shape.as_str() {
                "update_blob" => WalEntry::UpdateNodeProperties { tenant: "default".into(), node_id: 7, properties: big_bytes(*size, *fill), version: 3 },
                "edge_blob" => WalEntry::CreateEdge { tenant: "default".into(), edge_id: 9, source: 1, target: 2, edge_type: "KNOWS".into(), properties: big_bytes(*size, *fill) },
                // label list of about `size` bytes: 8-byte labels
                "labels" => WalEntry::CreateNode { tenant: "default".into(), node_id: 7, labels: (0..(*size / 8).max(1)).map(|i| format!("L{:07}", i % 10_000_000)).collect(), properties: vec![1, 2, 3] },
                "tenant" => WalEntry::DeleteNode { tenant: big_text(*size, *fill), node_id: 7 },
                "edge_type" => WalEntry::CreateEdge { tenant: "default".into(), edge_id: 9, source: 1, target: 2, edge_type: big_text(*size, *fill), properties: vec![] },
                _ => WalEntry::CreateNode { tenant: "default".into(), node_id: 7, labels: vec!["Person".into()], properties: big_bytes(*size, *fill) },
            };
        }
        match self.clone() {
            EntrySpec::CreateNode { tenant, node_id, labels, properties } => WalEntry::CreateNode { tenant, node_id, labels, properties },
            EntrySpec::CreateEdge { tenant, edge_id, source, target, edge_type, properties } => WalEntry::CreateEdge { tenant, edge_id, source, target, edge_type, properties },
            EntrySpec::DeleteNode { tenant, node_id } => WalEntry::DeleteNode { tenant, node_id },
            EntrySpec::DeleteEdge { tenant, edge_id } => WalEntry::DeleteEdge { tenant, edge_id },
            EntrySpec::UpdateNode { tenant, node_id, properties, version } => WalEntry::UpdateNodeProperties { tenant, node_id, properties, version },
            EntrySpec::UpdateEdge { tenant, edge_id, properties, version } => WalEntry::UpdateEdgeProperties { tenant, edge_id, properties, version },
            EntrySpec::Checkpoint { sequence, timestamp } => WalEntry::Checkpoint { sequence, timestamp },
            EntrySpec::Big { .. } => unreachable!(),
        }
    }
    fn kind(&self) -> &'static str {
        match self {
            EntrySpec::CreateNode { .. } => "create_node",
            EntrySpec::CreateEdge { .. } => "create_edge",
            EntrySpec::DeleteNode { .. } => "delete_node",
            EntrySpec::DeleteEdge { .. } => "delete_edge",
            EntrySpec::UpdateNode { .. } => "update_node",
            EntrySpec::UpdateEdge { .. } => "update_edge",
            EntrySpec::Checkpoint { .. } => "checkpoint_entry",
            EntrySpec::Big { .. } => "big",
        }
    }
}

#[derive(Clone, Debug, Serialize, Deserialize, PartialEq, Eq, Hash)]
enum WalOp {
    Append(EntrySpec),
    Flush,
    /// drop the handle (BufWriter flushes) and `Wal::new` the same directory
    Reopen,
    /// `Wal::checkpoint(sequence)`: appends a marker (wall-clock timestamp), flushes, closes the file
    Checkpoint(u64),
}

#[derive(Clone, Debug, Serialize, Deserialize, PartialEq, Eq, Hash)]
struct FaultSpec {
    /// "trunc": newest file cut to `offset` bytes; "flip": byte `offset` of the newest file XOR `mask`;
    /// "trunc_reopen" / "flip_reopen": the same damage, then `Wal::new` + the case's `tail` before the replay;
    /// "none": no fault at all (only the fault-free checks run)
    kind: String,
    #[serde(default)]
    offset: usize,
    #[serde(default)]
    mask: u8,
    /// `replay(from, ..)`
    #[serde(default)]
    from: u64,
}

#[derive(Clone, Debug, Serialize, Deserialize, PartialEq, Eq, Hash)]
struct WalCase {
    ops: Vec<WalOp>,
    /// life after the crash: the newest file is damaged, then the directory is opened again with
    /// `Wal::new` and these operations run before the replay (empty = scenario class not exercised)
    #[serde(default)]
    tail: Vec<WalOp>,
    /// None = enumerate every fault; Some = only this one (replay files)
    #[serde(default)]
    fault: Option<FaultSpec>,
}

/// what one appended record must look like when the callback sees it
#[derive(Clone, Debug)]
enum Exp {
    Exact(Vec<u8>),
    /// marker written by `Wal::checkpoint(s)`: timestamp is the wall clock, so it is a wildcard
    Marker(u64),
}
impl Exp {
    fn matches(&self, got: &[u8]) -> bool {
        match self {
            Exp::Exact(b) => b.as_slice() == got,
            Exp::Marker(s) => got.len() == 20 && got[0..4] == 6u32.to_le_bytes() && got[4..12] == s.to_le_bytes(),
        }
    }
    fn show(&self) -> String {
        match self {
            Exp::Exact(b) => match bincode::deserialize::<WalEntry>(b) {
                Ok(e) => truncate(&format!("{e:?}"), 120),
                Err(_) => format!("{b:?}"),
            },
            Exp::Marker(s) => format!("Checkpoint{{sequence:{s},timestamp:*}}"),
        }
    }
}
fn show_got(b: &[u8]) -> String {
    match bincode::deserialize::<WalEntry>(b) {
        Ok(e) => truncate(&format!("{e:?}"), 120),
        Err(_) => format!("{b:?}"),
    }
}
fn seq_matches(exp: &[&Exp], got: &[Vec<u8>]) -> bool {
    exp.len() == got.len() && exp.iter().zip(got).all(|(e, g)| e.matches(g))
}
fn is_prefix(exp: &[&Exp], got: &[Vec<u8>]) -> bool {
    got.len() <= exp.len() && exp.iter().zip(got).all(|(e, g)| e.matches(g))
}
fn show_seq_exp(exp: &[&Exp]) -> String {
    format!("[{}]", exp.iter().map(|e| e.show()).collect::<Vec<_>>().join(", "))
}
fn show_seq_got(got: &[Vec<u8>]) -> String {
    format!("[{}]", got.iter().map(|e| show_got(e)).collect::<Vec<_>>().join(", "))
}

/// result of one `Wal::replay`
#[derive(Clone, Debug, Serialize, Deserialize)]
struct Rep {
    ok: bool,
    /// Err was an I/O UnexpectedEof ("failed to fill whole buffer")
    eof: bool,
    err: String,
    delivered: Vec<Vec<u8>>,
}

/// Err(String) = panic inside replay
fn do_replay(wal: &Wal, from: u64) -> Result<Rep, String> {
    catch(|| {
        let mut delivered: Vec<Vec<u8>> = Vec::new();
        let r = wal.replay(from, |e| {
            delivered.push(bincode::serialize(e).expect("serialize entry"));
            Ok(())
        });
        match r {
            Ok(_) => Rep { ok: true, eof: false, err: String::new(), delivered },
            Err(e) => {
                let eof = matches!(&e, WalError::Io(io) if io.kind() == std::io::ErrorKind::UnexpectedEof);
                Rep { ok: false, eof, err: e.to_string(), delivered }
            }
        }
    })
}

/// Independent reading of the on-disk format with the *weak* integrity rule of the pinned
/// tree (KF-C15-3): record = [len u32][bincode(sequence u64, entry, checksum u32)], trailing
/// bytes inside a frame ignored, checksum = XOR of the re-serialised entry's bytes, the
/// sequence and the length prefix not covered. Used (a) as the quirk model of KF-C15-3 and
/// (b) to predict the largest buffer the replay will ask for (pre-screening, see `c15_probe_alloc`).
#[derive(Deserialize)]
struct RecMirror {
    sequence: u64,
    entry: WalEntry,
    checksum: u32,
}
struct Weak {
    ok: bool,
    delivered: Vec<Vec<u8>>,
    max_len: usize,
}
fn weak_parse(files: &[&[u8]], from: u64, torn_is_err: bool) -> Weak {
    let mut w = Weak { ok: true, delivered: Vec::new(), max_len: 0 };
    for f in files {
        let mut pos = 0usize;
        loop {
            if f.len() - pos < 4 {
                break;
            }
            let len = u32::from_le_bytes(f[pos..pos + 4].try_into().unwrap()) as usize;
            w.max_len = w.max_len.max(len);
            pos += 4;
            if f.len() - pos < len {
                if torn_is_err {
                    w.ok = false;
                    return w;
                }
                break;
            }
            let body = &f[pos..pos + len];
            pos += len;
            let rec: RecMirror = match bincode::deserialize(body) {
                Ok(r) => r,
                Err(_) => {
                    w.ok = false;
                    return w;
                }
            };
            let eb = bincode::serialize(&rec.entry).unwrap_or_default();
            let x = eb.iter().fold(0u32, |a, b| a ^ (*b as u32));
            if x != rec.checksum {
                w.ok = false;
                return w;
            }
            if rec.sequence < from {
                continue;
            }
            w.delivered.push(eb);
        }
    }
    w
}

/// frames of a pristine file: (start, end) of each [len][body]
fn walk_frames(f: &[u8]) -> Result<Vec<(usize, usize)>, String> {
    let mut out = Vec::new();
    let mut pos = 0usize;
    while pos < f.len() {
        if f.len() - pos < 4 {
            return Err(format!("pristine file ends inside a length prefix at {pos}"));
        }
        let len = u32::from_le_bytes(f[pos..pos + 4].try_into().unwrap()) as usize;
        if f.len() - pos - 4 < len {
            return Err(format!("pristine file ends inside a record at {pos} (len {len})"));
        }
        out.push((pos, pos + 4 + len));
        pos += 4 + len;
    }
    Ok(out)
}

#[derive(Clone, Copy, Default)]
struct Kf15 {
    k1: bool,
    k2: bool,
    k3: bool,
    /// this tree allocates the claimed record length before reading it (see `c15_probe_alloc`)
    prescreen: bool,
}

#[derive(Debug)]
struct Fail15 {
    msg: String,
    fault: Option<FaultSpec>,
}
fn fail(msg: String) -> Fail15 {
    Fail15 { msg, fault: None }
}

const MASKS: [u8; 3] = [0x01, 0x80, 0xFF];
/// flips predicted to make the replay request more than this are pre-screened out when the probe
/// shows that the tree allocates the claimed length up front
const BIG: usize = 1 << 20;

/// everything known about an executed history
struct Hist {
    exps: Vec<Exp>,
    seqs: Vec<u64>,
    reopens: usize,
    /// pristine bytes of every file in name order
    files: Vec<(PathBuf, Vec<u8>)>,
    /// frames of the newest file
    frames: Vec<(usize, usize)>,
    /// global record index of the newest file's first record
    base: usize,
}

fn list_wal_files(dir: &Path) -> Vec<PathBuf> {
    let mut v: Vec<PathBuf> = std::fs::read_dir(dir)
        .map(|rd| rd.filter_map(|e| e.ok().map(|e| e.path())).filter(|p| p.file_name().and_then(|n| n.to_str()).map(|n| n.starts_with("wal-") && n.ends_with(".log")).unwrap_or(false)).collect())
        .unwrap_or_default();
    v.sort();
    v
}

/// Run the history against a fresh directory; check the append return values.
fn c15_build(dir: &Path, ops: &[WalOp], kf: Kf15, ev: &RefCell<&mut Evidence>) -> Result<Hist, Fail15> {
    let _ = std::fs::remove_dir_all(dir);
    let mut wal = catch(|| Wal::new(dir)).map_err(|p| fail(format!("Wal::new panicked: {p}")))?.map_err(|e| fail(format!("Wal::new failed: {e}")))?;
    let mut exps: Vec<Exp> = Vec::new();
    let mut seqs: Vec<u64> = Vec::new();
    let mut reopens = 0usize;
    // quirk model of KF-C15-1: a new handle starts from the largest file *name*; a file is named
    // after the sequence of the first record written to it
    let mut q_seq = 0u64;
    let mut q_names: Vec<u64> = Vec::new();
    let mut q_open = false;
    let mut q_seqs: Vec<u64> = Vec::new();
    let q_append = |q_seq: &mut u64, q_open: &mut bool, q_names: &mut Vec<u64>, q_seqs: &mut Vec<u64>| {
        *q_seq += 1;
        if !*q_open {
            q_names.push(*q_seq);
            *q_open = true;
        }
        q_seqs.push(*q_seq);
    };
    for (i, op) in ops.iter().enumerate() {
        match op {
            WalOp::Append(e) => {
                let entry = e.to_entry();
                let bytes = bincode::serialize(&entry).expect("serialize");
                let s = catch(|| wal.append(entry)).map_err(|p| fail(format!("append panicked at op {i}: {p}")))?.map_err(|e| fail(format!("append failed at op {i}: {e}")))?;
                exps.push(Exp::Exact(bytes));
                seqs.push(s);
                q_append(&mut q_seq, &mut q_open, &mut q_names, &mut q_seqs);
            }
            WalOp::Flush => {
                catch(|| wal.flush()).map_err(|p| fail(format!("flush panicked at op {i}: {p}")))?.map_err(|e| fail(format!("flush failed at op {i}: {e}")))?;
            }
            WalOp::Reopen => {
                drop(wal);
                wal = catch(|| Wal::new(dir)).map_err(|p| fail(format!("Wal::new panicked at op {i}: {p}")))?.map_err(|e| fail(format!("Wal::new failed at op {i}: {e}")))?;
                reopens += 1;
                q_seq = q_names.iter().cloned().max().unwrap_or(0);
                q_open = false;
            }
            WalOp::Checkpoint(x) => {
                catch(|| wal.checkpoint(*x)).map_err(|p| fail(format!("checkpoint panicked at op {i}: {p}")))?.map_err(|e| fail(format!("checkpoint failed at op {i}: {e}")))?;
                exps.push(Exp::Marker(*x));
                seqs.push(wal.current_sequence());
                q_append(&mut q_seq, &mut q_open, &mut q_names, &mut q_seqs);
                q_open = false;
            }
        }
    }
    drop(wal);

    // append return values strictly increasing, also across reopen
    let increasing = seqs.windows(2).all(|w| w[0] < w[1]);
    if !increasing {
        if kf.k1 && seqs == q_seqs {
            ev.borrow_mut().kf_hit(KF1);
        } else {
            return Err(fail(format!("append return values are not strictly increasing: {seqs:?} (file-name-restart model predicts {q_seqs:?})")));
        }
    }

    // on-disk layout, read independently of the grouping the code chose
    let paths = list_wal_files(dir);
    let mut files = Vec::new();
    let mut total = 0usize;
    let mut frames_last = Vec::new();
    for p in &paths {
        let b = std::fs::read(p).map_err(|e| fail(format!("read {}: {e}", p.display())))?;
        let fr = walk_frames(&b).map_err(|m| fail(format!("{}: {m}", p.display())))?;
        total += fr.len();
        frames_last = fr;
        files.push((p.clone(), b));
    }
    if total != exps.len() {
        return Err(fail(format!("{} records were appended but the log files hold {} frames", exps.len(), total)));
    }
    let base = total - frames_last.len();
    Ok(Hist { exps, seqs, reopens, files, frames: frames_last, base })
}

/// records (by returned sequence) a `replay(from)` must deliver, restricted to global index < upto
fn expected<'a>(h: &'a Hist, from: u64, upto: usize) -> Vec<&'a Exp> {
    h.exps.iter().zip(&h.seqs).take(upto).filter(|(_, s)| **s >= from).map(|(e, _)| e).collect()
}

enum Verdict {
    Pass,
    Known(&'static str),
    Bad(String),
}

fn judge_trunc(h: &Hist, n: usize, rep: &Rep, kf: Kf15) -> Verdict {
    let complete = h.frames.iter().filter(|f| f.1 <= n).count();
    let exp = expected(h, 0, h.base + complete);
    if rep.ok && seq_matches(&exp, &rep.delivered) {
        return Verdict::Pass;
    }
    // KF-C15-2: the cut leaves a whole length prefix and an incomplete body; the replay delivers
    // the complete prefix and then fails with UnexpectedEof
    let in_body = h.frames.iter().any(|f| n >= f.0 + 4 && n < f.1);
    if kf.k2 && in_body && !rep.ok && rep.eof && seq_matches(&exp, &rep.delivered) {
        return Verdict::Known(KF2);
    }
    Verdict::Bad(format!(
        "newest file truncated to {n} bytes: replay(0) -> {} delivering {}; expected Ok delivering the {} complete records {}",
        if rep.ok { "Ok".to_string() } else { format!("Err({})", rep.err) },
        show_seq_got(&rep.delivered),
        exp.len(),
        show_seq_exp(&exp)
    ))
}

fn judge_flip(h: &Hist, all_files: &[&[u8]], off: usize, mask: u8, from: u64, rep: &Rep, kf: Kf15) -> Verdict {
    let full = expected(h, from, h.exps.len());
    if rep.ok && seq_matches(&full, &rep.delivered) {
        return Verdict::Pass;
    }
    if !rep.ok && is_prefix(&full, &rep.delivered) {
        return Verdict::Pass;
    }
    // a length prefix flipped to point past the end of the file is indistinguishable from a torn
    // tail for any reader of this format: ending the log there is accepted
    let (j, fr) = h.frames.iter().enumerate().find(|(_, f)| off >= f.0 && off < f.1).expect("offset inside a frame");
    if off < fr.0 + 4 {
        let newest = all_files[all_files.len() - 1];
        let new_len = u32::from_le_bytes(newest[fr.0..fr.0 + 4].try_into().unwrap()) as usize;
        if new_len > newest.len() - (fr.0 + 4) {
            let before = expected(h, from, h.base + j);
            if rep.ok && seq_matches(&before, &rep.delivered) {
                return Verdict::Pass;
            }
        }
    }
    if kf.k3 {
        for torn_is_err in [true, false] {
            let w = weak_parse(all_files, from, torn_is_err);
            if w.ok == rep.ok && w.delivered == rep.delivered {
                return Verdict::Known(KF3);
            }
        }
    }
    Verdict::Bad(format!(
        "byte {off} of the newest file flipped with mask {mask:#04x} (record #{} of the log, offset {} in its frame): replay({from}) -> {} delivering {}; allowed: Err after a prefix of, or Ok with exactly, {}",
        h.base + j + 1,
        off - fr.0,
        if rep.ok { "Ok".to_string() } else { format!("Err({})", rep.err) },
        show_seq_got(&rep.delivered),
        show_seq_exp(&full)
    ))
}

/// Offsets of the newest file that the fault enumeration visits. Small logs: every byte.
/// Newest file above 4 KiB: every byte of small frames; for a big frame its first 14 bytes
/// (boundary, length prefix, sequence, first entry bytes), its last 6, the quartiles and the
/// offsets around 64 KiB. Every replay re-reads the whole log, so when the log (all files)
/// exceeds 32 KiB the list is thinned to max(5, 2 MiB / log size) offsets, keeping first the
/// decision points of each frame (start, end of the length prefix, first entry byte, last byte).
fn fault_offsets(frames: &[(usize, usize)], file_len: usize, log_bytes: usize) -> Vec<usize> {
    let mut v: BTreeSet<usize> = BTreeSet::new();
    if file_len <= 4096 {
        v.extend(0..file_len);
    } else {
        for &(a, b) in frames {
            let flen = b - a;
            if flen <= 600 {
                v.extend(a..b);
            } else {
                v.extend(a..a + 14);
                v.extend(b - 6..b);
                v.extend([a + flen / 4, a + flen / 2, a + 3 * flen / 4]);
                for k in [65_534usize, 65_535, 65_536, 65_537, 65_540] {
                    if k < flen {
                        v.insert(a + k);
                    }
                }
            }
        }
    }
    if log_bytes <= (32 << 10) {
        return v.into_iter().collect();
    }
    let max = ((2usize << 20) / log_bytes).max(5);
    let thin = |xs: Vec<usize>, k: usize| -> Vec<usize> {
        if xs.len() <= k {
            xs
        } else if k == 0 {
            Vec::new()
        } else {
            (0..k).map(|i| xs[i * xs.len() / k]).collect()
        }
    };
    let mut prio: BTreeSet<usize> = BTreeSet::new();
    for &(a, b) in frames {
        prio.extend([a, a + 3, a + 4, a + 12, b - 1].into_iter().filter(|o| *o < b && v.contains(o)));
    }
    let rest: Vec<usize> = v.iter().cloned().filter(|o| !prio.contains(o)).collect();
    let mut out: BTreeSet<usize> = thin(prio.into_iter().collect(), max).into_iter().collect();
    let room = max.saturating_sub(out.len());
    out.extend(thin(rest, room));
    out.into_iter().collect()
}

fn flip_region(fr: (usize, usize), off: usize) -> &'static str {
    let rel = off - fr.0;
    let flen = fr.1 - fr.0;
    if rel < 4 {
        "flip_in_length_prefix"
    } else if rel < 12 {
        "flip_in_sequence"
    } else if rel >= flen - 4 {
        "flip_in_checksum"
    } else {
        "flip_in_entry"
    }
}

/// Open the (damaged) directory again and run the tail. Returns the records it appended.
fn run_tail(dir: &Path, tail: &[WalOp]) -> Result<(Vec<Exp>, Vec<u64>), String> {
    let mut wal = catch(|| Wal::new(dir)).map_err(|p| format!("Wal::new panicked: {p}"))?.map_err(|e| format!("Wal::new failed: {e}"))?;
    let mut exps = Vec::new();
    let mut seqs = Vec::new();
    for (i, op) in tail.iter().enumerate() {
        match op {
            WalOp::Append(e) => {
                let entry = e.to_entry();
                let bytes = bincode::serialize(&entry).expect("serialize");
                let s = catch(|| wal.append(entry)).map_err(|p| format!("append panicked at tail op {i}: {p}"))?.map_err(|e| format!("append failed at tail op {i}: {e}"))?;
                exps.push(Exp::Exact(bytes));
                seqs.push(s);
            }
            WalOp::Flush => {
                catch(|| wal.flush()).map_err(|p| format!("flush panicked at tail op {i}: {p}"))?.map_err(|e| format!("flush failed at tail op {i}: {e}"))?;
            }
            WalOp::Reopen => {
                drop(wal);
                wal = catch(|| Wal::new(dir)).map_err(|p| format!("Wal::new panicked at tail op {i}: {p}"))?.map_err(|e| format!("Wal::new failed at tail op {i}: {e}"))?;
            }
            WalOp::Checkpoint(x) => {
                catch(|| wal.checkpoint(*x)).map_err(|p| format!("checkpoint panicked at tail op {i}: {p}"))?.map_err(|e| format!("checkpoint failed at tail op {i}: {e}"))?;
                exps.push(Exp::Marker(*x));
                seqs.push(wal.current_sequence());
            }
        }
    }
    drop(wal);
    Ok((exps, seqs))
}

/// Execute one case. `Ok(())` = property held (or explained by enabled known findings).
fn c15_case(dir: &Path, case: &WalCase, kf: Kf15, ev: &RefCell<&mut Evidence>) -> Result<(), Fail15> {
    let h = c15_build(dir, &case.ops, kf, ev)?;
    let hh = fnv(&(&case.ops, &case.tail));
    {
        let mut e = ev.borrow_mut();
        e.class("history");
        if h.reopens > 0 {
            e.class("history_with_reopen");
        }
        if case.ops.iter().any(|o| matches!(o, WalOp::Checkpoint(_))) {
            e.class("history_with_checkpoint");
        }
        if h.files.len() > 1 {
            e.class("history_multi_file");
        }
        for o in &case.ops {
            if let WalOp::Append(a) = o {
                e.class(&format!("append_{}", a.kind()));
            }
        }
        // record-size classes: where the big records sit in the log
        let recs: Vec<usize> = case.ops.iter().enumerate().filter(|(_, o)| matches!(o, WalOp::Append(_) | WalOp::Checkpoint(_))).map(|(i, _)| i).collect();
        for (k, &i) in recs.iter().enumerate() {
            if let WalOp::Append(EntrySpec::Big { shape, size, .. }) = &case.ops[i] {
                e.class(match *size {
                    0..=300 => "big_record_255_257B",
                    301..=5000 => "big_record_4KiB",
                    5001..=65_300 => "big_record_below_64KiB",
                    65_301..=65_800 => "big_record_64KiB_edge",
                    65_801..=1_000_000 => "big_record_65KiB_plus",
                    1_000_001..=2_000_000 => "big_record_1MiB",
                    _ => "big_record_16MiB",
                });
                e.class(&format!("big_record_shape_{shape}"));
                e.class(if recs.len() == 1 {
                    "big_record_only"
                } else if k == 0 {
                    "big_record_first"
                } else if k + 1 == recs.len() {
                    "big_record_last"
                } else {
                    "big_record_middle"
                });
                if case.ops[..i].iter().any(|o| matches!(o, WalOp::Reopen | WalOp::Checkpoint(_))) {
                    e.class("big_record_after_rotation");
                }
                if case.ops[i + 1..].iter().any(|o| matches!(o, WalOp::Reopen | WalOp::Checkpoint(_))) && case.ops[i + 1..].iter().any(|o| matches!(o, WalOp::Append(_))) {
                    e.class("big_record_in_older_file");
                }
            }
        }
    }
    let wal = catch(|| Wal::new(dir)).map_err(|p| fail(format!("Wal::new panicked: {p}")))?.map_err(|e| fail(format!("Wal::new failed: {e}")))?;

    // ---- no fault: replay(from) for several from
    let mut froms: BTreeSet<u64> = BTreeSet::new();
    froms.insert(0);
    froms.insert(1);
    froms.insert(u64::MAX);
    let distinct: Vec<u64> = h.seqs.iter().cloned().collect::<BTreeSet<_>>().into_iter().collect();
    if let Some(m) = distinct.last() {
        froms.insert(m.saturating_add(1));
    }
    let step = (distinct.len() / 5).max(1);
    for s in distinct.iter().step_by(step) {
        froms.insert(*s);
    }
    if let Some(m) = distinct.last() {
        froms.insert(*m);
    }
    for from in froms {
        let rep = do_replay(&wal, from).map_err(|p| fail(format!("replay({from}) panicked without a fault: {p}")))?;
        let exp = expected(&h, from, h.exps.len());
        {
            let mut e = ev.borrow_mut();
            e.case();
            e.class("nofault_replay");
            if h.reopens > 0 {
                e.nontrivial(&(hh, "nofault", from));
            }
        }
        if !(rep.ok && seq_matches(&exp, &rep.delivered)) {
            return Err(fail(format!(
                "no fault: replay({from}) -> {} delivering {}; expected Ok delivering {} (append returned sequences {:?})",
                if rep.ok { "Ok".to_string() } else { format!("Err({})", rep.err) },
                show_seq_got(&rep.delivered),
                show_seq_exp(&exp),
                h.seqs
            )));
        }
    }
    if h.files.is_empty() {
        return Ok(());
    }

    // ---- faults on the newest file
    let (newest_path, pristine) = h.files.last().cloned().unwrap();
    let earlier: Vec<&[u8]> = h.files[..h.files.len() - 1].iter().map(|f| f.1.as_slice()).collect();
    let restore = || {
        let _ = std::fs::write(&newest_path, &pristine);
    };
    let seq_of_frame = |j: usize| h.seqs[h.base + j];
    let frame_of = |off: usize| h.frames.iter().enumerate().find(|(_, f)| off >= f.0 && off < f.1).map(|(j, f)| (j, *f)).unwrap();

    // truncation only ever shortens the current content (enumeration runs from long to short)
    let fh_t = std::fs::OpenOptions::new().write(true).open(&newest_path).map_err(|e| fail(format!("harness open: {e}")))?;
    let trunc_one = |n: usize| -> Result<(), Fail15> {
        fh_t.set_len(n as u64).map_err(|e| fail(format!("harness truncate: {e}")))?;
        let spec = FaultSpec { kind: "trunc".into(), offset: n, mask: 0, from: 0 };
        let rep = do_replay(&wal, 0).map_err(|p| Fail15 { msg: format!("newest file truncated to {n} bytes: replay panicked: {p}"), fault: Some(spec.clone()) })?;
        let (_, fr) = frame_of(n);
        let rel = n - fr.0;
        {
            let mut e = ev.borrow_mut();
            e.case();
            e.class(if rel == 0 {
                "trunc_at_record_boundary"
            } else if rel < 4 {
                "trunc_in_length_prefix"
            } else {
                "trunc_in_body"
            });
            if h.reopens > 0 || rel >= 4 {
                e.nontrivial(&(hh, "trunc", n));
            }
        }
        match judge_trunc(&h, n, &rep, kf) {
            Verdict::Pass => Ok(()),
            Verdict::Known(id) => {
                ev.borrow_mut().kf_hit(id);
                Ok(())
            }
            Verdict::Bad(msg) => Err(Fail15 { msg, fault: Some(spec) }),
        }
    };
    let flip_bytes = |off: usize, mask: u8| -> Vec<u8> {
        let mut b = pristine.clone();
        b[off] ^= mask;
        b
    };
    // replay(0) shows every delivered entry; replay(seq of the hit record) additionally shows a
    // misread sequence number (the record must still be delivered or the corruption reported)
    let flip_froms = |off: usize| -> Vec<u64> {
        let (j, _) = frame_of(off);
        let s = seq_of_frame(j);
        if s == 0 {
            vec![0]
        } else {
            vec![0, s]
        }
    };
    let flip_judge = |off: usize, mask: u8, from: u64, faulted: &[u8], rep: &Rep| -> Result<(), Fail15> {
        let (_, fr) = frame_of(off);
        {
            let mut e = ev.borrow_mut();
            e.case();
            e.class(flip_region(fr, off));
            if h.reopens > 0 || off - fr.0 >= 4 {
                e.nontrivial(&(hh, "flip", off, mask, from));
            }
        }
        let mut all = earlier.clone();
        all.push(faulted);
        match judge_flip(&h, &all, off, mask, from, rep, kf) {
            Verdict::Pass => Ok(()),
            Verdict::Known(id) => {
                ev.borrow_mut().kf_hit(id);
                Ok(())
            }
            Verdict::Bad(msg) => Err(Fail15 { msg, fault: Some(FaultSpec { kind: "flip".into(), offset: off, mask, from }) }),
        }
    };
    let fh = std::fs::OpenOptions::new().write(true).open(&newest_path).map_err(|e| fail(format!("harness open: {e}")))?;
    let flip_one = |off: usize, mask: u8, only_from: Option<u64>| -> Result<(), Fail15> {
        use std::os::unix::fs::FileExt;
        let b = flip_bytes(off, mask);
        let froms = match only_from {
            Some(f) => vec![f],
            None => flip_froms(off),
        };
        if kf.prescreen {
            let mut all = earlier.clone();
            all.push(&b);
            if weak_parse(&all, 0, true).max_len > BIG {
                // the probe showed that this tree allocates and zeroes the claimed record length
                // before reading: skipped and counted, not an evaluation (DESIGN 3.8 pre-screening)
                ev.borrow_mut().class("flip_prescreened_huge_alloc");
                return Ok(());
            }
        }
        fh.write_at(&[b[off]], off as u64).map_err(|e| fail(format!("harness write: {e}")))?;
        let mut res = Ok(());
        for from in froms {
            let spec = FaultSpec { kind: "flip".into(), offset: off, mask, from };
            res = do_replay(&wal, from).map_err(|p| Fail15 { msg: format!("byte {off} flipped with {mask:#04x}: replay({from}) panicked: {p}"), fault: Some(spec) }).and_then(|rep| flip_judge(off, mask, from, &b, &rep));
            if res.is_err() {
                break;
            }
        }
        fh.write_at(&[pristine[off]], off as u64).map_err(|e| fail(format!("harness write: {e}")))?;
        res
    };

    // ---- life after the crash: damage, `Wal::new`, the tail's appends, then replay
    let original: BTreeSet<PathBuf> = h.files.iter().map(|f| f.0.clone()).collect();
    let cleanup_post = || {
        for p in list_wal_files(dir) {
            if !original.contains(&p) {
                let _ = std::fs::remove_file(&p);
            }
        }
        restore();
    };
    let filt = |exps: &[Exp], seqs: &[u64], from: u64| -> Vec<Exp> { exps.iter().zip(seqs).filter(|(_, s)| **s >= from).map(|(e, _)| e.clone()).collect() };
    // Some((offset, mask)) = flip, None = cut to `n`
    let post_one = |n: usize, flip: Option<u8>, only_from: Option<u64>| -> Result<(), Fail15> {
        let kind = if flip.is_some() { "flip_reopen" } else { "trunc_reopen" };
        let spec = |from: u64| FaultSpec { kind: kind.into(), offset: n, mask: flip.unwrap_or(0), from };
        let faulted: Vec<u8> = match flip {
            Some(mask) => flip_bytes(n, mask),
            None => pristine[..n].to_vec(),
        };
        if flip.is_some() && kf.prescreen {
            let mut all = earlier.clone();
            all.push(&faulted);
            if weak_parse(&all, 0, true).max_len > BIG {
                ev.borrow_mut().class("flip_prescreened_huge_alloc");
                return Ok(());
            }
        }
        std::fs::write(&newest_path, &faulted).map_err(|e| fail(format!("harness write: {e}")))?;
        let (j, fr) = frame_of(n);
        let r = (|| -> Result<(), Fail15> {
            let (new_exps, new_seqs) = match run_tail(dir, &case.tail) {
                Ok(x) => x,
                Err(m) if flip.is_some() => {
                    // a damaged (not merely torn) log may be refused
                    let _ = m;
                    ev.borrow_mut().refusal();
                    return Ok(());
                }
                Err(m) => return Err(Fail15 { msg: format!("newest file truncated to {n} bytes, then reopened: {m}"), fault: Some(spec(0)) }),
            };
            ev.borrow_mut().class(if flip.is_some() { "postcrash_flip_scenario" } else { "postcrash_trunc_scenario" });
            // what must come back: for a cut, the complete records before it; for a flip, everything
            let keep = if flip.is_some() { h.exps.len() } else { h.base + h.frames.iter().filter(|f| f.1 <= n).count() };
            let mut exps: Vec<Exp> = h.exps[..keep].to_vec();
            let mut seqs: Vec<u64> = h.seqs[..keep].to_vec();
            exps.extend(new_exps.iter().cloned());
            seqs.extend(new_seqs.iter().cloned());
            if flip.is_none() && !seqs.windows(2).all(|w| w[0] < w[1]) {
                return Err(Fail15 {
                    msg: format!("newest file truncated to {n} bytes, then reopened: sequences of the {keep} surviving records followed by the {} appended after the reopen are not strictly increasing: {seqs:?}", new_seqs.len()),
                    fault: Some(spec(0)),
                });
            }
            let wal2 = catch(|| Wal::new(dir)).map_err(|p| fail(format!("Wal::new panicked: {p}")))?.map_err(|e| fail(format!("Wal::new failed: {e}")))?;
            let mut froms: Vec<u64> = match only_from {
                Some(f) => vec![f],
                None => {
                    let mut v = vec![0u64];
                    if let Some(s) = new_seqs.first() {
                        v.push(*s);
                    }
                    if flip.is_none() && keep > 0 {
                        v.push(h.seqs[keep - 1]);
                    }
                    v
                }
            };
            froms.dedup();
            for from in froms {
                let rep = do_replay(&wal2, from).map_err(|p| Fail15 { msg: format!("{kind} at {n}: replay({from}) panicked: {p}"), fault: Some(spec(from)) })?;
                {
                    let mut e = ev.borrow_mut();
                    e.case();
                    e.class("postcrash_replay");
                    e.nontrivial(&(hh, kind, n, flip.unwrap_or(0), from));
                }
                let full = filt(&exps, &seqs, from);
                let full_r: Vec<&Exp> = full.iter().collect();
                let shown = |rep: &Rep| if rep.ok { "Ok".to_string() } else { format!("Err({})", rep.err) };
                match flip {
                    None => {
                        if !(rep.ok && seq_matches(&full_r, &rep.delivered)) {
                            return Err(Fail15 {
                                msg: format!(
                                    "newest file truncated to {n} bytes, Wal::new, tail appended {} records (sequences {new_seqs:?}): replay({from}) -> {} delivering {}; expected Ok delivering the complete records before the cut followed by the appended ones: {}",
                                    new_seqs.len(),
                                    shown(&rep),
                                    show_seq_got(&rep.delivered),
                                    show_seq_exp(&full_r)
                                ),
                                fault: Some(spec(from)),
                            });
                        }
                    }
                    Some(mask) => {
                        let mut pass = (rep.ok && seq_matches(&full_r, &rep.delivered)) || (!rep.ok && is_prefix(&full_r, &rep.delivered));
                        if !pass && n < fr.0 + 4 {
                            // length prefix flipped past end-of-file: that file may end there, the later files still count
                            let new_len = u32::from_le_bytes(faulted[fr.0..fr.0 + 4].try_into().unwrap()) as usize;
                            if new_len > faulted.len() - (fr.0 + 4) {
                                let mut e2: Vec<Exp> = h.exps[..h.base + j].to_vec();
                                let mut s2: Vec<u64> = h.seqs[..h.base + j].to_vec();
                                e2.extend(new_exps.iter().cloned());
                                s2.extend(new_seqs.iter().cloned());
                                let alt = filt(&e2, &s2, from);
                                let alt_r: Vec<&Exp> = alt.iter().collect();
                                pass = rep.ok && seq_matches(&alt_r, &rep.delivered);
                            }
                        }
                        if !pass && kf.k3 {
                            let on_disk: Vec<Vec<u8>> = list_wal_files(dir).iter().map(|p| std::fs::read(p).unwrap_or_default()).collect();
                            let refs: Vec<&[u8]> = on_disk.iter().map(|b| b.as_slice()).collect();
                            for torn_is_err in [true, false] {
                                let w = weak_parse(&refs, from, torn_is_err);
                                if w.ok == rep.ok && w.delivered == rep.delivered {
                                    ev.borrow_mut().kf_hit(KF3);
                                    pass = true;
                                    break;
                                }
                            }
                        }
                        if !pass {
                            return Err(Fail15 {
                                msg: format!(
                                    "byte {n} of the newest file flipped with {mask:#04x} (offset {} in the frame of record #{}), Wal::new, tail appended {} records (sequences {new_seqs:?}): replay({from}) -> {} delivering {}; allowed: Err after a prefix of, or Ok with exactly, {}",
                                    n - fr.0,
                                    h.base + j + 1,
                                    new_seqs.len(),
                                    shown(&rep),
                                    show_seq_got(&rep.delivered),
                                    show_seq_exp(&full_r)
                                ),
                                fault: Some(spec(from)),
                            });
                        }
                    }
                }
            }
            Ok(())
        })();
        cleanup_post();
        r
    };

    let result = (|| -> Result<(), Fail15> {
        match &case.fault {
            // only the fault-free checks above (append return values, replay(from))
            Some(f) if f.kind == "none" => Ok(()),
            Some(f) if f.kind == "trunc_reopen" || f.kind == "flip_reopen" => {
                if f.offset >= pristine.len() || case.tail.is_empty() || (f.kind == "flip_reopen" && f.mask == 0) {
                    return Err(fail(format!("replay case: {} at {} needs a tail and an offset inside the newest file ({} bytes)", f.kind, f.offset, pristine.len())));
                }
                post_one(f.offset, if f.kind == "flip_reopen" { Some(f.mask) } else { None }, Some(f.from))
            }
            Some(f) if f.kind == "trunc" => {
                if f.offset >= pristine.len() {
                    return Err(fail(format!("replay case: truncation offset {} outside the newest file ({} bytes)", f.offset, pristine.len())));
                }
                trunc_one(f.offset)
            }
            Some(f) => {
                if f.offset >= pristine.len() || f.mask == 0 {
                    return Err(fail(format!("replay case: flip offset {} / mask {} invalid for the newest file ({} bytes)", f.offset, f.mask, pristine.len())));
                }
                flip_one(f.offset, f.mask, Some(f.from))
            }
            None => {
                let log_bytes: usize = h.files.iter().map(|f| f.1.len()).sum();
                let offsets = fault_offsets(&h.frames, pristine.len(), log_bytes);
                let sampled = offsets.len() < pristine.len();
                // logs above 2 MiB: one mask, and only the length-prefix flip after the reopen
                let huge = |_off: usize| log_bytes > (2 << 20);
                if sampled {
                    ev.borrow_mut().class("history_fault_offsets_sampled");
                }
                for &n in offsets.iter().rev() {
                    trunc_one(n)?;
                }
                restore();
                for &off in &offsets {
                    for mask in MASKS {
                        if mask != 0x01 && huge(off) {
                            continue;
                        }
                        flip_one(off, mask, None)?;
                    }
                }
                if !case.tail.is_empty() {
                    // a sample of the offsets, dense where the reader's decisions are made: around every
                    // record boundary, through the length prefix, the first body byte, the last byte of a
                    // frame; every 5th offset elsewhere
                    for &n in &offsets {
                        let (_, fr) = frame_of(n);
                        let rel = n - fr.0;
                        if rel <= 5 || n + 1 == fr.1 || rel % 5 == 0 || (sampled && rel > 600) {
                            post_one(n, None, None)?;
                        }
                    }
                    for &off in &offsets {
                        let (_, fr) = frame_of(off);
                        let rel = off - fr.0;
                        if huge(off) && rel != 3 {
                            continue;
                        }
                        if rel < 4 {
                            // length prefix: what `Wal::new` and replay use to walk the file
                            post_one(off, Some(0x01), None)?;
                            post_one(off, Some(0x80), None)?;
                        } else if rel == 4 || rel % 16 == 0 {
                            post_one(off, Some(0x01), None)?;
                        }
                    }
                }
                Ok(())
            }
        }
    })();
    restore();
    result
}

// ---- generator

fn small_string() -> impl Strategy<Value = String> {
    prop_oneof![
        4 => proptest::sample::select(vec!["", "default", "a", "t:1", "é", "日本", "Person", "KNOWS", "\0", "tenant-with-a-longer-name"]).prop_map(|s| s.to_string()),
        1 => "[a-c]{0,3}",
    ]
}
fn id_strategy() -> impl Strategy<Value = u64> {
    prop_oneof![
        4 => proptest::sample::select(vec![0u64, 1, 2, 3, 255, 256, 1 << 32, u64::MAX, u64::MAX - 1]),
        1 => any::<u64>(),
    ]
}
fn payload_strategy() -> impl Strategy<Value = Vec<u8>> {
    let len = prop_oneof![4 => 0usize..=8, 3 => 9usize..=64, 1 => 65usize..=300];
    // (len, kind, seed) -> bytes is a pure function, so shrinking len/kind/seed shrinks the payload
    (len, 0u8..4, any::<u64>()).prop_map(|(len, kind, seed)| match kind {
        0 => vec![0u8; len],
        1 => vec![0xFFu8; len],
        2 => (0..len).map(|i| (seed as u8).wrapping_add((i as u8).wrapping_mul(37))).collect::<Vec<u8>>(),
        _ => {
            let mut x = seed | 1;
            (0..len)
                .map(|_| {
                    x ^= x << 13;
                    x ^= x >> 7;
                    x ^= x << 17;
                    (x >> 24) as u8
                })
                .collect::<Vec<u8>>()
        }
    })
}
fn entry_strategy() -> impl Strategy<Value = EntrySpec> {
    prop_oneof![
        2 => (small_string(), id_strategy()).prop_map(|(tenant, node_id)| EntrySpec::DeleteNode { tenant, node_id }),
        3 => (small_string(), id_strategy(), proptest::collection::vec(small_string(), 0..3), payload_strategy()).prop_map(|(tenant, node_id, labels, properties)| EntrySpec::CreateNode { tenant, node_id, labels, properties }),
        2 => (small_string(), id_strategy(), id_strategy(), id_strategy(), small_string(), payload_strategy()).prop_map(|(tenant, edge_id, source, target, edge_type, properties)| EntrySpec::CreateEdge { tenant, edge_id, source, target, edge_type, properties }),
        1 => (small_string(), id_strategy()).prop_map(|(tenant, edge_id)| EntrySpec::DeleteEdge { tenant, edge_id }),
        2 => (small_string(), id_strategy(), payload_strategy(), id_strategy()).prop_map(|(tenant, node_id, properties, version)| EntrySpec::UpdateNode { tenant, node_id, properties, version }),
        1 => (small_string(), id_strategy(), payload_strategy(), id_strategy()).prop_map(|(tenant, edge_id, properties, version)| EntrySpec::UpdateEdge { tenant, edge_id, properties, version }),
        1 => (id_strategy(), prop_oneof![Just(0i64), Just(-1i64), Just(i64::MIN), Just(1_700_000_000i64), any::<i64>()]).prop_map(|(sequence, timestamp)| EntrySpec::Checkpoint { sequence, timestamp }),
    ]
}
fn history_strategy(max_ops: usize) -> impl Strategy<Value = Vec<WalOp>> {
    let op = prop_oneof![
        6 => entry_strategy().prop_map(WalOp::Append),
        1 => Just(WalOp::Flush),
        2 => Just(WalOp::Reopen),
        1 => id_strategy().prop_map(WalOp::Checkpoint),
    ];
    proptest::collection::vec(op, 1..=max_ops)
}

/// Does a corrupted length prefix make the replay allocate the claimed length up front?
/// One DeleteNode record with the top byte of its length prefix XOR 0x80 (claims 2 GiB),
/// replayed in a forked worker under an allocation cap. true = the worker hit the cap.
fn c15_probe_alloc(dir: &Path) -> Result<bool, String> {
    let _ = std::fs::remove_dir_all(dir);
    {
        let mut wal = Wal::new(dir).map_err(|e| format!("probe: {e}"))?;
        wal.append(WalEntry::DeleteNode { tenant: String::new(), node_id: 0 }).map_err(|e| format!("probe: {e}"))?;
    }
    let files = list_wal_files(dir);
    let path = files.last().ok_or("probe: no wal file")?.clone();
    let mut b = std::fs::read(&path).map_err(|e| format!("probe: {e}"))?;
    b[3] ^= 0x80;
    std::fs::write(&path, &b).map_err(|e| format!("probe: {e}"))?;
    let wal = Wal::new(dir).map_err(|e| format!("probe: {e}"))?;
    let oc = run_isolated(&[()], 30_000, &|_, _| {
        let live = LIVE.load(Ordering::Relaxed);
        HARD_CAP.store(((live + (64 << 20)) / 4).max(16 << 20), Ordering::Relaxed);
        let r = do_replay(&wal, 0);
        HARD_CAP.store(0, Ordering::Relaxed);
        vec![r.is_ok() as u8]
    });
    match &oc[0] {
        Outcome::Exit(77) => Ok(true),
        Outcome::Done(_) => Ok(false),
        other => Err(format!("probe: replay of a record claiming 2 GiB ended the process with {}", other.describe())),
    }
}

fn big_entry_strategy() -> impl Strategy<Value = EntrySpec> {
    let size = prop_oneof![
        3 => proptest::sample::select(vec![255usize, 256, 257]),
        2 => proptest::sample::select(vec![4095usize, 4096, 4097]),
        // the frame length (8 + entry + 4) crosses 64 KiB somewhere in here for every shape
        4 => 65_400usize..65_700,
        3 => proptest::sample::select(vec![65_535usize, 65_536, 65_537, 65 * 1024]),
        1 => Just(1usize << 20),
    ];
    let shape = prop_oneof![
        4 => Just("node_blob"),
        2 => Just("update_blob"),
        1 => Just("edge_blob"),
        1 => Just("labels"),
        1 => Just("tenant"),
        1 => Just("edge_type"),
    ];
    (shape, size, proptest::sample::select(vec![0u8, 1, 0xFF])).prop_map(|(shape, size, fill)| EntrySpec::Big { shape: shape.to_string(), size, fill })
}
/// short histories with one or two big records at a generated position, with rotation around them
fn sized_history_strategy() -> impl Strategy<Value = Vec<WalOp>> {
    let op = prop_oneof![
        5 => entry_strategy().prop_map(WalOp::Append),
        2 => Just(WalOp::Reopen),
        1 => id_strategy().prop_map(WalOp::Checkpoint),
        1 => Just(WalOp::Flush),
    ];
    (proptest::collection::vec(op, 0..=5), proptest::collection::vec((big_entry_strategy(), any::<u16>()), 1..=2)).prop_map(|(mut ops, bigs)| {
        for (b, sel) in bigs {
            let at = pick_idx(sel, ops.len() + 1);
            ops.insert(at, WalOp::Append(b));
        }
        ops
    })
}
/// deterministic ladder: every size of interest at the first / middle / last position of a log
/// and on either side of a segment rotation
fn size_ladder(thorough: bool) -> Vec<WalCase> {
    let small = |id: u64| WalOp::Append(EntrySpec::DeleteNode { tenant: "default".into(), node_id: id });
    let big = |shape: &str, size: usize| WalOp::Append(EntrySpec::Big { shape: shape.into(), size, fill: 1 });
    let mut out = Vec::new();
    let mut sizes = vec![255usize, 256, 257, 4096, 65_535, 65_536, 65_537, 65 * 1024, 1 << 20];
    if thorough {
        sizes.push(16 << 20);
    }
    for size in sizes {
        let b = || big("node_blob", size);
        let mut layouts: Vec<Vec<WalOp>> = vec![
            vec![b(), small(1), small(2)],
            vec![small(1), small(2), b()],
            // the big record ends up in an older file
            vec![small(1), b(), WalOp::Reopen, small(2), small(3)],
        ];
        if size < (1 << 20) {
            layouts.push(vec![small(1), b(), small(2)]);
            layouts.push(vec![small(1), WalOp::Checkpoint(1), b(), small(2)]);
        }
        if size >= (16 << 20) {
            layouts = vec![vec![small(1), b(), small(2)], vec![small(1), b(), WalOp::Reopen, small(2)]];
        }
        for ops in layouts {
            out.push(WalCase { ops, tail: vec![small(9)], fault: None });
        }
    }
    for shape in ["update_blob", "edge_blob", "labels", "tenant", "edge_type"] {
        for size in [257usize, 65_536, 1 << 20] {
            if size == (1 << 20) && !shape.ends_with("blob") {
                continue;
            }
            out.push(WalCase { ops: vec![small(1), big(shape, size), small(2)], tail: vec![small(9)], fault: None });
        }
    }
    out
}

fn tail_strategy() -> impl Strategy<Value = Vec<WalOp>> {
    let op = prop_oneof![
        5 => entry_strategy().prop_map(WalOp::Append),
        1 => Just(WalOp::Flush),
        1 => Just(WalOp::Reopen),
        1 => id_strategy().prop_map(WalOp::Checkpoint),
    ];
    // at least one append after the reopen; up to 3 more operations
    (entry_strategy(), proptest::collection::vec(op, 0..=3), any::<u16>()).prop_map(|(first, mut rest, sel)| {
        let at = pick_idx(sel, rest.len() + 1);
        rest.insert(at, WalOp::Append(first));
        rest
    })
}

fn c15_witnesses(dir: &Path, kf: &Known, ev: &mut Evidence) -> Kf15 {
    let mut act = Kf15::default();
    for id in [KF1, KF2, KF3] {
        if !kf.entries.iter().any(|e| e.id == id) {
            continue;
        }
        let still = match witness_case(kf, id) {
            Some(v) => match serde_json::from_value::<WalCase>(v) {
                Ok(case) => {
                    let was_frozen = ev.frozen;
                    ev.frozen = true; // witness replays are not part of the counted search
                    let cell = RefCell::new(&mut *ev);
                    let r = c15_case(dir, &case, Kf15::default(), &cell);
                    drop(cell);
                    ev.frozen = was_frozen;
                    r.is_err()
                }
                Err(e) => {
                    eprintln!("witness of {id} does not parse: {e}");
                    false
                }
            },
            None => false,
        };
        let on = kf.witness_result(ev, id, still);
        match id {
            KF1 => act.k1 = on,
            KF2 => act.k2 = on,
            _ => act.k3 = on,
        }
    }
    act
}

fn c15(args: &Args) {
    let mut ev = Evidence::new(
        args,
        "fault_enumeration",
        "histories of append (all 7 entry kinds, payload 0-300 B; plus a record-size class: property blobs / label lists / tenant and edge-type strings of 255-257 B, 4 KiB, 64 KiB +- 1 and a sweep across the 64 KiB frame length, 65 KiB, 1 MiB [thorough: 16 MiB] at the first/middle/last position of the log and on either side of a segment rotation, as a deterministic ladder and in 1 of 10 [thorough: 1 of 40] generated histories; fault offsets are sampled when the newest file exceeds 4 KiB [big frames: first 14 and last 6 bytes, quartiles, offsets around 64 KiB] and thinned to max(5, 2 MiB / log size) offsets when the whole log exceeds 32 KiB, because every replay re-reads the whole log) / flush / close+reopen / checkpoint on a real Wal directory; then (a) no fault: replay(from) for 0, 1, several returned sequences, max, max+1, u64::MAX must deliver exactly the appended records with returned sequence >= from, in order, and append return values must be strictly increasing across reopen; (b) the newest file truncated to EVERY length 0..len-1: replay must be Ok and deliver exactly the complete records; (c) EVERY byte of the newest file XORed with 0x01, 0x80, 0xFF, replay(0) and replay(seq of the hit record): Err after a prefix of the expected records, or Ok with exactly the expected records (a length prefix flipped past end-of-file may also end the log there); (d) life after the crash: the newest file cut at a sample of lengths (around every record boundary, through the length prefix, first body byte, last byte of a frame, every 5th offset elsewhere) or a byte flipped (every length-prefix byte with 0x01 and 0x80, the low sequence byte and every 16th other byte with 0x01), then Wal::new on the directory, a generated tail of 1-4 operations with at least one append (flush/checkpoint/second reopen optional), then replay(0), replay(first new sequence), replay(last surviving sequence): after a cut, Ok delivering exactly the complete records before the cut followed by every record appended after the reopen, and their sequences strictly increasing; after a flip, the flip oracle of (c) over old + new records. One evaluation = one replay. Non-trivial = the history contains a reopen, or the fault lands inside a record body (past the 4-byte length prefix); distinct = distinct (history, fault, from).",
    );
    ev.assume("a crash is modelled as: handle dropped (BufWriter flushed), then the newest log file cut at a byte offset; earlier files are intact");
    ev.assume("Wal::checkpoint writes the wall-clock time into the marker: the timestamp field of such markers is not compared");
    ev.assume("a flipped length prefix that points past the end of the file cannot be told from a torn tail by any reader of this format: ending the log at that record is accepted as well as Err");
    ev.assume("one probe per run (forked worker, allocation cap): does replay allocate the length claimed by a corrupted prefix before reading? If yes (coverage.allocates_claimed_length_before_reading), flips predicted to make it request a buffer > 1 MiB are skipped and counted (class flip_prescreened_huge_alloc, not evaluations): C15 says nothing about memory and zeroing up to 4 GiB per case is not affordable; if no, they are run like every other flip");
    let kfile = Known::load(args);
    let tmp = tempfile::tempdir().expect("tempdir");
    let dir = tmp.path().join("wal");
    let mut kf = c15_witnesses(&dir, &kfile, &mut ev);
    match c15_probe_alloc(&dir) {
        Ok(b) => {
            kf.prescreen = b;
            ev.set("allocates_claimed_length_before_reading", json!(b));
        }
        Err(m) => {
            kf.prescreen = true;
            ev.set("allocates_claimed_length_before_reading", json!(m));
        }
    }

    if let Some(p) = &args.replay {
        let case: WalCase = serde_json::from_value(load_replay(p)).expect("replay case");
        let r = {
            let cell = RefCell::new(&mut ev);
            c15_case(&dir, &case, kf, &cell)
        };
        match r {
            Ok(()) => println!("replay: property held{}", if ev.kf_hits.is_empty() { "" } else { " (deviations explained by listed known findings)" }),
            Err(f) => {
                let mut c = case.clone();
                if c.fault.is_none() {
                    c.fault = f.fault.clone();
                }
                report_violation(&mut ev, &json!(c), &f.msg);
            }
        }
        ev.nontrivial(&case);
        ev.nontrivial(&"replay");
        ev.sample(json!(case));
        finish(&ev);
    }

    for (p, v) in corpus_cases("C15") {
        let case: WalCase = serde_json::from_value(v).expect("corpus case");
        ev.class("corpus");
        let r = {
            let cell = RefCell::new(&mut ev);
            c15_case(&dir, &case, kf, &cell)
        };
        if let Err(f) = r {
            let mut c = case.clone();
            if c.fault.is_none() {
                c.fault = f.fault.clone();
            }
            report_violation(&mut ev, &json!(c), &format!("{} (corpus {})", f.msg, p.display()));
            finish(&ev);
        }
    }

    // record-size ladder (deterministic)
    for case in size_ladder(args.tier == Tier::Thorough) {
        ev.class("size_ladder");
        let r = {
            let cell = RefCell::new(&mut ev);
            c15_case(&dir, &case, kf, &cell)
        };
        if let Err(f) = r {
            let mut c = case.clone();
            c.fault = f.fault.clone();
            report_violation(&mut ev, &json!(c), &f.msg);
            finish(&ev);
        }
    }

    let n = args.tier.pick(400u32, 8_000u32);
    let max_ops = args.tier.pick(10, 14);
    // the record-size class is expensive per history (every replay re-reads the whole log):
    // 1 in 10 histories in quick, 1 in 40 in thorough (so about 40 and 200 of them)
    let strat = prop_oneof![
        args.tier.pick(9, 39) => (history_strategy(max_ops), tail_strategy()),
        1 => (sized_history_strategy(), tail_strategy()),
    ];
    let res = {
        let cell = RefCell::new(&mut ev);
        search_budget(args.seed, n, 1500, &strat, |(ops, tail)| {
            let case = WalCase { ops: ops.clone(), tail: tail.clone(), fault: None };
            {
                let mut e = cell.borrow_mut();
                if e.want_sample() && ops.len() >= 4 && ops.iter().any(|o| matches!(o, WalOp::Reopen)) {
                    e.sample(json!(case));
                }
            }
            match c15_case(&dir, &case, kf, &cell) {
                Ok(()) => Ok(()),
                Err(f) => {
                    cell.borrow_mut().frozen = true;
                    Err(f.msg)
                }
            }
        })
    };
    if let Some(((ops, tail), msg)) = res {
        // name the failing fault of the minimal history
        let mut case = WalCase { ops, tail, fault: None };
        let mut msg2 = msg;
        {
            let cell = RefCell::new(&mut ev);
            if let Err(f) = c15_case(&dir, &case, kf, &cell) {
                case.fault = f.fault;
                msg2 = f.msg;
            }
        }
        report_violation(&mut ev, &json!(case), &msg2);
    }
    ev.set("masks", json!(["0x01", "0x80", "0xFF"]));
    finish(&ev);
}

// =======================================================================================
// C17
// =======================================================================================

const KF17: &str = "KF-C17-2"; // key layout ambiguous for tenant names that contain ':'

#[derive(Clone, Debug, Serialize, Deserialize, PartialEq, Eq, Hash)]
enum TOp {
    PutNode { t: usize, id: u64, labels: Vec<String>, tag: i64 },
    DelNode { t: usize, id: u64 },
    PutEdge { t: usize, id: u64, src: u64, dst: u64, ty: String, tag: i64 },
    DelEdge { t: usize, id: u64 },
}

#[derive(Clone, Debug, Serialize, Deserialize, PartialEq, Eq, Hash)]
struct TCase {
    tenants: Vec<String>,
    ops: Vec<TOp>,
}

type NodeRow = (String, u64, Vec<String>, i64);
type EdgeRow = (String, u64, u64, u64, String, i64);

fn node_row(n: &Node) -> NodeRow {
    let owner = match n.properties.get("owner") {
        Some(PropertyValue::String(s)) => s.clone(),
        other => format!("?{other:?}"),
    };
    let tag = match n.properties.get("tag") {
        Some(PropertyValue::Integer(i)) => *i,
        _ => i64::MIN,
    };
    let mut labels: Vec<String> = n.labels.iter().map(|l| l.as_str().to_string()).collect();
    labels.sort();
    (owner, n.id.as_u64(), labels, tag)
}
fn edge_row(e: &Edge) -> EdgeRow {
    let owner = match e.properties.get("owner") {
        Some(PropertyValue::String(s)) => s.clone(),
        other => format!("?{other:?}"),
    };
    let tag = match e.properties.get("tag") {
        Some(PropertyValue::Integer(i)) => *i,
        _ => i64::MIN,
    };
    (owner, e.id.as_u64(), e.source.as_u64(), e.target.as_u64(), e.edge_type.as_str().to_string(), tag)
}

#[derive(Default, Clone)]
struct TModel {
    nodes: BTreeMap<(String, u64), NodeRow>,
    edges: BTreeMap<(String, u64), EdgeRow>,
}
impl TModel {
    fn nodes_of(&self, t: &str) -> Vec<NodeRow> {
        let mut v: Vec<NodeRow> = self.nodes.iter().filter(|(k, _)| k.0 == t).map(|(_, r)| r.clone()).collect();
        v.sort();
        v
    }
    fn edges_of(&self, t: &str) -> Vec<EdgeRow> {
        let mut v: Vec<EdgeRow> = self.edges.iter().filter(|(k, _)| k.0 == t).map(|(_, r)| r.clone()).collect();
        v.sort();
        v
    }
    /// KF-C17-2 quirk: a scan returns every key that starts with "<tenant>:" -- which includes
    /// the keys of any tenant whose name continues this one with ':' ("a" sees "a:b")
    fn nodes_prefix(&self, t: &str) -> Vec<NodeRow> {
        let start = format!("{t}:");
        let mut v: Vec<NodeRow> = self.nodes.iter().filter(|(k, _)| format!("{}:n:{:016x}", k.0, k.1).starts_with(&start)).map(|(_, r)| r.clone()).collect();
        v.sort();
        v
    }
    fn edges_prefix(&self, t: &str) -> Vec<EdgeRow> {
        let start = format!("{t}:");
        let mut v: Vec<EdgeRow> = self.edges.iter().filter(|(k, _)| format!("{}:e:{:016x}", k.0, k.1).starts_with(&start)).map(|(_, r)| r.clone()).collect();
        v.sort();
        v
    }
    /// KF-C17-2 quirk: the tenant list takes everything before the first ':' of a node key
    fn listed_first_segment(&self) -> Vec<String> {
        self.nodes.keys().map(|k| k.0.split(':').next().unwrap_or("").to_string()).collect::<BTreeSet<_>>().into_iter().collect()
    }
}

struct Env17 {
    root: PathBuf,
    pm: Option<PersistenceManager>,
    used: usize,
    batch: usize,
}
impl Env17 {
    fn new(root: PathBuf) -> Self {
        Env17 { root, pm: None, used: 0, batch: 0 }
    }
    fn reset(&mut self) {
        self.pm = None;
        let _ = std::fs::remove_dir_all(self.root.join(format!("b{}", self.batch)));
        self.batch += 1;
        self.used = 0;
    }
    fn get(&mut self) -> Result<&PersistenceManager, String> {
        if self.pm.is_some() && self.used >= 200 {
            self.reset();
        }
        if self.pm.is_none() {
            let p = self.root.join(format!("b{}", self.batch));
            let pm = catch(|| PersistenceManager::new(&p)).map_err(|p| format!("PersistenceManager::new panicked: {p}"))?.map_err(|e| format!("PersistenceManager::new failed: {e}"))?;
            self.pm = Some(pm);
        }
        self.used += 1;
        Ok(self.pm.as_ref().unwrap())
    }
}

struct Stats17 {
    two_nonempty: bool,
    /// at some check point one id was held (as node or as relationship) by two tenants at once
    overlap: bool,
    sep: bool,
    kf_hits: u64,
}

fn c17_reads(pm: &PersistenceManager, case: &TCase, m: &TModel, ids: &BTreeSet<u64>, kf_on: bool, st: &mut Stats17, step: &str) -> Result<(), String> {
    let stg = pm.storage();
    for t in &case.tenants {
        // scans
        let want_n = m.nodes_of(t);
        let want_e = m.edges_of(t);
        let got = catch(|| stg.scan_nodes(t)).map_err(|p| format!("{step}: scan_nodes({t:?}) panicked: {p}"))?.map_err(|e| format!("{step}: scan_nodes({t:?}) failed: {e}"))?;
        let mut got_n: Vec<NodeRow> = got.iter().map(node_row).collect();
        got_n.sort();
        if got_n != want_n {
            if kf_on && got_n == m.nodes_prefix(t) {
                st.kf_hits += 1;
            } else {
                return Err(format!("{step}: scan_nodes({t:?}) = {got_n:?}, tenant holds {want_n:?} (rows are (owner tenant, id, labels, tag))"));
            }
        }
        let got = catch(|| stg.scan_edges(t)).map_err(|p| format!("{step}: scan_edges({t:?}) panicked: {p}"))?.map_err(|e| format!("{step}: scan_edges({t:?}) failed: {e}"))?;
        let mut got_e: Vec<EdgeRow> = got.iter().map(edge_row).collect();
        got_e.sort();
        if got_e != want_e {
            if kf_on && got_e == m.edges_prefix(t) {
                st.kf_hits += 1;
            } else {
                return Err(format!("{step}: scan_edges({t:?}) = {got_e:?}, tenant holds {want_e:?} (rows are (owner tenant, id, source, target, type, tag))"));
            }
        }
        // recovery
        let (rn, re) = catch(|| pm.recover(t)).map_err(|p| format!("{step}: recover({t:?}) panicked: {p}"))?.map_err(|e| format!("{step}: recover({t:?}) failed: {e}"))?;
        let mut rn: Vec<NodeRow> = rn.iter().map(node_row).collect();
        rn.sort();
        let mut re: Vec<EdgeRow> = re.iter().map(edge_row).collect();
        re.sort();
        if rn != want_n || re != want_e {
            if kf_on && rn == m.nodes_prefix(t) && re == m.edges_prefix(t) {
                st.kf_hits += 1;
            } else {
                return Err(format!("{step}: recover({t:?}) = nodes {rn:?} edges {re:?}; tenant holds nodes {want_n:?} edges {want_e:?}"));
            }
        }
        // point reads: keys "<tenant>:n:<16 hex>" of distinct tenants never coincide, whatever the names
        for id in ids {
            let g = catch(|| stg.get_node(t, *id)).map_err(|p| format!("{step}: get_node({t:?},{id}) panicked: {p}"))?.map_err(|e| format!("{step}: get_node({t:?},{id}) failed: {e}"))?;
            let g = g.as_ref().map(node_row);
            let w = m.nodes.get(&(t.clone(), *id)).cloned();
            if g != w {
                return Err(format!("{step}: get_node({t:?},{id}) = {g:?}, model {w:?}"));
            }
            let g = catch(|| stg.get_edge(t, *id)).map_err(|p| format!("{step}: get_edge({t:?},{id}) panicked: {p}"))?.map_err(|e| format!("{step}: get_edge({t:?},{id}) failed: {e}"))?;
            let g = g.as_ref().map(edge_row);
            let w = m.edges.get(&(t.clone(), *id)).cloned();
            if g != w {
                return Err(format!("{step}: get_edge({t:?},{id}) = {g:?}, model {w:?}"));
            }
        }
    }
    let mut listed = catch(|| pm.list_persisted_tenants()).map_err(|p| format!("{step}: list_persisted_tenants panicked: {p}"))?.map_err(|e| format!("{step}: list_persisted_tenants failed: {e}"))?;
    listed.sort();
    let want: Vec<String> = m.nodes.keys().map(|k| k.0.clone()).collect::<BTreeSet<_>>().into_iter().collect();
    if listed != want {
        if kf_on && listed == m.listed_first_segment() {
            st.kf_hits += 1;
        } else {
            return Err(format!("{step}: list_persisted_tenants = {listed:?}, tenants holding a node: {want:?}"));
        }
    }
    let nonempty = case.tenants.iter().filter(|t| !m.nodes_of(t).is_empty() || !m.edges_of(t).is_empty()).count();
    if nonempty >= 2 {
        st.two_nonempty = true;
    }
    for id in ids {
        let holders = case.tenants.iter().filter(|t| m.nodes.contains_key(&((*t).clone(), *id)) || m.edges.contains_key(&((*t).clone(), *id))).count();
        if holders >= 2 {
            st.overlap = true;
        }
    }
    Ok(())
}

fn c17_case(env: &RefCell<Env17>, case: &TCase, kf_on: bool) -> Result<Stats17, String> {
    let mut st = Stats17 { two_nonempty: false, overlap: false, sep: case.tenants.iter().any(|t| t.contains(':')), kf_hits: 0 };
    let distinct: BTreeSet<&String> = case.tenants.iter().collect();
    if distinct.len() != case.tenants.len() || case.tenants.is_empty() {
        return Err("replay case: tenant names must be distinct and non-empty in number".into());
    }
    let mut envb = env.borrow_mut();
    let pm = envb.get()?;
    for t in &case.tenants {
        let _ = pm.tenants().create_tenant(t.clone(), t.clone(), Some(ResourceQuotas::unlimited()));
    }
    let mut touched_n: BTreeSet<(String, u64)> = BTreeSet::new();
    let mut touched_e: BTreeSet<(String, u64)> = BTreeSet::new();
    let mut ids: BTreeSet<u64> = BTreeSet::new();
    for op in &case.ops {
        match op {
            TOp::PutNode { id, .. } | TOp::DelNode { id, .. } | TOp::PutEdge { id, .. } | TOp::DelEdge { id, .. } => {
                ids.insert(*id);
            }
        }
    }
    let body = (|| -> Result<(), String> {
        let stg = pm.storage();
        let mut m = TModel::default();
        // the shared database must be empty at the start of a case
        let pre = catch(|| pm.list_persisted_tenants()).map_err(|p| format!("list_persisted_tenants panicked: {p}"))?.map_err(|e| format!("list_persisted_tenants failed: {e}"))?;
        if !pre.is_empty() {
            return Err(format!("harness: database not empty at case start: {pre:?}"));
        }
        c17_reads(pm, case, &m, &ids, kf_on, &mut st, "before any write")?;
        for (i, op) in case.ops.iter().enumerate() {
            let tn = |t: &usize| -> Result<&String, String> { case.tenants.get(*t).ok_or_else(|| format!("replay case: tenant index {t} out of range")) };
            match op {
                TOp::PutNode { t, id, labels, tag } => {
                    let t = tn(t)?;
                    let mut props = PropertyMap::new();
                    props.insert("owner".into(), PropertyValue::String(t.clone()));
                    props.insert("tag".into(), PropertyValue::Integer(*tag));
                    let node = Node { id: NodeId::new(*id), version: 1, labels: labels.iter().map(|l| Label::new(l.clone())).collect(), properties: props, created_at: 1_700_000_000_000 + *tag, updated_at: 1_700_000_000_000 + *tag };
                    touched_n.insert((t.clone(), *id));
                    catch(|| stg.put_node(t, &node)).map_err(|p| format!("op {i}: put_node panicked: {p}"))?.map_err(|e| format!("op {i}: put_node({t:?},{id}) failed: {e}"))?;
                    m.nodes.insert((t.clone(), *id), node_row(&node));
                }
                TOp::DelNode { t, id } => {
                    let t = tn(t)?;
                    touched_n.insert((t.clone(), *id));
                    catch(|| stg.delete_node(t, *id)).map_err(|p| format!("op {i}: delete_node panicked: {p}"))?.map_err(|e| format!("op {i}: delete_node({t:?},{id}) failed: {e}"))?;
                    m.nodes.remove(&(t.clone(), *id));
                }
                TOp::PutEdge { t, id, src, dst, ty, tag } => {
                    let t = tn(t)?;
                    let mut props = PropertyMap::new();
                    props.insert("owner".into(), PropertyValue::String(t.clone()));
                    props.insert("tag".into(), PropertyValue::Integer(*tag));
                    let edge = Edge { id: EdgeId::new(*id), version: 1, source: NodeId::new(*src), target: NodeId::new(*dst), edge_type: EdgeType::new(ty.clone()), properties: props, created_at: 1_700_000_000_000 + *tag };
                    touched_e.insert((t.clone(), *id));
                    catch(|| stg.put_edge(t, &edge)).map_err(|p| format!("op {i}: put_edge panicked: {p}"))?.map_err(|e| format!("op {i}: put_edge({t:?},{id}) failed: {e}"))?;
                    m.edges.insert((t.clone(), *id), edge_row(&edge));
                }
                TOp::DelEdge { t, id } => {
                    let t = tn(t)?;
                    touched_e.insert((t.clone(), *id));
                    catch(|| stg.delete_edge(t, *id)).map_err(|p| format!("op {i}: delete_edge panicked: {p}"))?.map_err(|e| format!("op {i}: delete_edge({t:?},{id}) failed: {e}"))?;
                    m.edges.remove(&(t.clone(), *id));
                }
            }
            c17_reads(pm, case, &m, &ids, kf_on, &mut st, &format!("after op {i} ({op:?})"))?;
        }
        Ok(())
    })();
    // fresh key space for the next case: remove every key this case may have written
    let mut clean = true;
    for (t, id) in &touched_n {
        clean &= matches!(catch(|| pm.storage().delete_node(t, *id)), Ok(Ok(())));
    }
    for (t, id) in &touched_e {
        clean &= matches!(catch(|| pm.storage().delete_edge(t, *id)), Ok(Ok(())));
    }
    for t in &case.tenants {
        let _ = pm.tenants().delete_tenant(t);
    }
    if !clean || body.is_err() {
        envb.reset();
    }
    body.map(|_| st)
}

// ---- generator

/// Families of tenant names: inside a family the names differ only by characters a key layout
/// could treat as separators or normalise away, or are prefixes of one another. Every name is
/// accepted by `TenantManager::create_tenant` (and by POST /api/tenants, which passes the id on
/// unchecked), so every pair is a pair "the system accepts".
fn name_families() -> Vec<(&'static str, Vec<&'static str>)> {
    vec![
        ("separator_variants", vec!["eu:prod", "eu_prod", "eu-prod", "eu.prod", "eu prod", "euprod", "eu/prod", "eu::prod", "eu:prod:", "EU:PROD"]),
        ("prefix_chain", vec!["a", "a:", "a:b", "a_b", "a:b:c", "a:b:", "ab", "a_", "a-", "a.", "a:n", "a:n:", "a:e:"]),
        ("case_variants", vec!["tenant", "Tenant", "TENANT", "tenant ", "tenant_", "\u{ff54}enant"]),
        ("blank_looking", vec!["", " ", "  ", "\t", "\n", "\u{a0}", "\u{200b}", "\u{feff}", "\0"]),
        ("unicode_forms", vec!["\u{e9}", "e\u{301}", "e", "\u{c9}", "\u{df}", "ss", "\u{fb01}", "fi", "\u{65e5}\u{672c}", "\u{65e5}\u{672c}:", "\u{10FFFF}"]),
        // prefixes of one another and neighbours of ':' (0x3A) in byte order: '!'=0x21 '9'=0x39 ';'=0x3B
        ("byte_neighbours", vec!["a", "ab", "b", "a!", "a9", "a;", "aa", "a ", "A", "a\u{0}"]),
        ("key_shaped", vec!["a", "a:n:0000000000000001", "a:n:0000000000000001:n", ":n:", ":", "n", "e", "0000000000000001", "a:n", "a:e", ":a"]),
        ("numeric_padding", vec!["t1", "t01", "t10", "t2", "t1:", "t_1", "T1", "t:1"]),
        ("default_variants", vec!["default", "Default", "default:", "default_", " default", "default ", "de:fault"]),
    ]
}
fn family_of(ts: &[String]) -> &'static str {
    for (name, fam) in name_families() {
        if ts.iter().filter(|t| fam.contains(&t.as_str())).count() >= 2 {
            return name;
        }
    }
    "no_family"
}
/// 2-3 names of one family, or 2 of one family and a stranger
fn tenants_strategy() -> impl Strategy<Value = Vec<String>> {
    let fams = name_families();
    let all: Vec<&'static str> = fams.iter().flat_map(|f| f.1.clone()).collect::<BTreeSet<_>>().into_iter().collect();
    let per_family: Vec<BoxedStrategy<Vec<&'static str>>> = fams.into_iter().map(|(_, f)| proptest::sample::subsequence(f, 2..=3).boxed()).collect();
    (proptest::strategy::Union::new(per_family), proptest::option::weighted(0.25, proptest::sample::select(all))).prop_map(|(mut v, extra)| {
        if let Some(x) = extra {
            if !v.contains(&x) {
                v.truncate(2);
                v.push(x);
            }
        }
        v.into_iter().map(|s| s.to_string()).collect::<Vec<String>>()
    })
}
fn tcase_strategy(max_ops: usize) -> impl Strategy<Value = TCase> {
    let id = || proptest::sample::select(vec![0u64, 1, 2, 3, 15, 16, 255, u64::MAX]);
    let label = || proptest::sample::select(vec!["A", "B", "", "a:n"]).prop_map(|s| s.to_string());
    let op = prop_oneof![
        5 => (any::<u16>(), id(), proptest::collection::vec(label(), 0..3), 0i64..1000).prop_map(|(t, id, labels, tag)| (t, TOp::PutNode { t: 0, id, labels, tag })),
        2 => (any::<u16>(), id()).prop_map(|(t, id)| (t, TOp::DelNode { t: 0, id })),
        4 => (any::<u16>(), id(), id(), id(), proptest::sample::select(vec!["R", "", "a:e"]), 0i64..1000).prop_map(|(t, id, src, dst, ty, tag)| (t, TOp::PutEdge { t: 0, id, src, dst, ty: ty.to_string(), tag })),
        2 => (any::<u16>(), id()).prop_map(|(t, id)| (t, TOp::DelEdge { t: 0, id })),
    ];
    // `seed`: start by giving every tenant a node and a relationship with one and the same id, so the
    // tenants' entity ids overlap whatever the random operations do (shrinks to "no seeding")
    (tenants_strategy(), proptest::collection::vec(op, 1..=max_ops), proptest::option::weighted(0.8, id())).prop_map(|(tenants, raw, seed)| {
        let n = tenants.len();
        let mut seeded: Vec<TOp> = Vec::new();
        if let Some(id) = seed {
            for t in 0..n {
                seeded.push(TOp::PutNode { t, id, labels: vec![], tag: 900 + t as i64 });
                seeded.push(TOp::PutEdge { t, id, src: id, dst: id, ty: "R".into(), tag: 950 + t as i64 });
            }
        }
        let ops: Vec<TOp> = raw
            .into_iter()
            .map(|(sel, op)| {
                let ti = pick_idx(sel, n);
                match op {
                    TOp::PutNode { id, labels, tag, .. } => TOp::PutNode { t: ti, id, labels, tag },
                    TOp::DelNode { id, .. } => TOp::DelNode { t: ti, id },
                    TOp::PutEdge { id, src, dst, ty, tag, .. } => TOp::PutEdge { t: ti, id, src, dst, ty, tag },
                    TOp::DelEdge { id, .. } => TOp::DelEdge { t: ti, id },
                }
            })
            .collect();
        seeded.extend(ops);
        TCase { tenants, ops: seeded }
    })
}

fn name_relation(ts: &[String]) -> &'static str {
    let mut prefix = false;
    let mut adjacent = false;
    for a in ts {
        for b in ts {
            if a != b && b.starts_with(a.as_str()) {
                prefix = true;
                if let Some(c) = b.as_bytes().get(a.len()) {
                    if (*c as i32 - b':' as i32).abs() <= 1 || *c < b':' {
                        adjacent = true;
                    }
                }
            }
        }
    }
    if adjacent {
        "names_prefix_with_byte_at_or_below_separator"
    } else if prefix {
        "names_prefix_related"
    } else {
        "names_unrelated"
    }
}

fn c17(args: &Args) {
    let mut ev = Evidence::new(
        args,
        "exploration",
        "2-3 distinct tenant names, at least two of them from one family of near-collisions (':' vs '_' '-' '.' ' ' '/' and doubled/trailing separators; prefix chains a, a:, a:b, a_b, a:b:c; case variants; empty / whitespace / zero-width / NUL names; Unicode composed vs decomposed and case-folding pairs; bytes next to ':' in order; names shaped like key fragments; numeric padding; variants of 'default') x [in 4 of 5 cases: every tenant first gets a node and a relationship with one shared id] + 1-12 interleaved put/delete of nodes and relationships over overlapping ids {0,1,2,3,15,16,255,u64::MAX}; after every operation, for every tenant of the case: scan_nodes, scan_edges, recover, get_node/get_edge for every id of the case, and list_persisted_tenants, compared with a per-tenant map (every stored entity carries its owner tenant and a unique tag; a delete removes only the named tenant's entity). All names are asserted, including names containing ':'. One shared RocksDB per 200 cases, emptied after each case. Non-trivial = at some check point two tenants of the case are non-empty at once; distinct = distinct cases.",
    );
    ev.assume("every generated name is a tenant the system accepts: TenantManager::create_tenant and POST /api/tenants take any string as id");
    ev.assume("scan order is not specified: scan results are compared as sorted bags");
    let kfile = Known::load(args);
    let tmp = tempfile::tempdir().expect("tempdir");
    let env = RefCell::new(Env17::new(tmp.path().to_path_buf()));

    // witness
    let mut kf_on = false;
    if kfile.entries.iter().any(|e| e.id == KF17) {
        let still = match witness_case(&kfile, KF17).map(serde_json::from_value::<TCase>) {
            Some(Ok(case)) => c17_case(&env, &case, false).is_err(),
            _ => false,
        };
        kf_on = kfile.witness_result(&mut ev, KF17, still);
    }

    let account = |ev: &mut Evidence, case: &TCase, st: &Stats17| {
        ev.case();
        ev.class(&format!("family_{}", family_of(&case.tenants)));
        ev.class(name_relation(&case.tenants));
        if st.sep {
            ev.class("separator_names");
        }
        if st.overlap {
            ev.class("overlapping_entity_ids");
        }
        if st.two_nonempty {
            ev.nontrivial(case);
            ev.class("two_tenants_nonempty");
        }
        for _ in 0..st.kf_hits {
            ev.kf_hit(KF17);
        }
    };

    if let Some(p) = &args.replay {
        let case: TCase = serde_json::from_value(load_replay(p)).expect("replay case");
        match c17_case(&env, &case, kf_on) {
            Ok(st) => {
                account(&mut ev, &case, &st);
                println!("replay: property held{}", if st.kf_hits > 0 { " (deviations explained by listed known findings)" } else { "" });
            }
            Err(m) => {
                ev.case();
                report_violation(&mut ev, &json!(case), &m);
            }
        }
        ev.nontrivial(&case);
        ev.nontrivial(&"replay");
        ev.sample(json!(case));
        finish(&ev);
    }

    for (p, v) in corpus_cases("C17") {
        let case: TCase = serde_json::from_value(v).expect("corpus case");
        ev.class("corpus");
        match c17_case(&env, &case, kf_on) {
            Ok(st) => account(&mut ev, &case, &st),
            Err(m) => {
                report_violation(&mut ev, &json!(case), &format!("{m} (corpus {})", p.display()));
                finish(&ev);
            }
        }
    }

    let n = args.tier.pick(12_000u32, 200_000u32);
    let strat = tcase_strategy(12);
    let res = {
        let cell = RefCell::new(&mut ev);
        search(args.seed, n, &strat, |case| {
            let mut e = cell.borrow_mut();
            match c17_case(&env, case, kf_on) {
                Ok(st) => {
                    account(&mut e, case, &st);
                    if e.want_sample() && st.two_nonempty && case.ops.len() >= 4 {
                        e.sample(json!(case));
                    }
                    Ok(())
                }
                Err(m) => {
                    e.case();
                    e.frozen = true;
                    Err(m)
                }
            }
        })
    };
    if let Some((case, msg)) = res {
        report_violation(&mut ev, &json!(case), &msg);
    }
    finish(&ev);
}
