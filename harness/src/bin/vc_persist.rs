//! C16 (crash recovery returns the acknowledged state), C18 (tenant quotas under every
//! interleaving) and C32 (replicated requests have their effect on every replica) — DESIGN §4.
//!
//! * C16: operation histories run in a fork()ed child that `_exit`s at a chosen hook hit /
//!   right after a chosen acknowledgement; a separate long-lived recovery process (also
//!   forked from the main process) reopens the directory and recovers; the main process
//!   never opens RocksDB itself, so no forked child inherits dead RocksDB background
//!   threads, and compares the recovered graph with a reference model.
//! * C18: deterministic scheduler — real OS threads parked on a condvar at every hook point,
//!   the schedule is a `Vec<thread index>`; all interleavings of the small configurations.
//! * C32: request sequences applied to 2–3 `GraphStateMachine`s (through `RaftNode::write`
//!   and directly), each closed, reopened, recovered; replicas compared with each other and
//!   with the reference model.
use proptest::prelude::*;
use samyama::graph::{Edge, EdgeId, EdgeType, Label, Node, NodeId, PropertyMap, PropertyValue};
use samyama::persistence::{PersistenceManager, ResourceQuotas};
use samyama::raft::{GraphStateMachine, RaftNode, Request, Response};
use serde::{Deserialize, Serialize};
use serde_json::{json, Value};
use std::collections::{BTreeMap, BTreeSet};
use std::path::Path;
use std::sync::atomic::{AtomicI32, AtomicU32, AtomicUsize, Ordering};
use std::sync::{Arc, Condvar, Mutex};
use vcheck::values::{canon, from_json, to_json, value_strategy};
use vcheck::*;

fn main() {
    let args = parse_args();
    quiet_panics();
    start_watchdog(args.tier.pick(900, 3600));
    sweep_stale_scratch();
    match args.prop.as_str() {
        "C16" => c16(&args),
        "C18" => c18(&args),
        "C32" => c32(&args),
        p => {
            eprintln!("vc_persist does not serve {p}");
            std::process::exit(2)
        }
    }
}

// =======================================================================================
// shared: property maps, canonical graphs, reference model

/// property map in the lossless JSON encoding of `values::to_json` (replay-file friendly)
type JProps = BTreeMap<String, Value>;
/// canonical property map: key -> typed canonical text (floats by bit pattern)
type CProps = BTreeMap<String, String>;

fn jprops_to_map(p: &JProps) -> PropertyMap {
    p.iter().map(|(k, v)| (k.clone(), from_json(v))).collect()
}
fn jprops_canon(p: &JProps) -> CProps {
    p.iter().map(|(k, v)| (k.clone(), canon(&from_json(v)))).collect()
}
fn map_canon(p: &PropertyMap) -> CProps {
    p.iter().map(|(k, v)| (k.clone(), canon(v))).collect()
}

/// A graph without timestamps: what the property compares.
#[derive(Clone, Debug, Default, PartialEq, Eq, Serialize, Deserialize)]
struct G {
    /// id -> (labels, properties)
    nodes: BTreeMap<u64, (BTreeSet<String>, CProps)>,
    /// id -> (source, target, type, properties)
    edges: BTreeMap<u64, (u64, u64, String, CProps)>,
}

impl G {
    /// Build from what `recover`/`scan_*` returned. Two entities with one id are an error
    /// ("nothing else").
    fn from_recovered(nodes: &[Node], edges: &[Edge]) -> Result<G, String> {
        let mut g = G::default();
        for n in nodes {
            let labels: BTreeSet<String> = n.labels.iter().map(|l| l.as_str().to_string()).collect();
            if g.nodes.insert(n.id.as_u64(), (labels, map_canon(&n.properties))).is_some() {
                return Err(format!("recovery returned node id {} twice", n.id.as_u64()));
            }
        }
        for e in edges {
            let v = (e.source.as_u64(), e.target.as_u64(), e.edge_type.as_str().to_string(), map_canon(&e.properties));
            if g.edges.insert(e.id.as_u64(), v).is_some() {
                return Err(format!("recovery returned relationship id {} twice", e.id.as_u64()));
            }
        }
        Ok(g)
    }
    fn incident(&self, node: u64) -> bool {
        self.edges.values().any(|e| e.0 == node || e.1 == node)
    }
    fn brief(&self) -> String {
        let ns: Vec<String> = self.nodes.iter().map(|(id, (l, p))| format!("({id}:{}{})", l.iter().map(|x| show_name(x)).collect::<Vec<_>>().join(":"), fmt_props(p))).collect();
        let es: Vec<String> = self.edges.iter().map(|(id, (s, t, ty, p))| format!("[{id}:{s}-{}->{t}{}]", show_name(ty), fmt_props(p))).collect();
        format!("nodes {{{}}} rels {{{}}}", ns.join(" "), es.join(" "))
    }
}
fn fmt_props(p: &CProps) -> String {
    if p.is_empty() {
        String::new()
    } else {
        format!(" {{{}}}", p.iter().map(|(k, v)| format!("{}={v}", show_name(k))).collect::<Vec<_>>().join(","))
    }
}

/// How a property update acts in the reference model. The property ("property updates …
/// produced by the operations") does not say whether an update replaces the map or merges
/// into it, so the strict oracle accepts either reading, applied consistently over the
/// history. `Ignored` is the quirk switch of the known findings KF-C16-1 / KF-C32-1
/// (updates reach only the WAL, which recovery never reads).
#[derive(Clone, Copy, Debug, PartialEq, Eq)]
enum UpdMode {
    Replace,
    Merge,
    Ignored,
}

/// One logical graph mutation (shared by the C16 and C32 interpreters).
enum Mut<'a> {
    CreateNode { id: u64, labels: &'a [String], props: &'a JProps },
    CreateEdge { id: u64, src: u64, dst: u64, ty: &'a str, props: &'a JProps },
    DeleteNode { id: u64 },
    DeleteEdge { id: u64 },
    UpdateNode { id: u64, props: &'a JProps },
    UpdateEdge { id: u64, props: &'a JProps },
    Nop,
}

/// switches of the reference model
#[derive(Clone, Copy, Debug)]
struct ModelCfg {
    upd: UpdMode,
    /// KF-C32-2 quirk: a node created with an empty label list comes back labelled ""
    empty_labels_as_empty_string: bool,
}

fn model_apply(g: &mut G, m: &Mut, cfg: ModelCfg) {
    match m {
        Mut::CreateNode { id, labels, props } => {
            let mut ls: BTreeSet<String> = labels.iter().cloned().collect();
            if ls.is_empty() && cfg.empty_labels_as_empty_string {
                ls.insert(String::new());
            }
            g.nodes.insert(*id, (ls, jprops_canon(props)));
        }
        Mut::CreateEdge { id, src, dst, ty, props } => {
            g.edges.insert(*id, (*src, *dst, ty.to_string(), jprops_canon(props)));
        }
        Mut::DeleteNode { id } => {
            g.nodes.remove(id);
        }
        Mut::DeleteEdge { id } => {
            g.edges.remove(id);
        }
        Mut::UpdateNode { id, props } => {
            if let Some(n) = g.nodes.get_mut(id) {
                upd(&mut n.1, props, cfg.upd);
            }
        }
        Mut::UpdateEdge { id, props } => {
            if let Some(e) = g.edges.get_mut(id) {
                upd(&mut e.3, props, cfg.upd);
            }
        }
        Mut::Nop => {}
    }
}
fn upd(cur: &mut CProps, new: &JProps, mode: UpdMode) {
    match mode {
        UpdMode::Replace => *cur = jprops_canon(new),
        UpdMode::Merge => cur.extend(jprops_canon(new)),
        UpdMode::Ignored => {}
    }
}

/// Is the history's meaning settled by the property? Not when a node is deleted while it has
/// relationships (refuse / cascade / dangle are all defensible).
///
/// A creation over an id that is still stored IS settled: the request carries the whole
/// entity, the unchanged tree acknowledges it (NodeCreated / EdgeCreated; put_node / put_edge
/// replace the stored value), so "the effect of the requests in order" is that the later
/// creation's labels / endpoints / type / properties stand. The model's `insert` does exactly
/// that. If a tree refuses such a creation instead, it is not acknowledged and not applied.
fn mut_ambiguous(g: &G, m: &Mut) -> bool {
    match m {
        Mut::DeleteNode { id } => g.nodes.contains_key(id) && g.incident(*id),
        _ => false,
    }
}

/// number of creations in the sequence that hit an id live at that point (every mutation
/// taken as applied) — generator-health class `create_over_existing_id`
fn count_create_over_existing<'a>(muts: impl Iterator<Item = Mut<'a>>) -> usize {
    let cfg = ModelCfg { upd: UpdMode::Replace, empty_labels_as_empty_string: false };
    let mut g = G::default();
    let mut n = 0;
    for m in muts {
        match &m {
            Mut::CreateNode { id, .. } if g.nodes.contains_key(id) => n += 1,
            Mut::CreateEdge { id, .. } if g.edges.contains_key(id) => n += 1,
            _ => {}
        }
        model_apply(&mut g, &m, cfg);
    }
    n
}

/// labels for a creation over a live node: the generated set, changed if it would repeat
/// the stored labels and properties exactly
fn different_labels(cur: &(BTreeSet<String>, CProps), labels: Vec<String>, props: &JProps) -> Vec<String> {
    let set: BTreeSet<String> = labels.iter().cloned().collect();
    if set == cur.0 && jprops_canon(props) == cur.1 {
        if set.contains("C") {
            labels.into_iter().filter(|l| l != "C").collect()
        } else {
            let mut l = labels;
            l.push("C".to_string());
            l
        }
    } else {
        labels
    }
}

const KEYS: [&str; 3] = ["p", "q", "k"];
const LABELS: [&str; 3] = ["A", "B", "C"];
const TYPES: [&str; 3] = ["R", "S", "T"];

/// Boundary names for labels, relationship types and property keys: everything a
/// `Request` / `Node` / `Edge` can carry (any `String`) and bincode storage round-trips.
/// The empty string, white space only, separators of other layers (':' '|' NUL), quotes and
/// backslashes, non-ASCII (composed / decomposed / astral), names that differ from the plain
/// pool only by case or padding, reserved-looking words, and long names (300 bytes; 66 000
/// bytes, past a 16-bit length).
fn name_pool() -> &'static [String] {
    static POOL: std::sync::OnceLock<Vec<String>> = std::sync::OnceLock::new();
    POOL.get_or_init(|| {
        let mut v: Vec<String> = [
            "", " ", "  ", "\t", "\n", "\r\n", "a:b", ":", "A:B", "A|B", "|", "\0", "nul\0mid", "'", "\"", "it's", "say \"hi\"", "\\", "back\\slash", "`tick`",
            "é", "e\u{301}", "日本語", "😀", "\u{10FFFF}", "a", " A", "A ", "null", "__type", "{\"t\":\"n\"}", "\u{1}", "\u{7f}", "\u{fffd}",
        ]
        .iter()
        .map(|s| s.to_string())
        .collect();
        v.push("L".repeat(300));
        v.push("é".repeat(33_000));
        v
    })
}
/// a name longer than this is kept out of evidence samples and shortened in messages
const LONG_NAME: usize = 200;

fn show_name(s: &str) -> String {
    if !s.is_empty() && s.len() <= 24 && s.chars().all(|c| c.is_ascii_alphanumeric() || c == '_') {
        s.to_string()
    } else if s.len() > 48 {
        let head: String = s.chars().take(12).collect();
        format!("{:?}…[{} bytes]", head, s.len())
    } else {
        format!("{s:?}")
    }
}

/// key selector: 0..3 = the plain keys, 3.. = the boundary pool
fn key_name(k: u8) -> String {
    let k = k as usize;
    if k < 3 {
        KEYS[k].to_string()
    } else {
        let pool = name_pool();
        pool[(k - 3) % pool.len()].clone()
    }
}

/// generated property map: 0–2 entries, keys {p,q,k} (three in four) or boundary names,
/// boundary values (depth ≤ 1)
fn props_strategy() -> impl Strategy<Value = Vec<(u8, PropertyValue)>> {
    let key = prop_oneof![3 => 0u8..3, 1 => 3u8..(3 + name_pool().len() as u8)];
    proptest::collection::vec((key, value_strategy(1)), 0..3)
}
fn build_props(raw: &[(u8, PropertyValue)], for_update: bool) -> JProps {
    let mut out = JProps::new();
    for (k, v) in raw {
        // a top-level Null in an update could mean "remove" under a merge reading: keep the
        // update domain to values whose effect is the same under every reading of the key
        let v = if for_update && matches!(v, PropertyValue::Null) { PropertyValue::Integer(0) } else { v.clone() };
        out.insert(key_name(*k), to_json(&v));
    }
    out
}
fn label_set(mask: u8) -> Vec<String> {
    (0..3).filter(|i| mask & (1 << i) != 0).map(|i| LABELS[i].to_string()).collect()
}
/// The label list of a creation. `nm % 10`: 0..=5 the plain subsets of {A,B,C}; 6 = one to
/// three boundary names; 7 = the empty string alone; 8 = the empty string among plain
/// labels; 9 = a list that repeats a label (plain or boundary).
fn gen_labels(mask: u8, nm: u16) -> Vec<String> {
    let pool = name_pool();
    let x = (nm / 10) as usize;
    match nm % 10 {
        6 => (0..1 + x % 3).map(|i| pool[(x / 3 + i * 7) % pool.len()].clone()).collect(),
        7 => vec![String::new()],
        8 => {
            let mut l = label_set(mask);
            l.insert(x % (l.len() + 1), String::new());
            l
        }
        9 => {
            let mut l = if x % 2 == 0 { label_set(mask | 1) } else { vec![pool[(x / 2) % pool.len()].clone(), LABELS[x % 3].to_string()] };
            let again = l[0].clone();
            l.push(again.clone());
            if x % 3 == 0 {
                l.insert(0, again);
            }
            l
        }
        _ => label_set(mask),
    }
}
/// The type of a relationship creation: `nm % 10` 0..=6 plain {R,S,T}, 7..=9 a boundary name.
fn gen_type(mask: u8, nm: u16) -> String {
    if nm % 10 >= 7 {
        let pool = name_pool();
        pool[(nm / 10) as usize % pool.len()].clone()
    } else {
        TYPES[mask as usize % 3].to_string()
    }
}

/// generator-health classes over the names a history carries (suffixes; the caller adds
/// "request_with_" / "op_with_") and whether some name is too long for an evidence sample
fn name_classes<'a>(muts: impl Iterator<Item = Mut<'a>>) -> (BTreeSet<&'static str>, bool) {
    let mut out = BTreeSet::new();
    let mut long = false;
    let keys = |props: &JProps, out: &mut BTreeSet<&'static str>, long: &mut bool| {
        for k in props.keys() {
            if !KEYS.contains(&k.as_str()) {
                out.insert("boundary_key");
                if k.is_empty() {
                    out.insert("empty_string_key");
                }
            }
            *long |= k.len() > LONG_NAME;
        }
    };
    for m in muts {
        match m {
            Mut::CreateNode { labels, props, .. } => {
                if labels.iter().any(|l| !LABELS.contains(&l.as_str())) {
                    out.insert("boundary_label");
                }
                if labels.iter().any(|l| l.is_empty()) {
                    out.insert("empty_string_label");
                    if labels.iter().any(|l| !l.is_empty()) {
                        out.insert("empty_string_label_among_others");
                    }
                }
                let set: BTreeSet<&String> = labels.iter().collect();
                if set.len() < labels.len() {
                    out.insert("duplicate_labels");
                }
                long |= labels.iter().any(|l| l.len() > LONG_NAME);
                keys(props, &mut out, &mut long);
            }
            Mut::CreateEdge { ty, props, .. } => {
                if !TYPES.contains(&ty) {
                    out.insert("boundary_type");
                    if ty.is_empty() {
                        out.insert("empty_string_type");
                    }
                }
                long |= ty.len() > LONG_NAME;
                keys(props, &mut out, &mut long);
            }
            Mut::UpdateNode { props, .. } | Mut::UpdateEdge { props, .. } => keys(props, &mut out, &mut long),
            _ => {}
        }
    }
    if long {
        out.insert("very_long_name");
    }
    (out, long)
}

// ---------------------------------------------------------------------------------------
// "counter drain" histories (shared by C16 and C32): k creations, then at least as many
// deletions of ids that do not exist — each one a saturating decrement of the tenant's
// in-memory usage counter on this tree — then deletions of ids that do exist. A delete path
// that consults the in-memory counter instead of storage (e.g. "nothing to delete when the
// counter is 0") acknowledges the real deletes without performing them; only such histories
// reach that state, and the plain generators produce absent-id deletes too rarely for it.

#[derive(Clone, Debug)]
enum DStep {
    CreateNode(u64, u8),
    CreateEdge(u64, u64, u64),
    DeleteNode(u64),
    DeleteEdge(u64),
}

/// (k, extra absent deletes, mode, kind, real deletes, merge coins, label mask)
type DrainRaw = (u8, u8, u8, u8, u8, Vec<bool>, u8);

fn drain_strategy() -> impl Strategy<Value = DrainRaw> {
    (1u8..=4, 0u8..=2, 0u8..3, 0u8..3, 1u8..=4, proptest::collection::vec(any::<bool>(), 40), 0u8..8)
}

/// kind 0: node counter (k nodes); 1: relationship counter (2 hub nodes, k relationships);
/// 2: both. mode 0: creations, absent deletes, real deletes; 1: creations and absent deletes
/// interleaved, then real deletes; 2: interleaved, then the absent deletes once more (so the
/// counters are certainly drained), then real deletes.
fn drain_steps(raw: &DrainRaw) -> Vec<DStep> {
    let (k, extra, mode, kind, d, coins, mask) = raw;
    let k = *k as u64;
    let with_nodes = *kind != 1;
    let with_edges = *kind != 0;
    let mut creates = Vec::new();
    if with_edges {
        creates.push(DStep::CreateNode(8, *mask));
        creates.push(DStep::CreateNode(9, 0));
    }
    if with_nodes {
        for i in 1..=k {
            creates.push(DStep::CreateNode(i, *mask));
        }
    }
    if with_edges {
        for i in 1..=k {
            creates.push(DStep::CreateEdge(i, 8, if i % 2 == 0 { 8 } else { 9 }));
        }
    }
    let node_count = creates.iter().filter(|c| matches!(c, DStep::CreateNode(..))).count() as u64;
    let mut absent = Vec::new();
    if with_nodes {
        for j in 0..node_count + *extra as u64 {
            absent.push(DStep::DeleteNode(20 + j % 2));
        }
    }
    if with_edges {
        for j in 0..k + *extra as u64 {
            absent.push(DStep::DeleteEdge(20 + j % 2));
        }
    }
    let mut seq: Vec<DStep> = Vec::new();
    if *mode == 0 {
        seq.extend(creates);
        seq.extend(absent);
    } else {
        let (mut a, mut b) = (creates.into_iter().peekable(), absent.clone().into_iter().peekable());
        let mut c = coins.iter().cycle();
        while a.peek().is_some() || b.peek().is_some() {
            let take_a = b.peek().is_none() || (a.peek().is_some() && *c.next().unwrap());
            seq.push(if take_a { a.next().unwrap() } else { b.next().unwrap() });
        }
        if *mode == 2 {
            seq.extend(absent);
        }
    }
    let real = (*d as u64).min(k);
    if with_edges {
        for i in 1..=real {
            seq.push(DStep::DeleteEdge(i));
        }
    }
    if with_nodes {
        for i in 1..=real {
            seq.push(DStep::DeleteNode(i));
        }
    }
    seq
}

fn drain_props(id: u64) -> JProps {
    [("p".to_string(), to_json(&PropertyValue::Integer(id as i64)))].into_iter().collect()
}

fn c16_drain_build(raw: &DrainRaw) -> Vec<POp> {
    drain_steps(raw)
        .into_iter()
        .map(|st| match st {
            DStep::CreateNode(id, mask) => POp::CreateNode { id, labels: label_set(mask), props: drain_props(id) },
            DStep::CreateEdge(id, src, dst) => POp::CreateEdge { id, src, dst, ty: "R".to_string(), props: JProps::new() },
            DStep::DeleteNode(id) => POp::DeleteNode { id },
            DStep::DeleteEdge(id) => POp::DeleteEdge { id },
        })
        .collect()
}

// =======================================================================================
// fork helpers (C16)

#[derive(Clone, Debug, PartialEq)]
enum ChildEnd {
    Exit(i32),
    Signal(i32),
    Timeout,
}

fn fd_write(fd: i32, mut buf: &[u8]) {
    while !buf.is_empty() {
        let n = unsafe { libc::write(fd, buf.as_ptr() as *const libc::c_void, buf.len()) };
        if n <= 0 {
            unsafe { libc::_exit(98) };
        }
        buf = &buf[n as usize..];
    }
}

/// fork; run `child(write_fd)` in the child (it must end with `_exit`); collect everything
/// the child wrote until EOF, then reap it. `timeout_ms` without progress kills the child.
fn fork_collect(timeout_ms: i32, child: &dyn Fn(i32)) -> (Vec<u8>, ChildEnd) {
    let mut fds = [0i32; 2];
    unsafe {
        assert_eq!(libc::pipe(fds.as_mut_ptr()), 0, "pipe failed");
    }
    let pid = unsafe { libc::fork() };
    assert!(pid >= 0, "fork failed");
    if pid == 0 {
        unsafe { libc::close(fds[0]) };
        child(fds[1]);
        unsafe { libc::_exit(0) };
    }
    unsafe { libc::close(fds[1]) };
    let mut buf = Vec::new();
    let mut timed_out = false;
    loop {
        let mut pfd = libc::pollfd { fd: fds[0], events: libc::POLLIN, revents: 0 };
        let r = unsafe { libc::poll(&mut pfd, 1, timeout_ms) };
        if r == 0 {
            unsafe { libc::kill(pid, libc::SIGKILL) };
            timed_out = true;
            break;
        }
        if r < 0 {
            continue;
        }
        let mut chunk = [0u8; 16384];
        let n = unsafe { libc::read(fds[0], chunk.as_mut_ptr() as *mut libc::c_void, chunk.len()) };
        if n <= 0 {
            break;
        }
        buf.extend_from_slice(&chunk[..n as usize]);
    }
    unsafe { libc::close(fds[0]) };
    let mut status = 0i32;
    unsafe { libc::waitpid(pid, &mut status, 0) };
    let end = if timed_out {
        ChildEnd::Timeout
    } else if libc::WIFSIGNALED(status) {
        ChildEnd::Signal(libc::WTERMSIG(status))
    } else {
        ChildEnd::Exit(libc::WEXITSTATUS(status))
    };
    (buf, end)
}

/// Scratch directory for one case. tmpfs when available: RocksDB's fsyncs on a fresh
/// directory dominate the cost otherwise, and fsync is irrelevant under the process-crash
/// model (everything write(2)n is in the page cache either way).
/// Remove scratch directories that an earlier run left behind (a run that was killed or hit
/// the watchdog cannot clean up; tmpfs space is memory). Only entries older than two hours
/// are touched — longer than any run's watchdog — so concurrent runs are never disturbed.
fn sweep_stale_scratch() {
    for base in ["/dev/shm".to_string(), std::env::temp_dir().to_string_lossy().to_string()] {
        if let Ok(rd) = std::fs::read_dir(&base) {
            for e in rd.flatten() {
                if !e.file_name().to_string_lossy().starts_with("vc_persist_") {
                    continue;
                }
                let old = e.metadata().and_then(|m| m.modified()).ok().and_then(|t| t.elapsed().ok()).map(|d| d.as_secs() > 7200).unwrap_or(false);
                if old {
                    let _ = std::fs::remove_dir_all(e.path());
                }
            }
        }
    }
}

fn scratch_dir() -> tempfile::TempDir {
    let shm = Path::new("/dev/shm");
    if std::env::var_os("TMPDIR").is_none() && shm.is_dir() {
        if let Ok(d) = tempfile::Builder::new().prefix("vc_persist_").tempdir_in(shm) {
            return d;
        }
    }
    tempfile::Builder::new().prefix("vc_persist_").tempdir().expect("tempdir")
}

/// Long-lived recovery process (C16): forked from the main process (which never opens
/// RocksDB), it reopens each case directory, recovers and answers with the canonical graph.
/// If it dies or hangs, the case in flight gets that verdict and a new one is forked.
struct RecServer {
    pid: i32,
    to: i32,
    from: i32,
}

impl RecServer {
    fn spawn() -> RecServer {
        let mut a = [0i32; 2];
        let mut b = [0i32; 2];
        unsafe {
            assert_eq!(libc::pipe(a.as_mut_ptr()), 0, "pipe failed");
            assert_eq!(libc::pipe(b.as_mut_ptr()), 0, "pipe failed");
        }
        let pid = unsafe { libc::fork() };
        assert!(pid >= 0, "fork failed");
        if pid == 0 {
            unsafe {
                libc::close(a[1]);
                libc::close(b[0]);
            }
            loop {
                // read one path line
                let mut line = Vec::new();
                loop {
                    let mut c = [0u8; 1];
                    let n = unsafe { libc::read(a[0], c.as_mut_ptr() as *mut libc::c_void, 1) };
                    if n <= 0 {
                        unsafe { libc::_exit(0) };
                    }
                    if c[0] == b'\n' {
                        break;
                    }
                    line.push(c[0]);
                }
                let dir = std::path::PathBuf::from(String::from_utf8_lossy(&line).to_string());
                let out = c16_recover(&dir);
                let body = serde_json::to_vec(&out).unwrap();
                let mut msg = (body.len() as u32).to_le_bytes().to_vec();
                msg.extend_from_slice(&body);
                fd_write(b[1], &msg);
            }
        }
        unsafe {
            libc::close(a[0]);
            libc::close(b[1]);
        }
        RecServer { pid, to: a[1], from: b[0] }
    }
    /// Err = the server died / hung on this request (it is reaped; spawn a new one)
    fn recover(&mut self, dir: &Path, timeout_ms: i32) -> Result<Vec<u8>, ChildEnd> {
        let mut req = dir.to_str().expect("utf-8 temp path").as_bytes().to_vec();
        req.push(b'\n');
        let n = unsafe { libc::write(self.to, req.as_ptr() as *const libc::c_void, req.len()) };
        let mut buf: Vec<u8> = Vec::new();
        let mut timed_out = false;
        if n == req.len() as isize {
            loop {
                if buf.len() >= 4 {
                    let len = u32::from_le_bytes(buf[..4].try_into().unwrap()) as usize;
                    if buf.len() >= 4 + len {
                        return Ok(buf[4..4 + len].to_vec());
                    }
                }
                let mut pfd = libc::pollfd { fd: self.from, events: libc::POLLIN, revents: 0 };
                let r = unsafe { libc::poll(&mut pfd, 1, timeout_ms) };
                if r == 0 {
                    timed_out = true;
                    break;
                }
                if r < 0 {
                    continue;
                }
                let mut chunk = [0u8; 16384];
                let k = unsafe { libc::read(self.from, chunk.as_mut_ptr() as *mut libc::c_void, chunk.len()) };
                if k <= 0 {
                    break;
                }
                buf.extend_from_slice(&chunk[..k as usize]);
            }
        }
        Err(self.reap(timed_out))
    }
    fn reap(&mut self, kill: bool) -> ChildEnd {
        let mut status = 0i32;
        unsafe {
            if kill {
                libc::kill(self.pid, libc::SIGKILL);
            }
            libc::close(self.to);
            libc::close(self.from);
            libc::waitpid(self.pid, &mut status, 0);
        }
        self.pid = -1;
        if kill {
            ChildEnd::Timeout
        } else if libc::WIFSIGNALED(status) {
            ChildEnd::Signal(libc::WTERMSIG(status))
        } else {
            ChildEnd::Exit(libc::WEXITSTATUS(status))
        }
    }
}
impl Drop for RecServer {
    fn drop(&mut self) {
        if self.pid > 0 {
            self.reap(true);
        }
    }
}

thread_local! {
    static REC_SERVER: std::cell::RefCell<Option<RecServer>> = std::cell::RefCell::new(None);
}
fn rec_server_recover(dir: &Path) -> Result<Vec<u8>, ChildEnd> {
    REC_SERVER.with(|s| {
        let mut s = s.borrow_mut();
        if s.as_ref().map(|x| x.pid <= 0).unwrap_or(true) {
            *s = Some(RecServer::spawn());
        }
        let r = s.as_mut().unwrap().recover(dir, 20_000);
        if r.is_err() {
            *s = None;
        }
        r
    })
}

// =======================================================================================
// C16

const TENANT: &str = "default";

#[derive(Clone, Debug, Serialize, Deserialize, PartialEq)]
enum POp {
    CreateNode { id: u64, labels: Vec<String>, props: JProps },
    CreateEdge { id: u64, src: u64, dst: u64, ty: String, props: JProps },
    DeleteNode { id: u64 },
    DeleteEdge { id: u64 },
    UpdateNode { id: u64, props: JProps },
    UpdateEdge { id: u64, props: JProps, version: u64 },
    Flush,
    Checkpoint,
}

impl POp {
    /// hook points inside the operation on the instrumented tree (an upper bound: a tree
    /// without `persist:update_*:after_storage` hits one hook per update; a crash point
    /// beyond the hooks actually hit means "right after the acknowledgement")
    fn hooks(&self) -> u32 {
        match self {
            POp::CreateNode { .. } | POp::CreateEdge { .. } => 4,
            POp::DeleteNode { .. } | POp::DeleteEdge { .. } => 3,
            POp::UpdateNode { .. } | POp::UpdateEdge { .. } => 2,
            POp::Flush | POp::Checkpoint => 0,
        }
    }
    fn as_mut(&self) -> Mut<'_> {
        match self {
            POp::CreateNode { id, labels, props } => Mut::CreateNode { id: *id, labels, props },
            POp::CreateEdge { id, src, dst, ty, props } => Mut::CreateEdge { id: *id, src: *src, dst: *dst, ty, props },
            POp::DeleteNode { id } => Mut::DeleteNode { id: *id },
            POp::DeleteEdge { id } => Mut::DeleteEdge { id: *id },
            POp::UpdateNode { id, props } => Mut::UpdateNode { id: *id, props },
            POp::UpdateEdge { id, props, .. } => Mut::UpdateEdge { id: *id, props },
            POp::Flush | POp::Checkpoint => Mut::Nop,
        }
    }
    fn is_update(&self) -> bool {
        matches!(self, POp::UpdateNode { .. } | POp::UpdateEdge { .. })
    }
    fn kind(&self) -> &'static str {
        match self {
            POp::CreateNode { .. } => "create_node",
            POp::CreateEdge { .. } => "create_edge",
            POp::DeleteNode { .. } => "delete_node",
            POp::DeleteEdge { .. } => "delete_edge",
            POp::UpdateNode { .. } => "update_node",
            POp::UpdateEdge { .. } => "update_edge",
            POp::Flush => "flush",
            POp::Checkpoint => "checkpoint",
        }
    }
}

/// Where the child process dies: at the `point`-th hook hit inside operation `op`
/// (1..=hooks), or right after that operation's acknowledgement (`point` greater than the
/// hooks the operation hits, "between operations"). `None` = no crash: the manager is dropped and the process exits.
#[derive(Clone, Copy, Debug, Serialize, Deserialize, PartialEq, Eq, Hash)]
struct Crash {
    op: usize,
    point: u32,
}

#[derive(Clone, Debug, Serialize, Deserialize, PartialEq)]
struct C16Case {
    ops: Vec<POp>,
    crash: Option<Crash>,
}

fn crash_points(ops: &[POp]) -> Vec<Crash> {
    let mut v = Vec::new();
    for (i, op) in ops.iter().enumerate() {
        for p in 1..=op.hooks() + 1 {
            v.push(Crash { op: i, point: p });
        }
    }
    v
}

/// history is in the domain: ids created only while free, relationships only between live
/// nodes, nodes deleted only without relationships (all judged as if every op were applied)
fn c16_valid(ops: &[POp]) -> bool {
    let cfg = ModelCfg { upd: UpdMode::Replace, empty_labels_as_empty_string: false };
    let mut g = G::default();
    for op in ops {
        let m = op.as_mut();
        if mut_ambiguous(&g, &m) {
            return false;
        }
        if let POp::CreateEdge { src, dst, .. } = op {
            if !g.nodes.contains_key(src) || !g.nodes.contains_key(dst) {
                return false;
            }
        }
        model_apply(&mut g, &m, cfg);
    }
    true
}

static C16_FD: AtomicI32 = AtomicI32::new(-1);
static C16_CUR_OP: AtomicUsize = AtomicUsize::new(usize::MAX);
static C16_HITS: AtomicU32 = AtomicU32::new(0);
static C16_CRASH_OP: AtomicUsize = AtomicUsize::new(usize::MAX);
static C16_CRASH_PT: AtomicU32 = AtomicU32::new(0);

fn c16_exec_op(pm: &PersistenceManager, op: &POp) -> Result<(), String> {
    match op {
        POp::CreateNode { id, labels, props } => {
            let node = Node::new_with_properties(NodeId::new(*id), labels.iter().map(|l| Label::new(l.clone())).collect(), jprops_to_map(props));
            pm.persist_create_node(TENANT, &node).map_err(|e| e.to_string())
        }
        POp::CreateEdge { id, src, dst, ty, props } => {
            let edge = Edge::new_with_properties(EdgeId::new(*id), NodeId::new(*src), NodeId::new(*dst), EdgeType::new(ty.clone()), jprops_to_map(props));
            pm.persist_create_edge(TENANT, &edge).map_err(|e| e.to_string())
        }
        POp::DeleteNode { id } => pm.persist_delete_node(TENANT, *id).map_err(|e| e.to_string()),
        POp::DeleteEdge { id } => pm.persist_delete_edge(TENANT, *id).map_err(|e| e.to_string()),
        POp::UpdateNode { id, props } => pm.persist_update_node_properties(TENANT, *id, &jprops_to_map(props)).map_err(|e| e.to_string()),
        POp::UpdateEdge { id, props, version } => pm.persist_update_edge_properties(TENANT, *id, &jprops_to_map(props), *version).map_err(|e| e.to_string()),
        POp::Flush => pm.flush().map_err(|e| e.to_string()),
        POp::Checkpoint => pm.checkpoint().map_err(|e| e.to_string()),
    }
}

fn one_line(s: &str) -> String {
    s.replace('\n', " ").replace('\r', " ")
}

/// child 1: run the history, report every step on the pipe, die at the crash point
fn c16_child_exec(dir: &Path, case: &C16Case, fd: i32) {
    C16_FD.store(fd, Ordering::SeqCst);
    if let Some(c) = case.crash {
        C16_CRASH_OP.store(c.op, Ordering::SeqCst);
        C16_CRASH_PT.store(c.point, Ordering::SeqCst);
    }
    samyama::verif_hooks::install(Some(Arc::new(|name: &'static str| {
        let h = C16_HITS.fetch_add(1, Ordering::SeqCst) + 1;
        let fd = C16_FD.load(Ordering::SeqCst);
        fd_write(fd, format!("H {name}\n").as_bytes());
        if C16_CUR_OP.load(Ordering::SeqCst) == C16_CRASH_OP.load(Ordering::SeqCst) && h == C16_CRASH_PT.load(Ordering::SeqCst) {
            unsafe { libc::_exit(0) };
        }
    })));
    let pm = match catch(|| PersistenceManager::new(dir)) {
        Ok(Ok(pm)) => pm,
        Ok(Err(e)) => {
            fd_write(fd, format!("F open refused: {}\n", one_line(&e.to_string())).as_bytes());
            unsafe { libc::_exit(0) }
        }
        Err(p) => {
            fd_write(fd, format!("F open panicked: {}\n", one_line(&p)).as_bytes());
            unsafe { libc::_exit(0) }
        }
    };
    for (i, op) in case.ops.iter().enumerate() {
        C16_CUR_OP.store(i, Ordering::SeqCst);
        C16_HITS.store(0, Ordering::SeqCst);
        fd_write(fd, format!("S {i}\n").as_bytes());
        match catch(|| c16_exec_op(&pm, op)) {
            Ok(Ok(())) => {
                fd_write(fd, format!("A {i}\n").as_bytes());
                // "between operations": the crash point lies beyond the hooks this op hit
                if case.crash.map(|c| c.op == i && c.point > C16_HITS.load(Ordering::SeqCst)).unwrap_or(false) {
                    unsafe { libc::_exit(0) };
                }
            }
            Ok(Err(e)) => fd_write(fd, format!("E {i} {}\n", one_line(&e)).as_bytes()),
            Err(p) => fd_write(fd, format!("P {i} {}\n", one_line(&p)).as_bytes()),
        }
    }
    C16_CUR_OP.store(usize::MAX, Ordering::SeqCst);
    drop(pm);
    fd_write(fd, b"X\n");
    unsafe { libc::_exit(0) };
}

#[derive(Serialize, Deserialize)]
enum RecOut {
    Graph(G),
    Refused(String),
    Panicked(String),
    Malformed(String),
}

/// recovery side (runs in the recovery process): reopen the directory, recover the tenant
fn c16_recover(dir: &Path) -> RecOut {
    match catch(|| -> Result<G, String> {
        let pm = PersistenceManager::new(dir).map_err(|e| format!("reopen refused: {e}"))?;
        let (nodes, edges) = pm.recover(TENANT).map_err(|e| format!("recover refused: {e}"))?;
        match G::from_recovered(&nodes, &edges) {
            Ok(g) => Ok(g),
            Err(m) => Err(format!("!{m}")),
        }
    }) {
        Ok(Ok(g)) => RecOut::Graph(g),
        Ok(Err(m)) if m.starts_with('!') => RecOut::Malformed(m[1..].to_string()),
        Ok(Err(m)) => RecOut::Refused(m),
        Err(p) => RecOut::Panicked(p),
    }
}

#[derive(Debug, Default)]
struct ExecTrace {
    acked: BTreeSet<usize>,
    refused: Vec<(usize, String)>,
    panicked: Vec<(usize, String)>,
    started: Option<usize>,
    last_hook: Option<String>,
    hook_hits: u32,
    clean: bool,
    open_failure: Option<String>,
}

fn parse_trace(bytes: &[u8]) -> ExecTrace {
    let mut t = ExecTrace::default();
    for line in String::from_utf8_lossy(bytes).lines() {
        let (tag, rest) = line.split_at(1.min(line.len()));
        let rest = rest.trim_start();
        let idx = || rest.split(' ').next().and_then(|s| s.parse::<usize>().ok()).unwrap_or(usize::MAX);
        let msg = || rest.splitn(2, ' ').nth(1).unwrap_or("").to_string();
        match tag {
            "S" => {
                t.started = Some(idx());
                t.last_hook = None;
            }
            "H" => {
                t.last_hook = Some(rest.to_string());
                t.hook_hits += 1;
            }
            "A" => {
                t.acked.insert(idx());
            }
            "E" => t.refused.push((idx(), msg())),
            "P" => t.panicked.push((idx(), msg())),
            "X" => t.clean = true,
            "F" => t.open_failure = Some(rest.to_string()),
            _ => {}
        }
    }
    t
}

enum C16Verdict {
    /// held; (crash strictly inside an op, class label of the crash site)
    Held { inside: bool, site: String, refusals: usize },
    /// failed the strict oracle, explained exactly by the named known finding
    Known(&'static str),
    Fail(String),
    /// child did not finish within the per-case budget
    Timeout,
}

/// Run one case through both children and judge it. `kf_updates` = matcher of KF-C16-1 on.
fn c16_run(case: &C16Case, kf_updates: bool) -> C16Verdict {
    let tmp = scratch_dir();
    let dir = tmp.path().to_path_buf();
    let (bytes, end) = fork_collect(20_000, &|fd| c16_child_exec(&dir, case, fd));
    match end {
        ChildEnd::Timeout => return C16Verdict::Timeout,
        ChildEnd::Signal(s) => return C16Verdict::Fail(format!("the writing process died with signal {s} (not the injected crash); trace: {}", one_line(&String::from_utf8_lossy(&bytes)))),
        ChildEnd::Exit(0) => {}
        ChildEnd::Exit(c) => return C16Verdict::Fail(format!("the writing process exited with code {c}; trace: {}", one_line(&String::from_utf8_lossy(&bytes)))),
    }
    let t = parse_trace(&bytes);
    if let Some(m) = &t.open_failure {
        return C16Verdict::Fail(format!("opening a fresh directory failed: {m}"));
    }
    if let Some((i, m)) = t.panicked.first() {
        return C16Verdict::Fail(format!("operation {i} ({}) panicked: {m}", case.ops[*i].kind()));
    }
    // the op in flight: started, neither acknowledged nor refused, process gone
    let inflight = match t.started {
        Some(i) if !t.clean && !t.acked.contains(&i) && !t.refused.iter().any(|r| r.0 == i) => Some(i),
        _ => None,
    };
    let rbytes = match rec_server_recover(&dir) {
        Ok(b) => b,
        Err(ChildEnd::Timeout) => return C16Verdict::Timeout,
        Err(other) => return C16Verdict::Fail(format!("the recovering process died ({other:?}) after a crash at {:?}", case.crash)),
    };
    let got = match serde_json::from_slice::<RecOut>(&rbytes) {
        Ok(RecOut::Graph(g)) => g,
        Ok(RecOut::Refused(m)) => return C16Verdict::Fail(format!("recovery refused after crash at {:?}: {m}", case.crash)),
        Ok(RecOut::Panicked(m)) => return C16Verdict::Fail(format!("recovery panicked after crash at {:?}: {m}", case.crash)),
        Ok(RecOut::Malformed(m)) => return C16Verdict::Fail(m),
        Err(e) => return C16Verdict::Fail(format!("recovering process sent no result ({e})")),
    };
    // reference: acknowledged ops in order, optionally followed by the op in flight
    let candidates = |upd: UpdMode| -> Vec<G> {
        let cfg = ModelCfg { upd, empty_labels_as_empty_string: false };
        let mut g = G::default();
        for (i, op) in case.ops.iter().enumerate() {
            if t.acked.contains(&i) {
                model_apply(&mut g, &op.as_mut(), cfg);
            }
        }
        let mut v = vec![g.clone()];
        if let Some(i) = inflight {
            model_apply(&mut g, &case.ops[i].as_mut(), cfg);
            v.push(g);
        }
        v
    };
    let site = match (&case.crash, inflight) {
        (None, _) => "clean_shutdown".to_string(),
        (Some(_), Some(_)) => format!("crash@{}", t.last_hook.clone().unwrap_or_else(|| "before_first_hook".into())),
        (Some(c), None) if t.clean => format!("crash_point_not_reached(op{},pt{})", c.op.min(99), c.point),
        (Some(_), None) => "crash_between_operations".to_string(),
    };
    let strict_ok = [UpdMode::Replace, UpdMode::Merge].iter().any(|m| candidates(*m).contains(&got));
    if strict_ok {
        return C16Verdict::Held { inside: inflight.is_some(), site, refusals: t.refused.len() };
    }
    if kf_updates && candidates(UpdMode::Ignored).contains(&got) {
        return C16Verdict::Known("KF-C16-1");
    }
    let want = candidates(UpdMode::Replace);
    let acked: Vec<usize> = t.acked.iter().cloned().collect();
    C16Verdict::Fail(format!(
        "after {} the recovered graph is not the acknowledged state: recovered {} ; expected {}{} ; acknowledged ops {:?}, in flight {:?}, refused {:?}",
        site,
        got.brief(),
        want[0].brief(),
        if want.len() > 1 { format!(" or (with the op in flight) {}", want[1].brief()) } else { String::new() },
        acked,
        inflight,
        t.refused
    ))
}

/// raw generated step: (kind, three selectors, label mask, properties, name selector)
type RawOp = (u8, u16, u16, u16, u8, Vec<(u8, PropertyValue)>, u16);

fn raw_op_strategy() -> impl Strategy<Value = RawOp> {
    // kinds by weight: 0 create_node ×4, 1 create_edge ×3, 2 delete_node, 3 delete_edge,
    // 4 update_node ×3, 5 update_edge ×2, 6 flush, 7 checkpoint
    let kind = prop_oneof![4 => Just(0u8), 3 => Just(1u8), 1 => Just(2u8), 1 => Just(3u8), 3 => Just(4u8), 2 => Just(5u8), 1 => Just(6u8), 1 => Just(7u8)];
    (kind, any::<u16>(), any::<u16>(), any::<u16>(), 0u8..8, props_strategy(), any::<u16>())
}

/// Construct a valid history from selectors (construction, not rejection): ids 1..=6, reuse
/// after deletion, relationships between live nodes (self-loops and parallel edges included),
/// node deletion only without relationships, deletes/updates of absent ids at low weight.
fn c16_build(raw: &[RawOp]) -> Vec<POp> {
    const IDS: u64 = 6;
    let cfg = ModelCfg { upd: UpdMode::Replace, empty_labels_as_empty_string: false };
    let mut g = G::default();
    let mut ops = Vec::new();
    for (kind, a, b, c, mask, props, nm) in raw {
        let live_nodes: Vec<u64> = g.nodes.keys().cloned().collect();
        let live_edges: Vec<u64> = g.edges.keys().cloned().collect();
        let free_nodes: Vec<u64> = (1..=IDS).filter(|i| !g.nodes.contains_key(i)).collect();
        let free_edges: Vec<u64> = (1..=IDS).filter(|i| !g.edges.contains_key(i)).collect();
        let absent = *c < 6000; // ~9 %: aim at an absent id
        let op = match kind {
            // ~20 %: create over an id that is still stored, with different labels/properties
            0 if !live_nodes.is_empty() && *b < 13000 => {
                let id = live_nodes[pick_idx(*a, live_nodes.len())];
                let props = build_props(props, false);
                POp::CreateNode { id, labels: different_labels(&g.nodes[&id], gen_labels(*mask, *nm), &props), props }
            }
            // 25 % (mask 6, 7): relationship over an id that is still stored, new endpoints/type/properties
            1 if !live_nodes.is_empty() && !live_edges.is_empty() && *mask >= 6 => {
                let id = live_edges[pick_idx(*a, live_edges.len())];
                let (src, dst) = (live_nodes[pick_idx(*b, live_nodes.len())], live_nodes[pick_idx(*c, live_nodes.len())]);
                let props = build_props(props, false);
                let cur = &g.edges[&id];
                let mut ty = gen_type(*mask, *nm);
                if (src, dst, &ty, &jprops_canon(&props)) == (cur.0, cur.1, &cur.2, &cur.3) {
                    ty = TYPES[(*mask as usize + 1) % 3].to_string();
                    if ty == cur.2 {
                        ty = TYPES[(*mask as usize + 2) % 3].to_string();
                    }
                }
                POp::CreateEdge { id, src, dst, ty, props }
            }
            0 if !free_nodes.is_empty() => POp::CreateNode { id: free_nodes[pick_idx(*a, free_nodes.len())], labels: gen_labels(*mask, *nm), props: build_props(props, false) },
            1 if !live_nodes.is_empty() && !free_edges.is_empty() => POp::CreateEdge {
                id: free_edges[pick_idx(*a, free_edges.len())],
                src: live_nodes[pick_idx(*b, live_nodes.len())],
                dst: live_nodes[pick_idx(*c, live_nodes.len())],
                ty: gen_type(*mask, *nm),
                props: build_props(props, false),
            },
            2 => {
                let deletable: Vec<u64> = live_nodes.iter().cloned().filter(|n| !g.incident(*n)).collect();
                if !deletable.is_empty() && !absent {
                    POp::DeleteNode { id: deletable[pick_idx(*a, deletable.len())] }
                } else if !free_nodes.is_empty() {
                    POp::DeleteNode { id: free_nodes[pick_idx(*a, free_nodes.len())] }
                } else {
                    continue;
                }
            }
            3 => {
                if !live_edges.is_empty() && !absent {
                    POp::DeleteEdge { id: live_edges[pick_idx(*a, live_edges.len())] }
                } else if !free_edges.is_empty() {
                    POp::DeleteEdge { id: free_edges[pick_idx(*a, free_edges.len())] }
                } else {
                    continue;
                }
            }
            4 | 0 => {
                if !live_nodes.is_empty() && !(absent && !free_nodes.is_empty()) {
                    POp::UpdateNode { id: live_nodes[pick_idx(*a, live_nodes.len())], props: build_props(props, true) }
                } else if !free_nodes.is_empty() {
                    POp::UpdateNode { id: free_nodes[pick_idx(*a, free_nodes.len())], props: build_props(props, true) }
                } else {
                    continue;
                }
            }
            5 | 1 => {
                if !live_edges.is_empty() && !(absent && !free_edges.is_empty()) {
                    POp::UpdateEdge { id: live_edges[pick_idx(*a, live_edges.len())], props: build_props(props, true), version: (*b % 3) as u64 }
                } else if !free_edges.is_empty() {
                    POp::UpdateEdge { id: free_edges[pick_idx(*a, free_edges.len())], props: build_props(props, true), version: (*b % 3) as u64 }
                } else {
                    continue;
                }
            }
            6 => POp::Flush,
            _ => POp::Checkpoint,
        };
        model_apply(&mut g, &op.as_mut(), cfg);
        ops.push(op);
    }
    ops
}

#[derive(Clone, Debug)]
enum HistRaw {
    Random(Vec<RawOp>),
    Drain(DrainRaw),
}

/// one op of each kind, every crash point enumerated in both tiers
fn c16_fixed_history() -> Vec<POp> {
    let p = |k: &str, v: PropertyValue| -> JProps { [(k.to_string(), to_json(&v))].into_iter().collect() };
    vec![
        POp::CreateNode { id: 1, labels: vec!["A".into()], props: p("p", PropertyValue::Integer(1)) },
        POp::CreateNode { id: 2, labels: vec![], props: JProps::new() },
        POp::CreateEdge { id: 1, src: 1, dst: 2, ty: "R".into(), props: p("q", PropertyValue::Float(-0.0)) },
        POp::UpdateNode { id: 1, props: p("p", PropertyValue::Integer(2)) },
        POp::UpdateEdge { id: 1, props: p("q", PropertyValue::String("x".into())), version: 1 },
        POp::Flush,
        POp::CreateNode { id: 3, labels: vec!["B".into(), "C".into()], props: p("k", PropertyValue::Array(vec![PropertyValue::Null, PropertyValue::Float(f64::NAN)])) },
        POp::DeleteEdge { id: 1 },
        POp::DeleteNode { id: 2 },
        POp::Checkpoint,
        POp::CreateNode { id: 2, labels: vec!["C".into()], props: JProps::new() },
        // creation over an id that is still stored: the later one stands
        POp::CreateNode { id: 1, labels: vec!["B".into()], props: p("q", PropertyValue::Integer(7)) },
    ]
}

/// structural shrink of a failing case: fewer ops (keeping the crash site and validity),
/// no crash if it fails without one, then smaller property maps
fn c16_shrink(mut case: C16Case, fails: &dyn Fn(&C16Case) -> bool) -> C16Case {
    // ops after the crash op never run
    if let Some(c) = case.crash {
        case.ops.truncate(c.op + 1);
    }
    if case.crash.is_some() {
        let c = C16Case { ops: case.ops.clone(), crash: None };
        if fails(&c) {
            case = c;
        }
    }
    loop {
        let mut changed = false;
        let mut i = case.ops.len();
        while i > 0 {
            i -= 1;
            if case.crash.map(|c| c.op == i).unwrap_or(false) {
                continue;
            }
            let mut cand = case.clone();
            cand.ops.remove(i);
            if let Some(c) = cand.crash.as_mut() {
                if i < c.op {
                    c.op -= 1;
                }
            }
            if c16_valid(&cand.ops) && fails(&cand) {
                case = cand;
                changed = true;
            }
        }
        for i in 0..case.ops.len() {
            let mut cand = case.clone();
            let simpler = match &mut cand.ops[i] {
                POp::CreateNode { labels, props, .. } if !props.is_empty() || labels.len() > 1 => {
                    props.clear();
                    labels.truncate(1);
                    true
                }
                POp::CreateEdge { props, .. } if !props.is_empty() => {
                    props.clear();
                    true
                }
                POp::UpdateNode { props, .. } | POp::UpdateEdge { props, .. } if props.len() > 1 => {
                    let k = props.keys().next().cloned().unwrap();
                    props.remove(&k);
                    true
                }
                _ => false,
            };
            if simpler && fails(&cand) {
                case = cand;
                changed = true;
            }
        }
        if !changed {
            break;
        }
    }
    case
}

fn c16(args: &Args) {
    let mut ev = Evidence::new(
        args,
        "fault_enumeration",
        "histories (<= 25 ops: persist_create_node/edge — about one in five over an id that is still stored, with different content —, persist_delete_*, persist_update_node_properties, persist_update_edge_properties, flush, checkpoint; ids 1..=6 with reuse, boundary property values, labels / relationship types / property keys from plain pools or a boundary pool of names: empty string, white space, ':' '|' NUL, quotes, backslashes, non-ASCII, 300-byte and 66 000-byte names, repeated labels) run in a fork()ed child that _exit()s at a chosen hook hit inside an operation (after quota check / WAL append / storage write / usage update) or right after an acknowledgement, or shuts down cleanly; a separate recovery process reopens the directory and calls recover(tenant); oracle = recovered graph (ids, labels, endpoints, types, typed properties) equals the reference model over the acknowledged ops, optionally plus the op in flight applied whole. Part A enumerates EVERY crash point of a fixed all-kinds history and of generated short histories; part B draws (history, crash point) pairs, one in six from a counter-drain class (k creations, at least k deletes of ids that do not exist, then deletes of ids that do). Non-trivial = the crash fell strictly inside an operation, or the history contains a property update; distinct = distinct (history, crash point).",
    );
    ev.assume("a process crash is modelled by _exit(2) semantics: everything write(2)n survives, user-space buffers are lost; power loss is not modelled");
    ev.assume("a property update may be read as replacing the property map or as merging into it; either reading, applied consistently, satisfies the oracle; updates carry no top-level null");
    ev.assume("histories stay in the unambiguous domain: relationships join live nodes, a node is deleted only when it has no relationships; a creation over an id that is still stored is in the domain (it is acknowledged on the unchanged tree and replaces the stored entity, so the later creation stands)");
    let kf = Known::load(args);

    if let Some(p) = &args.replay {
        let case: C16Case = serde_json::from_value(load_replay(p)).expect("replay case");
        ev.case();
        match c16_run(&case, false) {
            C16Verdict::Held { .. } => println!("replay: property held"),
            C16Verdict::Known(_) => unreachable!(),
            C16Verdict::Timeout => {
                eprintln!("INCONCLUSIVE: replay timed out");
                std::process::exit(2)
            }
            C16Verdict::Fail(m) => {
                report_violation(&mut ev, &json!(case), &m);
            }
        }
        ev.nontrivial(&serde_json::to_string(&case).unwrap());
        ev.nontrivial(&"replay");
        ev.sample(json!(case));
        finish(&ev);
    }

    // known findings: replay each witness strictly; the matcher is on only if it still fails
    let mut kf_updates = false;
    if kf.listed("KF-C16-1") {
        if let Some(w) = witness_case(&kf, "KF-C16-1") {
            let case: C16Case = serde_json::from_value(w).expect("witness case");
            let still = matches!(c16_run(&case, false), C16Verdict::Fail(_));
            kf_updates = kf.witness_result(&mut ev, "KF-C16-1", still);
        }
    }

    let mut failure: Option<(C16Case, String)> = None;
    let mut timeouts = 0u64;
    let mut judge = |ev: &mut Evidence, case: &C16Case, class: &str| -> Result<(), String> {
        ev.case();
        ev.class(class);
        let has_update = case.ops.iter().any(|o| o.is_update());
        let executed = case.crash.map(|c| c.op + 1).unwrap_or(case.ops.len());
        let over = count_create_over_existing(case.ops.iter().take(executed).map(|o| o.as_mut()));
        if over > 0 {
            ev.class("create_over_existing_id");
        }
        let (names, long_name) = name_classes(case.ops.iter().take(executed).map(|o| o.as_mut()));
        for c in &names {
            ev.class(&format!("op_with_{c}"));
        }
        match c16_run(case, kf_updates) {
            C16Verdict::Held { inside, site, refusals } => {
                ev.class(&site.split('(').next().unwrap().to_string());
                for _ in 0..refusals {
                    ev.refusal();
                }
                if has_update {
                    ev.class("history_with_update");
                }
                if inside || has_update {
                    ev.nontrivial(&serde_json::to_string(case).unwrap());
                    if inside && ev.want_sample() && (ev.samples.len() < 3 || has_update) && !long_name {
                        ev.sample(json!(case));
                    }
                }
                Ok(())
            }
            C16Verdict::Known(id) => {
                ev.kf_hit(id);
                ev.class("known_finding_hit");
                ev.nontrivial(&serde_json::to_string(case).unwrap());
                Ok(())
            }
            C16Verdict::Timeout => {
                if !ev.frozen {
                    ev.timeouts += 1;
                    timeouts += 1;
                }
                Ok(())
            }
            C16Verdict::Fail(m) => {
                ev.frozen = true;
                Err(m)
            }
        }
    };

    // regression corpus first
    for (p, v) in corpus_cases("C16") {
        let case: C16Case = serde_json::from_value(v).expect("corpus case");
        if let Err(m) = judge(&mut ev, &case, "corpus") {
            failure = Some((case, format!("{m} (corpus {})", p.display())));
            break;
        }
    }

    // Part A: every crash point of the fixed history and of generated short histories
    let hist_strat = |max: usize| proptest::collection::vec(raw_op_strategy(), 2..=max);
    if failure.is_none() {
        let n_hist = args.tier.pick(5usize, 40usize);
        let mut histories = vec![c16_fixed_history()];
        for raw in generate(args.seed ^ 0x16a, n_hist, &hist_strat(args.tier.pick(7, 10))) {
            histories.push(c16_build(&raw));
        }
        let mut points = 0u64;
        'a: for ops in histories {
            let mut crashes: Vec<Option<Crash>> = vec![None];
            crashes.extend(crash_points(&ops).into_iter().map(Some));
            for crash in crashes {
                let case = C16Case { ops: ops.clone(), crash };
                points += 1;
                if let Err(m) = judge(&mut ev, &case, "A_every_crash_point") {
                    failure = Some((case, m));
                    break 'a;
                }
            }
        }
        ev.set("part_a_crash_points_enumerated", json!(points));
    }

    // Part B: (history <= 25, crash point) pairs
    if failure.is_none() {
        let n = args.tier.pick(300u32, 4_000u32);
        // five random histories to one counter-drain history
        let strat = (prop_oneof![5 => hist_strat(25).prop_map(HistRaw::Random), 1 => drain_strategy().prop_map(HistRaw::Drain)], any::<u16>());
        let to_case = |v: &(HistRaw, u16)| -> C16Case {
            let ops = match &v.0 {
                HistRaw::Random(r) => c16_build(r),
                HistRaw::Drain(d) => c16_drain_build(d),
            };
            let pts = crash_points(&ops);
            // selector 0 = clean shutdown, otherwise a crash point (monotone map)
            let k = pick_idx(v.1, pts.len() + 1);
            C16Case { crash: if k == 0 { None } else { Some(pts[k - 1]) }, ops }
        };
        let evc = std::cell::RefCell::new(&mut ev);
        let jc = std::cell::RefCell::new(&mut judge);
        let res = search(args.seed, n, &strat, |v| {
            let case = to_case(v);
            let mut e = evc.borrow_mut();
            let mut j = jc.borrow_mut();
            (*j)(&mut **e, &case, if matches!(v.0, HistRaw::Drain(_)) { "B_counter_drain_pair" } else { "B_random_pair" })
        });
        drop(evc);
        drop(jc);
        if let Some((v, msg)) = res {
            failure = Some((to_case(&v), msg));
        }
    }
    drop(judge);
    if ev.evaluations > 0 && timeouts * 100 > ev.evaluations {
        eprintln!("INCONCLUSIVE: {timeouts} of {} cases timed out", ev.evaluations);
        ev.write();
        std::process::exit(2);
    }

    if let Some((case, msg)) = failure {
        let fails = |c: &C16Case| matches!(c16_run(c, kf_updates), C16Verdict::Fail(_));
        let min = c16_shrink(case, &fails);
        let msg2 = match c16_run(&min, kf_updates) {
            C16Verdict::Fail(m) => m,
            _ => msg,
        };
        report_violation(&mut ev, &json!(min), &msg2);
    }
    finish(&ev);
}

// =======================================================================================
// C18 — quotas under every interleaving (deterministic scheduler, DESIGN 3.6)

#[derive(Clone, Debug, Serialize, Deserialize, PartialEq, Eq, Hash)]
struct C18Case {
    /// one string per writer thread: its creations in order, 'n' = node, 'e' = relationship
    threads: Vec<String>,
    /// quotas the tenant is created with; null = no limit for that resource
    max_nodes: Option<usize>,
    max_edges: Option<usize>,
    /// thread index to release at each step (until its next hook point or completion);
    /// entries naming a finished thread are skipped; threads still unfinished afterwards
    /// run to completion in index order
    schedule: Vec<u8>,
    /// recover(tenant) is then called this many times, checking usage after each call
    recovers: u8,
    /// close the manager and open a fresh one on the same directory before recovering
    #[serde(default)]
    reopen: bool,
    /// the history goes on: each phase changes the quotas while no writer runs
    /// (`TenantManager::update_quotas`) and then runs more writers
    #[serde(default, skip_serializing_if = "Vec::is_empty")]
    phases: Vec<C18Phase>,
}

#[derive(Clone, Debug, Serialize, Deserialize, PartialEq, Eq, Hash)]
struct C18Phase {
    /// quotas put in force before this phase's writers start; null = no limit
    max_nodes: Option<usize>,
    max_edges: Option<usize>,
    threads: Vec<String>,
    #[serde(default)]
    schedule: Vec<u8>,
    /// before the quota change: recover(tenant) on the same manager
    #[serde(default)]
    recover_before: bool,
    /// before the quota change: close the manager, open a fresh one on the same directory,
    /// register the tenant with the quotas that were in force, recover(tenant)
    #[serde(default)]
    reopen_before: bool,
}

/// the top-level fields of a case are its first phase
struct PhaseView<'a> {
    max_nodes: Option<usize>,
    max_edges: Option<usize>,
    threads: &'a [String],
    schedule: &'a [u8],
    recover_before: bool,
    reopen_before: bool,
}

impl C18Case {
    fn single(threads: Vec<String>, max_nodes: Option<usize>, max_edges: Option<usize>, schedule: Vec<u8>, recovers: u8, reopen: bool) -> C18Case {
        C18Case { threads, max_nodes, max_edges, schedule, recovers, reopen, phases: Vec::new() }
    }
    fn views(&self) -> Vec<PhaseView<'_>> {
        let mut v = vec![PhaseView { max_nodes: self.max_nodes, max_edges: self.max_edges, threads: &self.threads, schedule: &self.schedule, recover_before: false, reopen_before: false }];
        for p in &self.phases {
            v.push(PhaseView { max_nodes: p.max_nodes, max_edges: p.max_edges, threads: &p.threads, schedule: &p.schedule, recover_before: p.recover_before, reopen_before: p.reopen_before });
        }
        v
    }
    /// the manager is closed and reopened somewhere in the history
    fn reopens(&self) -> bool {
        self.reopen || self.phases.iter().any(|p| p.reopen_before)
    }
    /// same configuration, schedules dropped (key of the distinct-case count)
    fn without_schedules(&self) -> C18Case {
        let mut c = self.clone();
        c.schedule.clear();
        for p in &mut c.phases {
            p.schedule.clear();
        }
        c
    }
}

fn quota_text(q: Option<usize>) -> String {
    q.map(|n| n.to_string()).unwrap_or_else(|| "unlimited".to_string())
}

#[derive(Clone, Copy, PartialEq, Eq, Debug)]
enum Pos {
    Running,
    Parked,
    Done,
}

struct SchedState {
    granted: Vec<bool>,
    pos: Vec<Pos>,
    /// (thread, event): hook names, "start", "result:ok|refused|panic"
    trace: Vec<(u8, String)>,
    results: Vec<Vec<Result<(), String>>>,
    panics: Vec<String>,
}

struct Sched {
    st: Mutex<SchedState>,
    /// one per worker (a grant wakes exactly the named thread) …
    worker_cv: Vec<Condvar>,
    /// … and one for the controller
    ctl_cv: Condvar,
}

thread_local! {
    static SCHED_TID: std::cell::Cell<Option<usize>> = const { std::cell::Cell::new(None) };
}

const STEP_TIMEOUT: std::time::Duration = std::time::Duration::from_secs(3);

impl Sched {
    fn new(n: usize) -> Sched {
        Sched {
            st: Mutex::new(SchedState { granted: vec![false; n], pos: vec![Pos::Running; n], trace: Vec::new(), results: vec![Vec::new(); n], panics: Vec::new() }),
            worker_cv: (0..n).map(|_| Condvar::new()).collect(),
            ctl_cv: Condvar::new(),
        }
    }
    fn lock(&self) -> std::sync::MutexGuard<'_, SchedState> {
        self.st.lock().unwrap_or_else(|e| e.into_inner())
    }
    /// called on a worker thread at a hook point
    fn point(&self, tid: usize, name: &str, park: bool) {
        let mut st = self.lock();
        // "start" is reached by all threads concurrently (not scheduled): keep it out of the
        // trace so that the trace is a function of the schedule alone
        if name != "start" {
            st.trace.push((tid as u8, name.to_string()));
        }
        if !park {
            return;
        }
        st.pos[tid] = Pos::Parked;
        self.ctl_cv.notify_one();
        while !st.granted[tid] {
            st = self.worker_cv[tid].wait(st).unwrap_or_else(|e| e.into_inner());
        }
        st.granted[tid] = false;
        st.pos[tid] = Pos::Running;
    }
    fn done(&self, tid: usize) {
        let mut st = self.lock();
        st.pos[tid] = Pos::Done;
        self.ctl_cv.notify_one();
    }
    /// controller: release thread `t` for one step. false = nothing to release.
    fn step(&self, t: usize) -> bool {
        let mut st = self.lock();
        if st.pos[t] != Pos::Parked {
            return false;
        }
        st.granted[t] = true;
        self.worker_cv[t].notify_one();
        let deadline = std::time::Instant::now() + STEP_TIMEOUT;
        while st.granted[t] || st.pos[t] == Pos::Running {
            let now = std::time::Instant::now();
            if now >= deadline {
                // the thread is blocked on something another (parked) thread holds: leave it
                // running and schedule someone else. Every invariant of the property must
                // hold under any interleaving, so this costs reproducibility, never soundness.
                break;
            }
            st = self.ctl_cv.wait_timeout(st, deadline - now).unwrap_or_else(|e| e.into_inner()).0;
        }
        true
    }
    fn wait_all_parked_or_done(&self) -> bool {
        let mut st = self.lock();
        let deadline = std::time::Instant::now() + STEP_TIMEOUT * 3;
        while st.pos.iter().any(|p| *p == Pos::Running) {
            let now = std::time::Instant::now();
            if now >= deadline {
                return false;
            }
            st = self.ctl_cv.wait_timeout(st, deadline - now).unwrap_or_else(|e| e.into_inner()).0;
        }
        true
    }
}

type Job = Box<dyn FnOnce() + Send>;
/// persistent writer threads (thread i has scheduler index i for the whole run)
struct Pool {
    tx: Vec<std::sync::mpsc::Sender<Job>>,
}
impl Pool {
    fn new(n: usize) -> Pool {
        let mut tx = Vec::new();
        for i in 0..n {
            let (s, r) = std::sync::mpsc::channel::<Job>();
            std::thread::spawn(move || {
                SCHED_TID.with(|c| c.set(Some(i)));
                for job in r {
                    job();
                }
            });
            tx.push(s);
        }
        Pool { tx }
    }
}
thread_local! {
    static POOL: Pool = Pool::new(3);
    /// writers of the stress phase (they carry scheduler indexes too, but no hook callback is
    /// installed while they run)
    static STRESS_POOL: Pool = Pool::new(8);
}

/// None = no limit for that resource. The quota structs are built the way the tree's own
/// callers build them: `ResourceQuotas::unlimited()`, or a literal over the defaults.
fn c18_quotas(mn: Option<usize>, me: Option<usize>) -> ResourceQuotas {
    if mn.is_none() && me.is_none() {
        ResourceQuotas::unlimited()
    } else {
        ResourceQuotas { max_nodes: mn, max_edges: me, ..ResourceQuotas::default() }
    }
}

/// One RocksDB directory serving many schedules: every schedule gets a fresh tenant whose
/// name sorts after all earlier ones, so its scans cannot see older tenants' keys even
/// while tenant scans are unbounded above (C17).
struct Arena {
    dir: tempfile::TempDir,
    pm: Option<Arc<PersistenceManager>>,
    next: u64,
}

impl Arena {
    fn fresh() -> Result<Arena, String> {
        let dir = scratch_dir();
        let pm = catch(|| PersistenceManager::new(dir.path())).map_err(|p| format!("open panicked: {p}"))?.map_err(|e| format!("open refused: {e}"))?;
        Ok(Arena { dir, pm: Some(Arc::new(pm)), next: 0 })
    }
    fn pm(&self) -> Arc<PersistenceManager> {
        Arc::clone(self.pm.as_ref().unwrap())
    }
    fn new_tenant(&mut self, mn: Option<usize>, me: Option<usize>) -> Result<String, String> {
        self.next += 1;
        let name = format!("t{:09}", self.next);
        self.pm().tenants().create_tenant(name.clone(), name.clone(), Some(c18_quotas(mn, me))).map_err(|e| format!("create_tenant refused: {e}"))?;
        Ok(name)
    }
    fn reopen(&mut self) -> Result<(), String> {
        let old = self.pm.take().unwrap();
        match Arc::try_unwrap(old) {
            Ok(pm) => drop(pm),
            Err(_) => return Err("harness: manager still shared at reopen".into()),
        }
        let pm = catch(|| PersistenceManager::new(self.dir.path())).map_err(|p| format!("reopen panicked: {p}"))?.map_err(|e| format!("reopen refused: {e}"))?;
        self.pm = Some(Arc::new(pm));
        Ok(())
    }
}

/// what was read at a quiescent point (no writer running)
#[derive(Debug, Default, Clone)]
struct PhaseObs {
    /// per thread, per op
    results: Vec<Vec<Result<(), String>>>,
    /// recover(tenant) before the quota change: (returned counts, usage after it)
    rec_before: Option<((usize, usize), (usize, usize))>,
    /// usage right after update_quotas (None for the first phase)
    usage_after_update: Option<(usize, usize)>,
    /// after this phase's writers finished
    usage: (usize, usize),
    scan_nodes: BTreeSet<u64>,
    scan_edges: BTreeSet<u64>,
}

#[derive(Debug, Default)]
struct C18Obs {
    /// all phases' events, in order
    trace: Vec<(u8, String)>,
    panics: Vec<String>,
    phases: Vec<PhaseObs>,
    /// per final recover call: (returned counts, usage after)
    recs: Vec<((usize, usize), (usize, usize))>,
}

fn c18_ids(p: usize, t: usize, j: usize) -> u64 {
    (p * 64 + t * 4 + j + 1) as u64
}

type C18State = ((usize, usize), BTreeSet<u64>, BTreeSet<u64>);

fn c18_read(pm: &PersistenceManager, tenant: &str) -> Result<C18State, String> {
    let r = catch(|| -> Result<C18State, String> {
        let u = pm.tenants().get_usage(tenant).map_err(|e| format!("get_usage refused: {e}"))?;
        let ns = pm.storage().scan_nodes(tenant).map_err(|e| format!("scan_nodes refused: {e}"))?;
        let es = pm.storage().scan_edges(tenant).map_err(|e| format!("scan_edges refused: {e}"))?;
        Ok(((u.node_count, u.edge_count), ns.iter().map(|x| x.id.as_u64()).collect(), es.iter().map(|x| x.id.as_u64()).collect()))
    });
    r.map_err(|p| format!("reading usage/storage panicked: {p}"))?
}

/// recover(tenant): (returned counts, usage afterwards)
fn c18_recover(pm: &PersistenceManager, tenant: &str) -> Result<((usize, usize), (usize, usize)), String> {
    let (rn, re) = catch(|| pm.recover(tenant)).map_err(|p| format!("recover panicked: {p}"))?.map_err(|e| format!("recover refused: {e}"))?;
    let u = pm.tenants().get_usage(tenant).map_err(|e| format!("get_usage refused: {e}"))?;
    Ok(((rn.len(), re.len()), (u.node_count, u.edge_count)))
}

/// One phase's writers under the scheduler. Appends to `obs.trace` / `obs.panics`.
fn c18_run_writers(arena: &Arena, tenant: &str, phase: usize, threads: &[String], schedule: &[u8], obs: &mut C18Obs) -> Result<Vec<Vec<Result<(), String>>>, String> {
    let n = threads.len();
    if n > 3 || threads.iter().any(|t| t.len() > 4) {
        return Err("harness: at most 3 writer threads of at most 4 creations".into());
    }
    if n == 0 {
        return Ok(Vec::new());
    }
    let sched = Arc::new(Sched::new(n));
    {
        let s2 = Arc::clone(&sched);
        samyama::verif_hooks::install(Some(Arc::new(move |name: &'static str| {
            if let Some(tid) = SCHED_TID.with(|c| c.get()) {
                // after_usage is the last statement of an operation: nothing to interleave
                // between it and the return, so it is recorded without parking
                s2.point(tid, name, !name.ends_with(":after_usage"));
            }
        })));
    }
    for (tid, ops) in threads.iter().enumerate() {
        let sched = Arc::clone(&sched);
        let pm = arena.pm();
        let tenant = tenant.to_string();
        let ops: Vec<char> = ops.chars().collect();
        let job: Job = Box::new(move || {
            sched.point(tid, "start", true);
            for (j, kind) in ops.iter().enumerate() {
                let id = c18_ids(phase, tid, j);
                let r = catch(|| {
                    if *kind == 'n' {
                        pm.persist_create_node(&tenant, &Node::new(NodeId::new(id), Label::new("Q"))).map_err(|e| e.to_string())
                    } else {
                        pm.persist_create_edge(&tenant, &Edge::new(EdgeId::new(id), NodeId::new(1), NodeId::new(1), EdgeType::new("R"))).map_err(|e| e.to_string())
                    }
                });
                let mut st = sched.lock();
                match r {
                    Ok(Ok(())) => {
                        st.trace.push((tid as u8, "result:ok".into()));
                        st.results[tid].push(Ok(()));
                    }
                    Ok(Err(e)) => {
                        st.trace.push((tid as u8, "result:refused".into()));
                        st.results[tid].push(Err(e));
                    }
                    Err(p) => {
                        st.trace.push((tid as u8, "result:panic".into()));
                        st.results[tid].push(Err(format!("panic: {p}")));
                        st.panics.push(p);
                    }
                }
            }
            drop(pm);
            drop(tenant);
            sched.done(tid);
        });
        POOL.with(|p| p.tx[tid].send(job).expect("worker thread alive"));
    }
    if !sched.wait_all_parked_or_done() {
        eprintln!("INCONCLUSIVE: C18 worker threads did not reach their start point");
        std::process::exit(2);
    }
    for t in schedule {
        if (*t as usize) < n {
            sched.step(*t as usize);
        }
    }
    // run the rest to completion in index order
    let mut idle_rounds = 0;
    loop {
        let done = sched.lock().pos.iter().all(|p| *p == Pos::Done);
        if done {
            break;
        }
        let mut progressed = false;
        for t in 0..n {
            while sched.step(t) {
                progressed = true;
                if sched.lock().pos[t] == Pos::Running {
                    break; // stalled: give the others a turn
                }
            }
        }
        if !progressed {
            idle_rounds += 1;
            if idle_rounds > 5 {
                eprintln!("INCONCLUSIVE: C18 writers deadlocked under schedule {:?}", schedule);
                std::process::exit(2);
            }
            sched.wait_all_parked_or_done();
        } else {
            idle_rounds = 0;
        }
    }
    samyama::verif_hooks::install(None);
    let mut st = sched.lock();
    obs.trace.append(&mut st.trace);
    obs.panics.append(&mut st.panics);
    Ok(std::mem::take(&mut st.results))
}

fn c18_exec(arena: &mut Arena, case: &C18Case) -> Result<C18Obs, String> {
    let views = case.views();
    let tenant = arena.new_tenant(case.max_nodes, case.max_edges)?;
    let mut obs = C18Obs::default();
    let mut in_force = (case.max_nodes, case.max_edges);
    for (p, ph) in views.iter().enumerate() {
        let mut po = PhaseObs::default();
        if p > 0 {
            if ph.reopen_before {
                arena.reopen()?;
                arena.pm().tenants().create_tenant(tenant.clone(), tenant.clone(), Some(c18_quotas(in_force.0, in_force.1))).map_err(|e| format!("create_tenant after reopen refused: {e}"))?;
            }
            if ph.reopen_before || ph.recover_before {
                po.rec_before = Some(c18_recover(&arena.pm(), &tenant)?);
            }
            let pm = arena.pm();
            catch(|| pm.tenants().update_quotas(&tenant, c18_quotas(ph.max_nodes, ph.max_edges))).map_err(|p| format!("update_quotas panicked: {p}"))?.map_err(|e| format!("update_quotas refused: {e}"))?;
            in_force = (ph.max_nodes, ph.max_edges);
            let u = pm.tenants().get_usage(&tenant).map_err(|e| format!("get_usage refused: {e}"))?;
            po.usage_after_update = Some((u.node_count, u.edge_count));
        }
        po.results = c18_run_writers(arena, &tenant, p, ph.threads, ph.schedule, &mut obs)?;
        let (u, sn, se) = c18_read(&arena.pm(), &tenant)?;
        po.usage = u;
        po.scan_nodes = sn;
        po.scan_edges = se;
        obs.phases.push(po);
    }
    if case.reopen {
        arena.reopen()?;
        arena.pm().tenants().create_tenant(tenant.clone(), tenant.clone(), Some(c18_quotas(in_force.0, in_force.1))).map_err(|e| format!("create_tenant after reopen refused: {e}"))?;
    }
    let pm = arena.pm();
    for _ in 0..case.recovers {
        // nothing writes between the recover calls: storage still holds what was scanned last
        obs.recs.push(c18_recover(&pm, &tenant)?);
    }
    Ok(obs)
}

struct C18Judged {
    /// (kind, message) of every invariant that failed
    failures: Vec<(&'static str, String)>,
    /// two threads were between quota check and usage increment at the same time
    overlap: bool,
    accepted: (usize, usize),
    refused: usize,
    /// creations refused after a quota change
    refused_later: usize,
    /// creations accepted on a resource that had no limit at that time
    accepted_unlimited: usize,
    /// some quota change put a limit below what was already persisted
    lowered_below_persisted: bool,
}

/// The oracle. Every phase ends at a quiescent point where usage and storage are read;
/// `persisted` (what storage held at the previous quiescent point) is the base the quota in
/// force is measured against: with a limit of q on a resource a phase may accept at most
/// q - persisted (not below 0) creations of it.
fn c18_judge(case: &C18Case, obs: &C18Obs) -> C18Judged {
    let mut failures: Vec<(&'static str, String)> = Vec::new();
    for p in &obs.panics {
        failures.push(("panic", format!("a creation panicked: {p}")));
    }
    let views = case.views();
    let many = views.len() > 1;
    let mut acc_n = BTreeSet::new();
    let mut acc_e = BTreeSet::new();
    let (mut refused, mut refused_later, mut accepted_unlimited) = (0usize, 0usize, 0usize);
    let mut lowered_below_persisted = false;
    let mut persisted = (0usize, 0usize);
    for (p, ph) in views.iter().enumerate() {
        let Some(po) = obs.phases.get(p) else {
            failures.push(("harness", format!("phase {p} was not observed")));
            break;
        };
        let at = if many { format!(" in phase {p} (quota nodes/relationships {}/{})", quota_text(ph.max_nodes), quota_text(ph.max_edges)) } else { String::new() };
        if let Some((ret, usage)) = &po.rec_before {
            let how = if ph.reopen_before { "on a reopened manager" } else { "on the same manager" };
            if *ret != persisted {
                failures.push(("recover_mismatch", format!("recover {how} before phase {p} returned {ret:?} entities but storage holds {persisted:?}")));
            }
            if *usage != persisted {
                failures.push(("usage_after_recover", format!("after recover {how} before phase {p} usage (nodes, relationships) = {usage:?} but storage holds {persisted:?}")));
            }
        }
        if let Some(u) = po.usage_after_update {
            if u != persisted {
                failures.push(("usage_mismatch", format!("after update_quotas to nodes/relationships {}/{} usage (nodes, relationships) = {u:?} but storage holds {persisted:?}", quota_text(ph.max_nodes), quota_text(ph.max_edges))));
            }
            if ph.max_nodes.map(|q| q < persisted.0).unwrap_or(false) || ph.max_edges.map(|q| q < persisted.1).unwrap_or(false) {
                lowered_below_persisted = true;
            }
        }
        let (mut new_n, mut new_e) = (0usize, 0usize);
        for (t, ops) in ph.threads.iter().enumerate() {
            for (j, kind) in ops.chars().enumerate() {
                match po.results.get(t).and_then(|r| r.get(j)) {
                    Some(Ok(())) => {
                        if kind == 'n' {
                            acc_n.insert(c18_ids(p, t, j));
                            new_n += 1;
                            if ph.max_nodes.is_none() {
                                accepted_unlimited += 1;
                            }
                        } else {
                            acc_e.insert(c18_ids(p, t, j));
                            new_e += 1;
                            if ph.max_edges.is_none() {
                                accepted_unlimited += 1;
                            }
                        }
                    }
                    Some(Err(_)) => {
                        refused += 1;
                        if p > 0 {
                            refused_later += 1;
                        }
                    }
                    None => failures.push(("harness", format!("phase {p} thread {t} op {j} has no result"))),
                }
            }
        }
        for (what, new, quota, had) in [("node", new_n, ph.max_nodes, persisted.0), ("relationship", new_e, ph.max_edges, persisted.1)] {
            if let Some(q) = quota {
                if new > q.saturating_sub(had) {
                    let base = if had > 0 { format!(" while {had} were already persisted") } else { String::new() };
                    failures.push(("over_quota", format!("{new} {what} creations were accepted{base} against a quota of {q} {what}s{at}")));
                }
            }
        }
        let left_n: Vec<u64> = po.scan_nodes.difference(&acc_n).cloned().collect();
        let left_e: Vec<u64> = po.scan_edges.difference(&acc_e).cloned().collect();
        if !left_n.is_empty() || !left_e.is_empty() {
            failures.push(("refused_left_data", format!("refused creations left entities behind{at}: nodes {left_n:?} relationships {left_e:?}")));
        }
        let miss_n: Vec<u64> = acc_n.difference(&po.scan_nodes).cloned().collect();
        let miss_e: Vec<u64> = acc_e.difference(&po.scan_edges).cloned().collect();
        if !miss_n.is_empty() || !miss_e.is_empty() {
            failures.push(("accepted_missing", format!("accepted creations are not in storage{at}: nodes {miss_n:?} relationships {miss_e:?}")));
        }
        let scan = (po.scan_nodes.len(), po.scan_edges.len());
        if po.usage != scan {
            failures.push(("usage_mismatch", format!("after the writers finished{at} usage (nodes, relationships) = {:?} but storage holds {:?}", po.usage, scan)));
        }
        persisted = scan;
    }
    for (i, (ret, usage)) in obs.recs.iter().enumerate() {
        if *ret != persisted {
            failures.push(("recover_mismatch", format!("recover call {} returned {:?} entities but storage holds {:?}", i + 1, ret, persisted)));
        }
        if *usage != persisted {
            failures.push(("usage_after_recover", format!("after recover call {}{} usage (nodes, relationships) = {:?} but storage holds {:?}", i + 1, if case.reopen { " on a reopened manager" } else { " on the same manager" }, usage, persisted)));
        }
    }
    // overlap: a thread is "inside" from after_quota_check until after_usage / its result
    // (all of a phase's threads have reported their results before the next phase starts)
    let width = views.iter().map(|v| v.threads.len()).max().unwrap_or(0);
    let mut inside = vec![false; width];
    let mut overlap = false;
    for (t, ev) in &obs.trace {
        let t = *t as usize;
        if t >= width {
            continue;
        }
        if ev.ends_with(":after_quota_check") {
            inside[t] = true;
        } else if ev.ends_with(":after_usage") || ev.starts_with("result:") {
            inside[t] = false;
        }
        if inside.iter().filter(|x| **x).count() >= 2 {
            overlap = true;
        }
    }
    C18Judged { failures, overlap, accepted: (acc_n.len(), acc_e.len()), refused, refused_later, accepted_unlimited, lowered_below_persisted }
}

enum C18Verdict {
    Held,
    Fail(String),
}

fn c18_check(arena: &mut Arena, case: &C18Case) -> (C18Verdict, Option<(C18Judged, C18Obs)>) {
    let obs = match c18_exec(arena, case) {
        Ok(o) => o,
        Err(m) => return (C18Verdict::Fail(m), None),
    };
    let j = c18_judge(case, &obs);
    if j.failures.is_empty() {
        return (C18Verdict::Held, Some((j, obs)));
    }
    let msgs: Vec<String> = j.failures.iter().map(|f| f.1.clone()).collect();
    let trace: Vec<String> = obs.trace.iter().map(|(t, e)| format!("T{t}:{}", e.rsplit(':').next().unwrap_or(e))).collect();
    (C18Verdict::Fail(format!("{} ; interleaving: {}", msgs.join(" ; "), trace.join(" "))), Some((j, obs)))
}

// ---------------------------------------------------------------------------------------
// C18 stress phase: real concurrency. The hook-point scheduler can only interleave at hook
// points; a check-then-count race *inside* one call (no hook between the two) shows only
// when OS threads really run at the same time. This phase samples OS schedules: its verdict
// is one-sided (a violation seen is definite; a clean run proves nothing about unseen
// schedules) and what each thread observes may differ between runs.

#[derive(Clone, Debug, Serialize, Deserialize, PartialEq, Eq, Hash)]
struct StressCfg {
    /// one string per concurrent writer: its creations, 'n' = node, 'e' = relationship
    threads: Vec<String>,
    /// creations performed sequentially before the writers start (brings the tenant close
    /// to its quota)
    prefill: String,
    /// quotas in force while the writers race; null = no limit
    max_nodes: Option<usize>,
    max_edges: Option<usize>,
    /// when present: the tenant is created with these quotas, the prefill runs under them and
    /// update_quotas(max_nodes, max_edges) is called before the writers start
    #[serde(default, skip_serializing_if = "Option::is_none")]
    start: Option<(Option<usize>, Option<usize>)>,
}

/// deterministic round-robin over thread counts 2..=8, op patterns, quotas 1..=2, prefill;
/// every fourth block of 112 rounds uses tenants without a limit (both resources / one of
/// them), every other fourth a quota change between prefill and race
fn stress_cfg(r: u64) -> StressCfg {
    let n = 2 + (r % 7) as usize;
    let pattern = (r / 7) % 4;
    let q = 1 + ((r / 28) % 2) as usize;
    let variant = (r / 112) % 4;
    let sub = (r / 448) % 3;
    let threads: Vec<String> = (0..n)
        .map(|t| match pattern {
            0 => "n".to_string(),
            1 => "e".to_string(),
            2 => if t % 2 == 0 { "n".to_string() } else { "e".to_string() },
            _ => if t % 2 == 0 { "ne".to_string() } else { "en".to_string() },
        })
        .collect();
    let fill = |pre: usize| match pattern {
        0 => "n".repeat(pre),
        1 => "e".repeat(pre),
        _ => format!("{}{}", "n".repeat(pre.min(2)), "e".repeat(pre.min(2))),
    };
    let pre = ((r / 56) % q as u64) as usize;
    match variant {
        2 => {
            let (mn, me) = match sub {
                0 => (None, None),
                1 => (None, Some(q)),
                _ => (Some(q), None),
            };
            StressCfg { threads, prefill: fill(pre), max_nodes: mn, max_edges: me, start: None }
        }
        3 => {
            // prefill up to one above the quota that will be in force during the race
            let pre = ((r / 56) % (q as u64 + 2)) as usize;
            let (start, now) = match sub {
                0 => ((None, None), (Some(q), Some(q))),
                1 => ((Some(q + 1), Some(q + 1)), (Some(q), Some(q))),
                _ => ((Some(q), Some(q)), (None, None)),
            };
            StressCfg { threads, prefill: fill(pre), max_nodes: now.0, max_edges: now.1, start: Some(start) }
        }
        _ => StressCfg { threads, prefill: fill(pre), max_nodes: Some(q), max_edges: Some(q), start: None },
    }
}

fn stress_create(pm: &PersistenceManager, tenant: &str, kind: char, id: u64) -> Result<(), String> {
    match catch(|| {
        if kind == 'n' {
            pm.persist_create_node(tenant, &Node::new(NodeId::new(id), Label::new("Q"))).map_err(|e| e.to_string())
        } else {
            pm.persist_create_edge(tenant, &Edge::new(EdgeId::new(id), NodeId::new(1), NodeId::new(1), EdgeType::new("R"))).map_err(|e| e.to_string())
        }
    }) {
        Ok(r) => r,
        Err(p) => Err(format!("panic: {p}")),
    }
}

/// One round on a fresh tenant. Ok((refused, failures)): failures empty = the oracle held.
fn c18_stress_round(arena: &mut Arena, cfg: &StressCfg) -> Result<(usize, Vec<String>), String> {
    let n = cfg.threads.len();
    if n > 8 || cfg.threads.iter().any(|t| t.len() > 4) || cfg.prefill.len() > 4 {
        return Err("harness: stress configuration out of range (<= 8 threads, <= 4 ops each)".into());
    }
    let first = cfg.start.unwrap_or((cfg.max_nodes, cfg.max_edges));
    let tenant = arena.new_tenant(first.0, first.1)?;
    let pm = arena.pm();
    // Bookkeeping for the oracle. Without a quota change the prefill acts as one more
    // (sequential) writer, index n, of the only phase; with one, the prefill is the first
    // phase and the racing writers are the second.
    let race_phase = usize::from(cfg.start.is_some());
    let mut obs = C18Obs::default();
    let mut prefill_results = Vec::new();
    for (j, kind) in cfg.prefill.chars().enumerate() {
        let id = if race_phase == 1 { c18_ids(0, 0, j) } else { c18_ids(0, n, j) };
        prefill_results.push(stress_create(&pm, &tenant, kind, id));
    }
    let mut case = C18Case::single(cfg.threads.clone(), cfg.max_nodes, cfg.max_edges, Vec::new(), 2, false);
    let mut race = PhaseObs::default();
    if race_phase == 1 {
        case = C18Case::single(vec![cfg.prefill.clone()], first.0, first.1, Vec::new(), 2, false);
        case.phases.push(C18Phase { max_nodes: cfg.max_nodes, max_edges: cfg.max_edges, threads: cfg.threads.clone(), schedule: Vec::new(), recover_before: false, reopen_before: false });
        let (u, sn, se) = c18_read(&pm, &tenant)?;
        obs.phases.push(PhaseObs { results: vec![prefill_results.clone()], rec_before: None, usage_after_update: None, usage: u, scan_nodes: sn, scan_edges: se });
        pm.tenants().update_quotas(&tenant, c18_quotas(cfg.max_nodes, cfg.max_edges)).map_err(|e| format!("update_quotas refused: {e}"))?;
        let u = pm.tenants().get_usage(&tenant).map_err(|e| format!("get_usage refused: {e}"))?;
        race.usage_after_update = Some((u.node_count, u.edge_count));
    }
    // persistent writer threads (no spawn per round); each gets its job over a channel and then
    // waits in a spin barrier so that all writers enter the call within nanoseconds of each other
    let arrived = Arc::new(AtomicUsize::new(0));
    let (rtx, rrx) = std::sync::mpsc::channel::<(usize, Vec<Result<(), String>>)>();
    for (t, ops) in cfg.threads.iter().enumerate() {
        let pm = Arc::clone(&pm);
        let tenant = tenant.clone();
        let arrived = Arc::clone(&arrived);
        let rtx = rtx.clone();
        let ops: Vec<char> = ops.chars().collect();
        let job: Job = Box::new(move || {
            arrived.fetch_add(1, Ordering::SeqCst);
            let mut spins = 0u32;
            while arrived.load(Ordering::SeqCst) < n {
                spins += 1;
                if spins % 4096 == 0 {
                    std::thread::yield_now();
                } else {
                    std::hint::spin_loop();
                }
            }
            let res: Vec<Result<(), String>> = ops.iter().enumerate().map(|(j, kind)| stress_create(&pm, &tenant, *kind, c18_ids(race_phase, t, j))).collect();
            drop(pm);
            let _ = rtx.send((t, res));
        });
        STRESS_POOL.with(|p| p.tx[t].send(job).expect("stress worker alive"));
    }
    drop(rtx);
    let mut results: Vec<Vec<Result<(), String>>> = vec![Vec::new(); n];
    for _ in 0..n {
        match rrx.recv_timeout(std::time::Duration::from_secs(60)) {
            Ok((t, res)) => results[t] = res,
            Err(_) => {
                eprintln!("INCONCLUSIVE: a stress writer did not finish within 60 s");
                std::process::exit(2);
            }
        }
    }
    race.results = results;
    if race_phase == 0 && !cfg.prefill.is_empty() {
        case.threads.push(cfg.prefill.clone());
        race.results.push(prefill_results);
    }
    let (u, sn, se) = c18_read(&pm, &tenant)?;
    race.usage = u;
    race.scan_nodes = sn;
    race.scan_edges = se;
    obs.phases.push(race);
    for r in obs.phases.iter().flat_map(|p| p.results.iter().flatten()) {
        if let Err(m) = r {
            if m.starts_with("panic: ") {
                obs.panics.push(m.clone());
            }
        }
    }
    for _ in 0..case.recovers {
        obs.recs.push(c18_recover(&pm, &tenant)?);
    }
    let j = c18_judge(&case, &obs);
    Ok((j.refused, j.failures.into_iter().map(|f| f.1).collect()))
}

/// run `rounds` rounds of one configuration (replay) — Some(message) on the first violation
fn c18_stress_replay(cfg: &StressCfg, rounds: u64) -> Result<Option<String>, String> {
    let mut arena = Arena::fresh()?;
    for r in 0..rounds {
        if r > 0 && r % 4000 == 0 {
            arena = Arena::fresh()?;
        }
        let (_, failures) = c18_stress_round(&mut arena, cfg)?;
        if !failures.is_empty() {
            return Ok(Some(format!("stress round {r}: {}", failures.join(" ; "))));
        }
    }
    Ok(None)
}

/// every distinct ordering of a multiset: `counts[t]` entries of thread t
fn interleavings(counts: &mut Vec<usize>, cur: &mut Vec<u8>, f: &mut dyn FnMut(&[u8]) -> bool) -> bool {
    if counts.iter().all(|c| *c == 0) {
        return f(cur);
    }
    for t in 0..counts.len() {
        if counts[t] > 0 {
            counts[t] -= 1;
            cur.push(t as u8);
            let go = interleavings(counts, cur, f);
            cur.pop();
            counts[t] += 1;
            if !go {
                return false;
            }
        }
    }
    true
}

/// blocking steps per creation (start→check, →wal, →storage, →usage+return)
const STEPS_PER_OP: usize = 4;

fn c18(args: &Args) {
    let mut ev = Evidence::new(
        args,
        "exploration",
        "deterministic scheduler: 2-3 real writer threads each doing 1-2 persist_create_node|edge against a tenant with quota 1-2 or WITHOUT a limit (both resources, or one of them with a limit on the other), parked on a condvar at every hook point (after quota check / WAL append / storage write; after_usage is the operation's last statement and does not park), released one step at a time by a schedule = Vec<thread index> (4 steps per creation). ALL interleavings of 2 threads x 1 op (70 each), 2x2 (12870 each) and 3x1 (34650 each) for the configurations listed under exhaustive_bound (the other 3x1 configurations sampled in the quick tier), a seeded sample of 3x2. Histories with quota changes: a case may continue with further phases, each = [recover(tenant) on the same manager | close, reopen, re-register, recover] then TenantManager::update_quotas (unlimited -> N, N -> M up or down, also below what is persisted, N -> unlimited, a limit moving from one resource to the other) then more writers under the scheduler; ALL 70 interleavings of the second phase for the transitions listed under exhaustive_bound.quota_change (with and without a recover in between) and a seeded sample of 2-3 phase histories with random quotas 0-3/unlimited, 1-3 threads x 1-2 creations per phase and random schedules. At the end recover(tenant) up to three times on the same manager (usage checked after each), plus reopen-then-recover cases on a fresh manager. Oracle, evaluated at every quiescent point (after each phase's writers, after each update_quotas, after each recover): per resource the creations accepted in a phase <= quota in force - entities persisted when the phase began (not below 0; no bound without a limit); refused creations leave nothing in scan_nodes/scan_edges and accepted ones are there; usage counters == entities in storage; recover returns what storage holds. Then a stress phase: rounds of 2..8 real threads (1-2 creations each, nodes/relationships/mixed, quota 1-2 or none, tenant optionally pre-filled, optionally with update_quotas between prefill and race) released together without the scheduler, same oracle. Non-trivial = two threads were between quota check and usage increment at the same time, or a creation was accepted on a resource without a limit, or the history has a quota change (scheduler part); more creations attempted than the quota leaves room for, or two or more writers racing on a resource without a limit (stress part); distinct = distinct (configuration, observed event trace) resp. distinct stress configurations.",
    );
    ev.assume("each schedule runs on a fresh tenant of a shared RocksDB directory; tenant names increase so a tenant's prefix scan cannot reach older tenants' keys");
    ev.assume("a writer that does not reach its next hook within 3 s is treated as blocked on a lock and another thread is scheduled (never happens on the pinned tree)");
    ev.assume("quota changes happen at quiescent points (no creation in flight while update_quotas runs): 'the quota in force at the time of acceptance' is then unambiguous; the tree has no caller of update_quotas outside its unit tests, which replace the whole ResourceQuotas value, as the check does");
    ev.assume("the final stress phase (classes stress_*: 2..8 real threads released together from a spin barrier, no scheduler, same oracle) samples OS schedules: it is nondeterministic by nature, a violation it reports is definite, a clean run says nothing about schedules not sampled, and refusal counts of that phase may vary between runs; it reaches races that have no hook point between their two halves");

    let run_single = |case: &C18Case| -> C18Verdict {
        match Arena::fresh() {
            Ok(mut a) => c18_check(&mut a, case).0,
            Err(m) => C18Verdict::Fail(m),
        }
    };

    if let Some(p) = &args.replay {
        let raw = load_replay(p);
        if raw.get("stress").is_some() {
            // a stress case names a configuration; the OS schedule cannot be replayed, so the
            // configuration is re-run for the recorded number of rounds
            let cfg: StressCfg = serde_json::from_value(raw["stress"].clone()).expect("stress replay case");
            let rounds = raw["rounds"].as_u64().unwrap_or(5000);
            ev.cases(rounds);
            match c18_stress_replay(&cfg, rounds) {
                Ok(None) => println!("replay: property held in {rounds} rounds (a stress replay samples OS schedules)"),
                Ok(Some(m)) | Err(m) => {
                    report_violation(&mut ev, &raw, &m);
                }
            }
            ev.nontrivial(&cfg);
            ev.nontrivial(&"replay");
            ev.sample(raw.clone());
            finish(&ev);
        }
        let case: C18Case = serde_json::from_value(raw).expect("replay case");
        ev.case();
        match run_single(&case) {
            C18Verdict::Held => println!("replay: property held"),
            C18Verdict::Fail(m) => {
                report_violation(&mut ev, &json!(case), &m);
            }
        }
        ev.nontrivial(&case);
        ev.nontrivial(&"replay");
        ev.sample(json!(case));
        finish(&ev);
    }

    let mut failure: Option<(C18Case, String)> = None;
    let mut arena = match Arena::fresh() {
        Ok(a) => a,
        Err(m) => {
            eprintln!("INCONCLUSIVE: cannot open a scratch store: {m}");
            std::process::exit(2)
        }
    };
    let mut since_fresh = 0u32;
    let mut phased_samples = 0u32;
    let mut judge = |ev: &mut Evidence, case: &C18Case, class: &str| -> Result<(), String> {
        // bound the size of one RocksDB directory / WAL
        since_fresh += 1;
        if since_fresh > 5000 || case.reopens() {
            arena = Arena::fresh()?;
            since_fresh = if case.reopens() { 5001 } else { 0 };
        }
        ev.case();
        ev.class(class);
        // shapes of the history
        match (case.max_nodes, case.max_edges) {
            (None, None) => {
                ev.class("tenant_unlimited_quota");
                ev.class("tenant_unlimited_both_resources");
            }
            (None, Some(_)) | (Some(_), None) => {
                ev.class("tenant_unlimited_quota");
                ev.class("tenant_limit_on_one_resource_only");
            }
            _ => {}
        }
        if !case.phases.is_empty() {
            ev.class("quota_changed_mid_history");
            let mut prev = (case.max_nodes, case.max_edges);
            for ph in &case.phases {
                for (a, b) in [(prev.0, ph.max_nodes), (prev.1, ph.max_edges)] {
                    match (a, b) {
                        (None, Some(_)) => ev.class("quota_unlimited_to_limit"),
                        (Some(_), None) => ev.class("quota_limit_to_unlimited"),
                        (Some(x), Some(y)) if y > x => ev.class("quota_raised"),
                        (Some(x), Some(y)) if y < x => ev.class("quota_lowered"),
                        _ => {}
                    }
                }
                if ph.recover_before {
                    ev.class("recover_mid_history");
                }
                if ph.reopen_before {
                    ev.class("reopen_mid_history");
                }
                prev = (ph.max_nodes, ph.max_edges);
            }
        }
        let (verdict, info) = c18_check(&mut arena, case);
        if let Some((j, obs)) = &info {
            if j.overlap {
                ev.class("overlap_between_check_and_increment");
            }
            if j.accepted_unlimited > 0 {
                ev.class("accepted_without_limit");
            }
            if j.lowered_below_persisted {
                ev.class("quota_lowered_below_persisted");
            }
            if j.refused_later > 0 {
                ev.class("refused_after_quota_change");
            }
            if j.overlap || j.accepted_unlimited > 0 || !case.phases.is_empty() {
                ev.nontrivial(&(case.without_schedules(), &obs.trace));
                if ev.want_sample() && j.refused > 0 && j.overlap && case.phases.is_empty() && ev.samples.len() < 3 {
                    ev.sample(json!({"case": case, "accepted_nodes_rels": [j.accepted.0, j.accepted.1], "refused": j.refused}));
                }
                if ev.want_sample() && !case.phases.is_empty() && j.refused_later > 0 && phased_samples < 3 {
                    phased_samples += 1;
                    ev.sample(json!({"case": case, "accepted_nodes_rels": [j.accepted.0, j.accepted.1], "refused": j.refused}));
                }
            }
            for _ in 0..j.refused {
                ev.refusal();
            }
            if j.refused > 0 {
                ev.class("some_creation_refused");
            }
        }
        match verdict {
            C18Verdict::Held => Ok(()),
            C18Verdict::Fail(m) => {
                ev.frozen = true;
                Err(m)
            }
        }
    };

    // regression corpus first
    for (p, v) in corpus_cases("C18") {
        let case: C18Case = serde_json::from_value(v).expect("corpus case");
        if let Err(m) = judge(&mut ev, &case, "corpus") {
            failure = Some((case, format!("{m} (corpus {})", p.display())));
            break;
        }
    }

    // exhaustive configurations: (threads, node quota, relationship quota)
    type Cfg = (Vec<String>, Option<usize>, Option<usize>);
    let cfgq = |t: &[&str], qn: Option<usize>, qe: Option<usize>| -> Cfg { (t.iter().map(|s| s.to_string()).collect::<Vec<String>>(), qn, qe) };
    let cfg = |t: &[&str], q: usize| cfgq(t, Some(q), Some(q));
    let mut configs: Vec<Cfg> = vec![
        cfg(&["n", "n"], 1),
        cfg(&["n", "n"], 2),
        cfg(&["e", "e"], 1),
        cfg(&["e", "e"], 2),
        cfg(&["n", "e"], 1),
        // no limit at all / a limit on the other resource only / on this resource only
        cfgq(&["n", "n"], None, None),
        cfgq(&["e", "e"], None, None),
        cfgq(&["n", "e"], None, None),
        cfgq(&["n", "n"], None, Some(1)),
        cfgq(&["e", "e"], Some(1), None),
        cfgq(&["n", "e"], None, Some(1)),
        cfgq(&["n", "e"], Some(1), None),
        cfgq(&["n", "n"], Some(1), None),
        cfg(&["nn", "nn"], 1),
        cfg(&["ne", "en"], 1),
        cfg(&["n", "n", "n"], 1),
    ];
    if args.tier == Tier::Thorough {
        configs.extend(vec![
            cfg(&["nn", "nn"], 2),
            cfg(&["ee", "ee"], 1),
            cfg(&["ee", "ee"], 2),
            cfg(&["nn", "ee"], 1),
            cfg(&["ne", "ne"], 2),
            cfgq(&["ne", "en"], None, Some(1)),
            cfgq(&["ne", "en"], Some(1), None),
            cfgq(&["nn", "ee"], None, None),
            cfgq(&["nn", "nn"], None, Some(1)),
            cfg(&["n", "n", "n"], 2),
            cfg(&["e", "e", "e"], 1),
            cfg(&["e", "e", "e"], 2),
            cfg(&["n", "e", "n"], 1),
            cfgq(&["n", "e", "n"], None, Some(1)),
            cfgq(&["n", "n", "n"], None, None),
        ]);
    }
    let quota_key = |qn: Option<usize>, qe: Option<usize>| match (qn, qe) {
        (Some(a), Some(b)) if a == b => format!("{a}"),
        _ => format!("nodes:{},relationships:{}", quota_text(qn), quota_text(qe)),
    };
    let mut enumerated = serde_json::Map::new();
    for (threads, qn, qe) in &configs {
        if failure.is_some() {
            break;
        }
        let mut counts: Vec<usize> = threads.iter().map(|s| s.len() * STEPS_PER_OP).collect();
        let class = format!("all_{}x{}", threads.len(), threads[0].len());
        let mut n = 0u64;
        interleavings(&mut counts, &mut Vec::new(), &mut |sched: &[u8]| {
            let case = C18Case::single(threads.clone(), *qn, *qe, sched.to_vec(), 3, false);
            n += 1;
            match judge(&mut ev, &case, &class) {
                Ok(()) => true,
                Err(m) => {
                    failure = Some((case, m));
                    false
                }
            }
        });
        enumerated.insert(format!("{}|quota={}", threads.join(","), quota_key(*qn, *qe)), json!(n));
    }

    // quota changes: first phase sequential (threads in index order), update_quotas, then ALL
    // interleavings of the second phase's two writers; each with and without a recover between
    let u: Option<usize> = None;
    let transitions: Vec<((Option<usize>, Option<usize>), (Option<usize>, Option<usize>))> = vec![
        ((u, u), (Some(1), Some(1))),
        ((u, u), (Some(2), Some(2))),
        ((u, u), (Some(3), Some(3))),
        ((u, u), (u, u)),
        ((Some(1), Some(1)), (Some(2), Some(2))),
        ((Some(2), Some(2)), (Some(3), Some(3))),
        ((Some(2), Some(2)), (Some(1), Some(1))),
        ((Some(1), Some(1)), (u, u)),
        ((u, Some(1)), (Some(1), u)),
        ((Some(1), u), (u, Some(1))),
        ((u, Some(1)), (Some(2), Some(1))),
    ];
    let shapes: Vec<(&str, [&str; 2])> = vec![("nn", ["n", "n"]), ("ee", ["e", "e"]), ("ne", ["n", "e"]), ("nne", ["n", "n"])];
    let mut enumerated_qc = serde_json::Map::new();
    'qc: for (from, to) in &transitions {
        for (first, second) in &shapes {
            for recover_before in [false, true] {
                if failure.is_some() {
                    break 'qc;
                }
                let mut counts = vec![STEPS_PER_OP; 2];
                let mut n = 0u64;
                interleavings(&mut counts, &mut Vec::new(), &mut |sched: &[u8]| {
                    let mut case = C18Case::single(vec![first.to_string()], from.0, from.1, Vec::new(), 2, false);
                    case.phases.push(C18Phase { max_nodes: to.0, max_edges: to.1, threads: second.iter().map(|s| s.to_string()).collect(), schedule: sched.to_vec(), recover_before, reopen_before: false });
                    n += 1;
                    match judge(&mut ev, &case, "all_quota_change_then_2x1") {
                        Ok(()) => true,
                        Err(m) => {
                            failure = Some((case, m));
                            false
                        }
                    }
                });
                let key = format!("{first} then {}|quota {} -> {}", second.join(","), quota_key(from.0, from.1), quota_key(to.0, to.1));
                let e = enumerated_qc.entry(key).or_insert(json!(0));
                *e = json!(e.as_u64().unwrap_or(0) + n);
            }
        }
    }
    ev.exhaustive = Some(failure.is_none());
    ev.set("exhaustive_bound", json!({"interleavings_enumerated_per_configuration": enumerated, "quota_change": {"second_phase_interleavings_enumerated_per_configuration (with + without recover in between)": enumerated_qc, "first_phase": "one sequential writer"}, "steps_per_creation": STEPS_PER_OP, "recover_calls_checked": [1, 2, 3]}));

    // reopen-then-recover on a fresh manager: a few schedules of every small configuration
    if failure.is_none() {
        'r: for (threads, qn, qe) in configs.iter().filter(|c| c.0.iter().map(|s| s.len()).sum::<usize>() <= 3) {
            let total: usize = threads.iter().map(|s| s.len() * STEPS_PER_OP).sum();
            let n = threads.len();
            let variants: Vec<Vec<u8>> = vec![
                Vec::new(),
                (0..total).map(|i| (i % n) as u8).collect(),
                (0..total).map(|i| ((total - 1 - i) % n) as u8).collect(),
            ];
            for schedule in variants.into_iter().take(args.tier.pick(2, 3)) {
                let case = C18Case::single(threads.clone(), *qn, *qe, schedule, 3, true);
                if let Err(m) = judge(&mut ev, &case, "reopen_then_recover") {
                    failure = Some((case, m));
                    break 'r;
                }
            }
        }
    }

    // seeded samples of the larger spaces: the 3 threads x 1 creation configurations that the
    // quick tier does not enumerate above (the thorough tier enumerates them all) and
    // 3 threads x 2 creations
    let mut samples: Vec<(&str, usize, u32, Vec<[&str; 3]>)> = Vec::new();
    if args.tier == Tier::Quick {
        samples.push(("sample_3x1", 1, 2000, vec![["n", "n", "n"], ["e", "e", "e"], ["n", "e", "n"]]));
    }
    samples.push(("sample_3x2", 2, args.tier.pick(1000, 200_000), vec![["nn", "nn", "nn"], ["ne", "en", "nn"], ["ee", "ee", "ee"], ["nn", "ee", "ne"]]));
    for (class, ops_per_thread, n, kinds) in samples {
        if failure.is_some() {
            break;
        }
        let base: Vec<u8> = (0..3u8).flat_map(|t| std::iter::repeat(t).take(ops_per_thread * STEPS_PER_OP)).collect();
        // quota 1-2 on both resources; one case in five has no limit on one of them
        let strat = (Just(base).prop_shuffle(), 0usize..kinds.len(), 1usize..3, 0u8..10);
        let to_case = |v: &(Vec<u8>, usize, usize, u8)| {
            let (qn, qe) = match v.3 {
                0 => (None, Some(v.2)),
                1 => (Some(v.2), None),
                _ => (Some(v.2), Some(v.2)),
            };
            C18Case::single(kinds[v.1].iter().map(|s| s.to_string()).collect(), qn, qe, v.0.clone(), 3, false)
        };
        let evc = std::cell::RefCell::new(&mut ev);
        let jc = std::cell::RefCell::new(&mut judge);
        let res = search(args.seed, n, &strat, |v| {
            let case = to_case(v);
            let mut e = evc.borrow_mut();
            let mut j = jc.borrow_mut();
            (*j)(&mut **e, &case, class)
        });
        drop(evc);
        drop(jc);
        if let Some((v, msg)) = res {
            failure = Some((to_case(&v), msg));
        }
    }

    // seeded sample of histories with quota changes: 1-3 phases, quotas 0-3 or none per
    // resource, 1-3 writers x 1-2 creations per phase, random schedules, recover / reopen
    // between phases, final recovers on the same or a reopened manager
    if failure.is_none() {
        let quota = || prop_oneof![3 => Just(None::<usize>), 1 => Just(Some(0usize)), 6 => (1usize..4).prop_map(Some)];
        let ops = || prop::sample::select(vec!["n", "e", "nn", "ne", "en", "ee"]);
        let threads = || prop::collection::vec(ops(), 1..=3);
        let schedule = || prop::collection::vec(0u8..3, 0..=24);
        let phase = (quota(), quota(), threads(), schedule(), 0u8..8);
        let strat = (quota(), quota(), threads(), schedule(), prop::collection::vec(phase, 0..=2), 0u8..4, 0u8..4);
        type PhaseV = (Option<usize>, Option<usize>, Vec<&'static str>, Vec<u8>, u8);
        let to_case = |v: &(Option<usize>, Option<usize>, Vec<&'static str>, Vec<u8>, Vec<PhaseV>, u8, u8)| {
            let mut case = C18Case::single(v.2.iter().map(|s| s.to_string()).collect(), v.0, v.1, v.3.clone(), v.5, v.6 == 0);
            for p in &v.4 {
                case.phases.push(C18Phase { max_nodes: p.0, max_edges: p.1, threads: p.2.iter().map(|s| s.to_string()).collect(), schedule: p.3.clone(), recover_before: p.4 == 1 || p.4 == 2, reopen_before: p.4 == 0 });
            }
            case
        };
        let evc = std::cell::RefCell::new(&mut ev);
        let jc = std::cell::RefCell::new(&mut judge);
        let res = search(args.seed, args.tier.pick(1500, 60_000), &strat, |v| {
            let case = to_case(v);
            let mut e = evc.borrow_mut();
            let mut j = jc.borrow_mut();
            (*j)(&mut **e, &case, "sample_quota_histories")
        });
        drop(evc);
        drop(jc);
        if let Some((v, msg)) = res {
            failure = Some((to_case(&v), msg));
        }
    }
    drop(judge);

    // stress phase: N = 2..8 real threads released together, no scheduler, fresh tenant per round
    let mut stress_failure: Option<(Value, String)> = None;
    if failure.is_none() {
        samyama::verif_hooks::install(None);
        let rounds = args.tier.pick(10_000u64, 150_000u64);
        let (mut refused_total, mut contended, mut unlimited_raced) = (0u64, 0u64, 0u64);
        let mut since = 0u32;
        for r in 0..rounds {
            since += 1;
            if since > 4000 {
                match Arena::fresh() {
                    Ok(a) => arena = a,
                    Err(m) => {
                        eprintln!("INCONCLUSIVE: cannot open a scratch store: {m}");
                        std::process::exit(2)
                    }
                }
                since = 0;
            }
            let cfg = stress_cfg(r);
            ev.case();
            ev.class("stress_round");
            ev.class(&format!("stress_threads_{}", cfg.threads.len()));
            if cfg.max_nodes.is_none() || cfg.max_edges.is_none() || cfg.start.map(|s| s.0.is_none() || s.1.is_none()).unwrap_or(false) {
                ev.class("stress_tenant_unlimited_quota");
            }
            if cfg.start.is_some() {
                ev.class("stress_quota_changed_before_race");
            }
            // more attempts than room for some resource: the writers contend for the quota
            let attempts = |k: char| cfg.threads.iter().map(|t| t.chars().filter(|c| *c == k).count()).sum::<usize>();
            let filled = |k: char| cfg.prefill.chars().filter(|c| *c == k).count();
            let over = |k: char, q: Option<usize>| q.map(|q| attempts(k) > q.saturating_sub(filled(k))).unwrap_or(false);
            let free_race = |k: char, q: Option<usize>| q.is_none() && attempts(k) >= 2;
            if over('n', cfg.max_nodes) || over('e', cfg.max_edges) {
                contended += 1;
                ev.nontrivial(&("stress", &cfg));
            } else if free_race('n', cfg.max_nodes) || free_race('e', cfg.max_edges) {
                unlimited_raced += 1;
                ev.nontrivial(&("stress", &cfg));
            }
            match c18_stress_round(&mut arena, &cfg) {
                Ok((refused, failures)) => {
                    refused_total += refused as u64;
                    if !failures.is_empty() {
                        let change = cfg.start.map(|s| format!(", created with {}/{} and changed after the prefill", quota_text(s.0), quota_text(s.1))).unwrap_or_default();
                        let msg = format!("stress round {r} ({} real threads released together, quota nodes/relationships {}/{}{change}, prefill {:?}): {}", cfg.threads.len(), quota_text(cfg.max_nodes), quota_text(cfg.max_edges), cfg.prefill, failures.join(" ; "));
                        stress_failure = Some((json!({"stress": cfg, "rounds": rounds.max(5000)}), msg));
                        break;
                    }
                }
                Err(m) => {
                    stress_failure = Some((json!({"stress": cfg, "rounds": rounds.max(5000)}), m));
                    break;
                }
            }
        }
        ev.set("stress", json!({"rounds": rounds, "threads_per_round": "2..=8 (round-robin)", "contended_rounds": contended, "rounds_racing_on_a_resource_without_limit": unlimited_raced, "refused_creations": refused_total, "note": "samples OS schedules; what each thread observes may vary between runs"}));
    }
    // finish() exits the process without running destructors: remove the scratch store now
    drop(arena);
    if let Some((case, msg)) = stress_failure {
        report_violation(&mut ev, &case, &msg);
        finish(&ev);
    }

    if let Some((case, msg)) = failure {
        // shrink: fewer phases, fewer recover calls, no reopen, shorter schedules, fewer/shorter threads
        let fails = |c: &C18Case| matches!(run_single(c), C18Verdict::Fail(_));
        let mut best = case;
        loop {
            let mut changed = false;
            let mut cands: Vec<C18Case> = Vec::new();
            if !best.phases.is_empty() {
                let mut c = best.clone();
                c.phases.pop();
                cands.push(c);
                // drop the first phase: the history starts with the second phase's quotas
                let mut c = best.clone();
                let p = c.phases.remove(0);
                c.max_nodes = p.max_nodes;
                c.max_edges = p.max_edges;
                c.threads = p.threads;
                c.schedule = p.schedule;
                cands.push(c);
            }
            for i in 0..best.phases.len() {
                if best.phases[i].reopen_before {
                    let mut c = best.clone();
                    c.phases[i].reopen_before = false;
                    cands.push(c);
                }
                if best.phases[i].recover_before {
                    let mut c = best.clone();
                    c.phases[i].recover_before = false;
                    cands.push(c);
                }
            }
            if best.reopen {
                let mut c = best.clone();
                c.reopen = false;
                cands.push(c);
            }
            if best.recovers > 0 {
                let mut c = best.clone();
                c.recovers -= 1;
                cands.push(c);
            }
            // phase index 0 = the top-level fields
            for ph in 0..=best.phases.len() {
                let len = if ph == 0 { best.threads.len() } else { best.phases[ph - 1].threads.len() };
                for t in (0..len).rev() {
                    let edit = |c: &mut C18Case, f: &dyn Fn(&mut Vec<String>, &mut Vec<u8>)| {
                        if ph == 0 {
                            f(&mut c.threads, &mut c.schedule)
                        } else {
                            let p = &mut c.phases[ph - 1];
                            f(&mut p.threads, &mut p.schedule)
                        }
                    };
                    if len > 1 {
                        let mut c = best.clone();
                        edit(&mut c, &|th, sc| {
                            th.remove(t);
                            *sc = sc.iter().filter(|x| **x as usize != t).map(|x| if (*x as usize) > t { x - 1 } else { *x }).collect();
                        });
                        cands.push(c);
                    }
                    let mut c = best.clone();
                    let mut shorter = false;
                    edit(&mut c, &|th, _| {
                        if th[t].len() > 1 {
                            th[t].pop();
                        }
                    });
                    if c != best {
                        shorter = true;
                    }
                    if shorter {
                        cands.push(c);
                    }
                }
            }
            for c in cands {
                if fails(&c) {
                    best = c;
                    changed = true;
                    break;
                }
            }
            if !changed {
                break;
            }
        }
        for ph in 0..=best.phases.len() {
            let b2 = best.clone();
            let cur = if ph == 0 { best.schedule.clone() } else { best.phases[ph - 1].schedule.clone() };
            let sched = shrink_vec(cur, &|s: &[u8]| {
                let mut c = b2.clone();
                if ph == 0 {
                    c.schedule = s.to_vec();
                } else {
                    c.phases[ph - 1].schedule = s.to_vec();
                }
                fails(&c)
            });
            if ph == 0 {
                best.schedule = sched;
            } else {
                best.phases[ph - 1].schedule = sched;
            }
        }
        let msg2 = match run_single(&best) {
            C18Verdict::Fail(m) => m,
            _ => msg,
        };
        report_violation(&mut ev, &json!(best), &msg2);
    }
    finish(&ev);
}
// =======================================================================================
// C32 — replicated requests have their persistence effect on every replica

const UNKNOWN_TENANT: &str = "zz";

#[derive(Clone, Debug, Serialize, Deserialize, PartialEq)]
enum Req {
    /// `t`: 0 = the replica's main tenant, 1 = a tenant no replica knows ("zz")
    CreateNode { t: u8, id: u64, labels: Vec<String>, props: JProps },
    CreateEdge { t: u8, id: u64, src: u64, dst: u64, ty: String, props: JProps },
    DeleteNode { t: u8, id: u64 },
    DeleteEdge { t: u8, id: u64 },
    UpdateNode { t: u8, id: u64, props: JProps, version: u64 },
    UpdateEdge { t: u8, id: u64, props: JProps, version: u64 },
    Query { t: u8 },
}

impl Req {
    fn t(&self) -> u8 {
        match self {
            Req::CreateNode { t, .. } | Req::CreateEdge { t, .. } | Req::DeleteNode { t, .. } | Req::DeleteEdge { t, .. } | Req::UpdateNode { t, .. } | Req::UpdateEdge { t, .. } | Req::Query { t } => *t,
        }
    }
    fn as_mut(&self) -> Mut<'_> {
        match self {
            Req::CreateNode { id, labels, props, .. } => Mut::CreateNode { id: *id, labels, props },
            Req::CreateEdge { id, src, dst, ty, props, .. } => Mut::CreateEdge { id: *id, src: *src, dst: *dst, ty, props },
            Req::DeleteNode { id, .. } => Mut::DeleteNode { id: *id },
            Req::DeleteEdge { id, .. } => Mut::DeleteEdge { id: *id },
            Req::UpdateNode { id, props, .. } => Mut::UpdateNode { id: *id, props },
            Req::UpdateEdge { id, props, .. } => Mut::UpdateEdge { id: *id, props },
            Req::Query { .. } => Mut::Nop,
        }
    }
    fn is_update(&self) -> bool {
        matches!(self, Req::UpdateNode { .. } | Req::UpdateEdge { .. })
    }
    fn to_request(&self, main: &str) -> Request {
        let tenant = |t: &u8| if *t == 0 { main.to_string() } else { UNKNOWN_TENANT.to_string() };
        match self {
            Req::CreateNode { t, id, labels, props } => Request::CreateNode { tenant: tenant(t), node_id: *id, labels: labels.clone(), properties: jprops_to_map(props) },
            Req::CreateEdge { t, id, src, dst, ty, props } => Request::CreateEdge { tenant: tenant(t), edge_id: *id, source: *src, target: *dst, edge_type: ty.clone(), properties: jprops_to_map(props) },
            Req::DeleteNode { t, id } => Request::DeleteNode { tenant: tenant(t), node_id: *id },
            Req::DeleteEdge { t, id } => Request::DeleteEdge { tenant: tenant(t), edge_id: *id },
            Req::UpdateNode { t, id, props, version } => Request::UpdateNodeProperties { tenant: tenant(t), node_id: *id, properties: jprops_to_map(props), version: *version },
            Req::UpdateEdge { t, id, props, version } => Request::UpdateEdgeProperties { tenant: tenant(t), edge_id: *id, properties: jprops_to_map(props), version: *version },
            Req::Query { t } => Request::ExecuteQuery { tenant: tenant(t), query: "MATCH (n) RETURN n".to_string() },
        }
    }
}

#[derive(Clone, Debug, Serialize, Deserialize, PartialEq)]
struct C32Case {
    /// None: requests go to tenant "default". Some((max_nodes, max_edges)): every replica is
    /// configured with a tenant "q" holding these quotas, so creations can fail.
    quota: Option<(usize, usize)>,
    replicas: u8,
    reqs: Vec<Req>,
}

impl C32Case {
    fn main_tenant(&self) -> &'static str {
        if self.quota.is_some() {
            "q"
        } else {
            "default"
        }
    }
}

struct ReplicaOut {
    /// per request: acknowledged with a success response
    acks: Vec<bool>,
    main: G,
    other: G,
}

fn c32_setup_tenant(pm: &PersistenceManager, case: &C32Case) -> Result<(), String> {
    if let Some((mn, me)) = case.quota {
        pm.tenants().create_tenant("q".to_string(), "q".to_string(), Some(c18_quotas(Some(mn), Some(me)))).map_err(|e| format!("create_tenant refused: {e}"))?;
    }
    Ok(())
}

/// One replica: fresh directory, apply every request (even replicas through
/// `RaftNode::write`, odd ones through `GraphStateMachine::apply`), close, reopen, recover.
fn c32_replica(rt: &tokio::runtime::Runtime, case: &C32Case, r: usize) -> Result<ReplicaOut, String> {
    let tmp = scratch_dir();
    let main = case.main_tenant();
    let mut acks = Vec::new();
    {
        let pm = PersistenceManager::new(tmp.path()).map_err(|e| format!("replica {r}: open refused: {e}"))?;
        c32_setup_tenant(&pm, case)?;
        let sm = GraphStateMachine::new(Arc::new(pm));
        let ok = |resp: &Response| !matches!(resp, Response::Error { .. });
        let order: Vec<usize> = (0..case.reqs.len()).collect();
        let mut acks_by_idx = vec![false; case.reqs.len()];
        if r % 2 == 0 {
            let mut node = RaftNode::new(r as u64 + 1, sm);
            rt.block_on(node.initialize(vec![])).map_err(|e| format!("replica {r}: initialize refused: {e}"))?;
            for i in order {
                let resp = rt.block_on(node.write(case.reqs[i].to_request(main))).map_err(|e| format!("replica {r}: write refused by the Raft node: {e}"))?;
                acks_by_idx[i] = ok(&resp);
            }
            let _ = rt.block_on(node.shutdown());
            drop(node);
        } else {
            for i in order {
                let resp = rt.block_on(sm.apply(case.reqs[i].to_request(main)));
                acks_by_idx[i] = ok(&resp);
            }
            drop(sm);
        }
        acks.extend(acks_by_idx);
    }
    let pm = PersistenceManager::new(tmp.path()).map_err(|e| format!("replica {r}: reopen refused: {e}"))?;
    c32_setup_tenant(&pm, case)?;
    let (nodes, edges) = pm.recover(main).map_err(|e| format!("replica {r}: recover refused: {e}"))?;
    let g_main = G::from_recovered(&nodes, &edges).map_err(|m| format!("replica {r}: {m}"))?;
    // the unknown tenant cannot be recovered through the manager (it is not registered after a
    // restart); what storage holds under its prefix is part of the replica's recovered state
    let on = pm.storage().scan_nodes(UNKNOWN_TENANT).map_err(|e| format!("replica {r}: scan refused: {e}"))?;
    let oe = pm.storage().scan_edges(UNKNOWN_TENANT).map_err(|e| format!("replica {r}: scan refused: {e}"))?;
    let g_other = G::from_recovered(&on, &oe).map_err(|m| format!("replica {r}: {m}"))?;
    Ok(ReplicaOut { acks, main: g_main, other: g_other })
}

/// reference: every acknowledged request applied in order. Returns (main, other, ambiguous).
fn c32_model(case: &C32Case, acks: &[bool], cfg: ModelCfg) -> (G, G, bool) {
    let mut main = G::default();
    let mut other = G::default();
    let mut ambiguous = false;
    for (i, rq) in case.reqs.iter().enumerate() {
        if !acks[i] {
            continue;
        }
        let g = if rq.t() == 0 { &mut main } else { &mut other };
        let m = rq.as_mut();
        if mut_ambiguous(g, &m) {
            ambiguous = true;
        }
        model_apply(g, &m, cfg);
    }
    (main, other, ambiguous)
}

struct C32Kf {
    updates: bool,
    empty_labels: bool,
}

enum C32Verdict {
    Held { failing_requests: usize, ambiguous: bool },
    Known(Vec<&'static str>),
    Fail(String),
}

fn c32_check(rt: &tokio::runtime::Runtime, case: &C32Case, kf: &C32Kf) -> C32Verdict {
    let n = case.replicas.clamp(2, 3) as usize;
    let mut outs = Vec::new();
    for r in 0..n {
        match catch(|| c32_replica(rt, case, r)) {
            Ok(Ok(o)) => outs.push(o),
            Ok(Err(m)) => return C32Verdict::Fail(m),
            Err(p) => return C32Verdict::Fail(format!("replica {r} panicked: {p}")),
        }
    }
    for r in 1..n {
        if outs[r].main != outs[0].main || outs[r].other != outs[0].other {
            return C32Verdict::Fail(format!(
                "replicas 0 and {r} recovered different graphs from the same request sequence: replica 0 {} | {} ; replica {r} {} | {}",
                outs[0].main.brief(),
                outs[0].other.brief(),
                outs[r].main.brief(),
                outs[r].other.brief()
            ));
        }
    }
    let strict_cfgs = [ModelCfg { upd: UpdMode::Replace, empty_labels_as_empty_string: false }, ModelCfg { upd: UpdMode::Merge, empty_labels_as_empty_string: false }];
    let failing = outs[0].acks.iter().filter(|a| !**a).count();
    let mut hits: Vec<&'static str> = Vec::new();
    let mut ambiguous_any = false;
    for (r, o) in outs.iter().enumerate() {
        let (_, _, ambiguous) = c32_model(case, &o.acks, strict_cfgs[0]);
        if ambiguous {
            // a node deleted while it had relationships: the
            // property does not settle the outcome; replicas were still compared above
            ambiguous_any = true;
            continue;
        }
        let matches_cfg = |cfg: ModelCfg| {
            let (m, ot, _) = c32_model(case, &o.acks, cfg);
            m == o.main && ot == o.other
        };
        if strict_cfgs.iter().any(|c| matches_cfg(*c)) {
            continue;
        }
        // quirk switches of enabled known findings, fewest switches first
        let mut combos: Vec<(ModelCfg, Vec<&'static str>)> = Vec::new();
        if kf.updates {
            combos.push((ModelCfg { upd: UpdMode::Ignored, empty_labels_as_empty_string: false }, vec!["KF-C32-1"]));
        }
        if kf.empty_labels {
            combos.push((ModelCfg { upd: UpdMode::Replace, empty_labels_as_empty_string: true }, vec!["KF-C32-2"]));
            combos.push((ModelCfg { upd: UpdMode::Merge, empty_labels_as_empty_string: true }, vec!["KF-C32-2"]));
        }
        if kf.updates && kf.empty_labels {
            combos.push((ModelCfg { upd: UpdMode::Ignored, empty_labels_as_empty_string: true }, vec!["KF-C32-1", "KF-C32-2"]));
        }
        if let Some((_, ids)) = combos.into_iter().find(|(c, _)| matches_cfg(*c)) {
            for id in ids {
                if !hits.contains(&id) {
                    hits.push(id);
                }
            }
            continue;
        }
        let (wm, wo, _) = c32_model(case, &o.acks, strict_cfgs[0]);
        let acked: Vec<usize> = o.acks.iter().enumerate().filter(|(_, a)| **a).map(|(i, _)| i).collect();
        return C32Verdict::Fail(format!(
            "replica {r} recovered {} | unknown-tenant {} ; the acknowledged requests {:?} applied in order give {} | unknown-tenant {}",
            o.main.brief(),
            o.other.brief(),
            acked,
            wm.brief(),
            wo.brief()
        ));
    }
    if hits.is_empty() {
        C32Verdict::Held { failing_requests: failing, ambiguous: ambiguous_any }
    } else {
        C32Verdict::Known(hits)
    }
}

/// raw generated request: (kind, selectors, label mask, tenant selector, properties, name selector)
type RawReq = (u8, u16, u16, u16, u8, u8, Vec<(u8, PropertyValue)>, u16);

fn raw_req_strategy() -> impl Strategy<Value = RawReq> {
    // 0 create_node ×4, 1 create_edge ×3, 2 delete_node ×2, 3 delete_edge, 4 update_node ×3, 5 update_edge ×2, 6 query
    let kind = prop_oneof![4 => Just(0u8), 3 => Just(1u8), 2 => Just(2u8), 1 => Just(3u8), 3 => Just(4u8), 2 => Just(5u8), 1 => Just(6u8)];
    (kind, any::<u16>(), any::<u16>(), any::<u16>(), 0u8..8, 0u8..8, props_strategy(), any::<u16>())
}

/// Construct a request sequence (ids 1..=5): creations on free ids, relationships mostly between
/// live nodes but also to missing ones, deletes/updates of live and of absent ids, node deletes
/// only when the node has no relationships (judged as if every request succeeds), one request
/// in eight addressed to the unknown tenant.
fn c32_build(raw: &[RawReq]) -> Vec<Req> {
    const IDS: u64 = 5;
    let cfg = ModelCfg { upd: UpdMode::Replace, empty_labels_as_empty_string: false };
    let mut gs = [G::default(), G::default()];
    let mut reqs = Vec::new();
    for (kind, a, b, c, mask, tsel, props, nm) in raw {
        let t: u8 = if *tsel == 7 { 1 } else { 0 };
        let g = &gs[t as usize];
        let live_nodes: Vec<u64> = g.nodes.keys().cloned().collect();
        let live_edges: Vec<u64> = g.edges.keys().cloned().collect();
        let free_nodes: Vec<u64> = (1..=IDS).filter(|i| !g.nodes.contains_key(i)).collect();
        let free_edges: Vec<u64> = (1..=IDS).filter(|i| !g.edges.contains_key(i)).collect();
        let odd = *c < 10000; // ~15 %: aim at an absent id / missing endpoint
        let all_ids: Vec<u64> = (1..=IDS).collect();
        let rq = match kind {
            // ~20 %: CreateNode over an id that is still stored, with different labels/properties
            0 if !live_nodes.is_empty() && *b < 13000 => {
                let id = live_nodes[pick_idx(*a, live_nodes.len())];
                let props = build_props(props, false);
                Req::CreateNode { t, id, labels: different_labels(&g.nodes[&id], gen_labels(*mask, *nm), &props), props }
            }
            // 25 % (mask 6, 7): CreateEdge over an id that is still stored, new endpoints/type/properties
            1 if !live_edges.is_empty() && *mask >= 6 => {
                let id = live_edges[pick_idx(*a, live_edges.len())];
                let pool: &Vec<u64> = if odd || live_nodes.is_empty() { &all_ids } else { &live_nodes };
                let (src, dst) = (pool[pick_idx(*b, pool.len())], pool[pick_idx(*c, pool.len())]);
                let props = build_props(props, false);
                let cur = &g.edges[&id];
                let mut ty = gen_type(*mask, *nm);
                if (src, dst, &ty, &jprops_canon(&props)) == (cur.0, cur.1, &cur.2, &cur.3) {
                    ty = TYPES[(*mask as usize + 1) % 3].to_string();
                    if ty == cur.2 {
                        ty = TYPES[(*mask as usize + 2) % 3].to_string();
                    }
                }
                Req::CreateEdge { t, id, src, dst, ty, props }
            }
            0 if !free_nodes.is_empty() => Req::CreateNode { t, id: free_nodes[pick_idx(*a, free_nodes.len())], labels: gen_labels(*mask, *nm), props: build_props(props, false) },
            1 if !free_edges.is_empty() && (!live_nodes.is_empty() || odd) => {
                let pool: &Vec<u64> = if odd || live_nodes.is_empty() { &all_ids } else { &live_nodes };
                Req::CreateEdge { t, id: free_edges[pick_idx(*a, free_edges.len())], src: pool[pick_idx(*b, pool.len())], dst: pool[pick_idx(*c, pool.len())], ty: gen_type(*mask, *nm), props: build_props(props, false) }
            }
            2 => {
                let deletable: Vec<u64> = live_nodes.iter().cloned().filter(|n| !g.incident(*n)).collect();
                if !deletable.is_empty() && !odd {
                    Req::DeleteNode { t, id: deletable[pick_idx(*a, deletable.len())] }
                } else if !free_nodes.is_empty() {
                    Req::DeleteNode { t, id: free_nodes[pick_idx(*a, free_nodes.len())] }
                } else {
                    continue;
                }
            }
            3 => {
                if !live_edges.is_empty() && !odd {
                    Req::DeleteEdge { t, id: live_edges[pick_idx(*a, live_edges.len())] }
                } else if !free_edges.is_empty() {
                    Req::DeleteEdge { t, id: free_edges[pick_idx(*a, free_edges.len())] }
                } else {
                    continue;
                }
            }
            4 | 0 => {
                if !live_nodes.is_empty() && !(odd && !free_nodes.is_empty()) {
                    Req::UpdateNode { t, id: live_nodes[pick_idx(*a, live_nodes.len())], props: build_props(props, true), version: (*b % 3) as u64 }
                } else if !free_nodes.is_empty() {
                    Req::UpdateNode { t, id: free_nodes[pick_idx(*a, free_nodes.len())], props: build_props(props, true), version: (*b % 3) as u64 }
                } else {
                    continue;
                }
            }
            5 | 1 => {
                if !live_edges.is_empty() && !(odd && !free_edges.is_empty()) {
                    Req::UpdateEdge { t, id: live_edges[pick_idx(*a, live_edges.len())], props: build_props(props, true), version: (*b % 3) as u64 }
                } else if !free_edges.is_empty() {
                    Req::UpdateEdge { t, id: free_edges[pick_idx(*a, free_edges.len())], props: build_props(props, true), version: (*b % 3) as u64 }
                } else {
                    continue;
                }
            }
            _ => Req::Query { t },
        };
        model_apply(&mut gs[t as usize], &rq.as_mut(), cfg);
        reqs.push(rq);
    }
    reqs
}

fn c32_drain_build(raw: &DrainRaw) -> Vec<Req> {
    drain_steps(raw)
        .into_iter()
        .map(|st| match st {
            DStep::CreateNode(id, mask) => Req::CreateNode { t: 0, id, labels: label_set(mask), props: drain_props(id) },
            DStep::CreateEdge(id, src, dst) => Req::CreateEdge { t: 0, id, src, dst, ty: "R".to_string(), props: JProps::new() },
            DStep::DeleteNode(id) => Req::DeleteNode { t: 0, id },
            DStep::DeleteEdge(id) => Req::DeleteEdge { t: 0, id },
        })
        .collect()
}

fn c32(args: &Args) {
    let mut ev = Evidence::new(
        args,
        "exploration",
        "sequences (<= 20) of replicated Requests (create/delete node and relationship, node/relationship property updates with versions, read-only query; ids 1..=5 with reuse, relationships to missing nodes, deletes and updates of absent ids, requests to a tenant no replica knows, optional small tenant quotas so creations fail; boundary property values; labels, relationship types and property keys from {A,B,C}/{R,S,T}/{p,q,k} or, in about 40 % / 30 % / 25 % of the creations / relationship creations / property entries, from a boundary pool of names (the empty string alone and among others, white space only, ':' '|' NUL, quotes, backslashes, composed/decomposed/astral non-ASCII, case and padding variants of the plain names, 300-byte and 66 000-byte names, lists that repeat a label); plus a counter-drain class: k creations, at least k deletes of ids that do not exist, then deletes of ids that do, ordered and interleaved) applied to 2-3 GraphStateMachines on fresh directories (even replicas through RaftNode::write, odd ones through GraphStateMachine::apply), each closed, reopened and recovered. Oracle: recovered graphs (ids, labels, endpoints, types, typed properties; timestamps ignored) identical on all replicas — always; and equal to the reference model that applies every request acknowledged with a non-error response, in order — on histories whose meaning is settled (no node deleted while it has relationships). A CreateNode/CreateEdge over an id that is still stored, with different labels/endpoints/type/properties, is generated in about one creation in five and is settled: it is acknowledged and the later creation stands. Non-trivial = the sequence contains a property update or a request answered with an error; distinct = distinct cases.",
    );
    ev.assume("a property update may be read as replacing the property map or as merging into it; either reading, applied consistently, satisfies the oracle; updates carry no top-level null");
    ev.assume("a replica holds data for one tenant only (tenant scans are unbounded above, C17); the unknown tenant never holds data unless a creation for it is wrongly accepted");
    ev.assume("replication itself is not exercised: RaftNode::write applies directly to the local state machine on this tree; the same request sequence is handed to every replica");
    let kfs = Known::load(args);
    let rt = tokio::runtime::Builder::new_current_thread().enable_all().build().unwrap();
    let strict = C32Kf { updates: false, empty_labels: false };

    if let Some(p) = &args.replay {
        let case: C32Case = serde_json::from_value(load_replay(p)).expect("replay case");
        ev.case();
        match c32_check(&rt, &case, &strict) {
            C32Verdict::Held { .. } => println!("replay: property held"),
            C32Verdict::Known(_) => unreachable!(),
            C32Verdict::Fail(m) => {
                report_violation(&mut ev, &json!(case), &m);
            }
        }
        ev.nontrivial(&serde_json::to_string(&case).unwrap());
        ev.nontrivial(&"replay");
        ev.sample(json!(case));
        finish(&ev);
    }

    let mut kf = C32Kf { updates: false, empty_labels: false };
    for (id, slot) in [("KF-C32-1", 0), ("KF-C32-2", 1)] {
        if kfs.listed(id) {
            if let Some(w) = witness_case(&kfs, id) {
                let case: C32Case = serde_json::from_value(w).expect("witness case");
                let still = matches!(c32_check(&rt, &case, &strict), C32Verdict::Fail(_));
                let on = kfs.witness_result(&mut ev, id, still);
                if slot == 0 {
                    kf.updates = on
                } else {
                    kf.empty_labels = on
                }
            }
        }
    }

    let mut failure: Option<(C32Case, String)> = None;
    let judge = |ev: &mut Evidence, case: &C32Case, class: &str| -> Result<(), String> {
        ev.case();
        ev.class(class);
        ev.class(if case.quota.is_some() { "tenant_with_quota" } else { "tenant_default" });
        ev.class(&format!("replicas_{}", case.replicas.clamp(2, 3)));
        let has_update = case.reqs.iter().any(|r| r.is_update());
        if has_update {
            ev.class("has_update");
        }
        if case.reqs.iter().any(|r| matches!(r, Req::CreateNode { labels, .. } if labels.is_empty())) {
            ev.class("has_unlabelled_node");
        }
        let (names, long_name) = name_classes(case.reqs.iter().map(|r| r.as_mut()));
        for c in &names {
            ev.class(&format!("request_with_{c}"));
        }
        let over = count_create_over_existing(case.reqs.iter().filter(|r| r.t() == 0).map(|r| r.as_mut()));
        if over > 0 {
            ev.class("create_over_existing_id");
            ev.class_n("create_over_existing_id_requests", over as u64);
        }
        let key = serde_json::to_string(case).unwrap();
        match c32_check(&rt, case, &kf) {
            C32Verdict::Held { failing_requests, ambiguous } => {
                for _ in 0..failing_requests {
                    ev.refusal();
                }
                if failing_requests > 0 {
                    ev.class("has_failing_request");
                }
                if ambiguous {
                    ev.class("ambiguous_history_replicas_only");
                }
                if has_update || failing_requests > 0 {
                    ev.nontrivial(&key);
                    if ev.want_sample() && failing_requests > 0 && case.reqs.len() <= 8 && !long_name {
                        ev.sample(json!(case));
                    }
                }
                Ok(())
            }
            C32Verdict::Known(ids) => {
                for id in ids {
                    ev.kf_hit(id);
                }
                ev.class("known_finding_hit");
                ev.nontrivial(&key);
                Ok(())
            }
            C32Verdict::Fail(m) => {
                ev.frozen = true;
                Err(m)
            }
        }
    };

    for (p, v) in corpus_cases("C32") {
        let case: C32Case = serde_json::from_value(v).expect("corpus case");
        if let Err(m) = judge(&mut ev, &case, "corpus") {
            failure = Some((case, format!("{m} (corpus {})", p.display())));
            break;
        }
    }

    let strat = (proptest::collection::vec(raw_req_strategy(), 1..=20), 0u8..4, 1usize..4, 1usize..3, 2u8..4);
    let to_case = |v: &(Vec<RawReq>, u8, usize, usize, u8)| C32Case { quota: if v.1 == 0 { Some((v.2 + 1, v.3)) } else { None }, replicas: v.4, reqs: c32_build(&v.0) };
    if failure.is_none() {
        let n = args.tier.pick(150u32, 2500u32);
        let evc = std::cell::RefCell::new(&mut ev);
        let res = search(args.seed, n, &strat, |v| {
            let case = to_case(v);
            let mut e = evc.borrow_mut();
            judge(&mut **e, &case, "random")
        });
        drop(evc);
        if let Some((v, msg)) = res {
            failure = Some((to_case(&v), msg));
        }
    }

    // counter-drain class: k creations, >= k deletes of absent ids, then deletes of existing ids
    if failure.is_none() {
        let n = args.tier.pick(50u32, 800u32);
        let dstrat = (drain_strategy(), 2u8..4);
        let to_dcase = |v: &(DrainRaw, u8)| C32Case { quota: None, replicas: v.1, reqs: c32_drain_build(&v.0) };
        let evc = std::cell::RefCell::new(&mut ev);
        let res = search(args.seed ^ 0xd7a1, n, &dstrat, |v| {
            let case = to_dcase(v);
            let mut e = evc.borrow_mut();
            judge(&mut **e, &case, "counter_drain")
        });
        drop(evc);
        if let Some((v, msg)) = res {
            failure = Some((to_dcase(&v), msg));
        }
    }

    if let Some((case, msg)) = failure {
        let fails = |c: &C32Case| matches!(c32_check(&rt, c, &kf), C32Verdict::Fail(_));
        let mut best = case;
        if best.replicas > 2 {
            let mut c = best.clone();
            c.replicas = 2;
            if fails(&c) {
                best = c;
            }
        }
        if best.quota.is_some() {
            let mut c = best.clone();
            c.quota = None;
            if fails(&c) {
                best = c;
            }
        }
        let b2 = best.clone();
        best.reqs = shrink_vec(best.reqs.clone(), &|r: &[Req]| {
            let mut c = b2.clone();
            c.reqs = r.to_vec();
            fails(&c)
        });
        // fewer labels per creation
        for i in 0..best.reqs.len() {
            loop {
                let n = match &best.reqs[i] {
                    Req::CreateNode { labels, .. } => labels.len(),
                    _ => 0,
                };
                let mut dropped = false;
                for j in (0..n).rev() {
                    let mut c = best.clone();
                    if let Req::CreateNode { labels, .. } = &mut c.reqs[i] {
                        labels.remove(j);
                    }
                    if fails(&c) {
                        best = c;
                        dropped = true;
                        break;
                    }
                }
                if !dropped {
                    break;
                }
            }
        }
        for i in 0..best.reqs.len() {
            let mut c = best.clone();
            let simpler = match &mut c.reqs[i] {
                Req::CreateNode { props, .. } | Req::CreateEdge { props, .. } if !props.is_empty() => {
                    props.clear();
                    true
                }
                Req::UpdateNode { props, .. } | Req::UpdateEdge { props, .. } if props.len() > 1 => {
                    let k = props.keys().next().cloned().unwrap();
                    props.remove(&k);
                    true
                }
                _ => false,
            };
            if simpler && fails(&c) {
                best = c;
            }
        }
        let msg2 = match c32_check(&rt, &best, &kf) {
            C32Verdict::Fail(m) => m,
            _ => msg,
        };
        report_violation(&mut ev, &json!(best), &msg2);
    }
    finish(&ev);
}
