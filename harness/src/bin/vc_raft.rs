//! C31 (Raft log storage) and C33 (cluster health / quorum) — DESIGN §4.
use samyama::raft::cluster::NodeRole;
use samyama::raft::storage::LogEntry;
use samyama::raft::{ClusterConfig, ClusterManager, RaftStorage};
use serde::{Deserialize, Serialize};
use serde_json::json;
use std::collections::{BTreeMap, BTreeSet};
use vcheck::*;

fn main() {
    let args = parse_args();
    quiet_panics();
    start_watchdog(args.tier.pick(900, 3600));
    match args.prop.as_str() {
        "C31" => c31(&args),
        "C33" => c33(&args),
        p => {
            eprintln!("vc_raft does not serve {p}");
            std::process::exit(2)
        }
    }
}

// =======================================================================================
// C31

#[derive(Clone, Debug, Serialize, Deserialize, PartialEq, Eq, Hash)]
enum LogOp {
    /// append consecutive entries starting at `start` with the given terms
    Append { start: u64, terms: Vec<u64> },
    DeleteFrom(u64),
    Snapshot { index: u64, term: u64 },
}

#[derive(Clone, Default, Debug)]
struct LogModel {
    entries: Vec<(u64, u64)>, // (index, term), contiguous ascending
    snapshot: Option<(u64, u64)>,
}

impl LogModel {
    fn last(&self) -> (u64, u64) {
        if let Some(l) = self.entries.last() {
            *l
        } else if let Some(s) = self.snapshot {
            s
        } else {
            (0, 0)
        }
    }
    fn last_index(&self) -> u64 {
        self.last().0
    }
    /// Preconditions on the caller: appends are contiguous with the log (index ≤ last+1) and
    /// terms never decrease along the log. Appends at or below the snapshot index are allowed.
    fn applicable(&self, op: &LogOp) -> bool {
        match op {
            LogOp::Append { start, terms } => {
                // The property speaks of ANY sequence of appends, truncations and snapshots, so an
                // append at or below the snapshot index is in the domain (a leader rewriting an
                // index the follower had snapshotted); only gaps are excluded.
                if *start < 1 || *start > self.last_index() + 1 {
                    return false;
                }
                // term of predecessor entry must not exceed first new term
                let prev_term = if *start == 1 {
                    0
                } else if let Some(e) = self.entries.iter().find(|e| e.0 == *start - 1) {
                    e.1
                } else {
                    self.snapshot.map(|s| s.1).unwrap_or(0)
                };
                let mut t = prev_term;
                for x in terms {
                    if *x < t {
                        return false;
                    }
                    t = *x;
                }
                !terms.is_empty()
            }
            LogOp::DeleteFrom(i) => *i >= 1,
            LogOp::Snapshot { index, .. } => {
                // snapshots move forward
                *index >= 1 && self.snapshot.map(|s| *index >= s.0).unwrap_or(true)
            }
        }
    }
    /// returns whether the op was "interesting" (append over existing index / snapshot below last)
    fn apply(&mut self, op: &LogOp) -> bool {
        match op {
            LogOp::Append { start, terms } => {
                let over = self.entries.iter().any(|e| e.0 >= *start);
                self.entries.retain(|e| e.0 < *start);
                for (k, t) in terms.iter().enumerate() {
                    self.entries.push((*start + k as u64, *t));
                }
                over
            }
            LogOp::DeleteFrom(i) => {
                self.entries.retain(|e| e.0 < *i);
                false
            }
            LogOp::Snapshot { index, term } => {
                let below = self.entries.iter().any(|e| e.0 > *index);
                self.snapshot = Some((*index, *term));
                self.entries.retain(|e| e.0 > *index);
                below
            }
        }
    }
}

fn c31_run(rt: &tokio::runtime::Runtime, dir: &std::path::Path, ops: &[LogOp]) -> Result<bool, String> {
    let st = RaftStorage::new(dir).map_err(|e| format!("storage: {e}"))?;
    let mut m = LogModel::default();
    let mut interesting = false;
    for (step, op) in ops.iter().enumerate() {
        if !m.applicable(op) {
            return Err(format!("inapplicable op in replay at step {step}: {op:?}"));
        }
        interesting |= m.apply(op);
        let res: Result<(), String> = rt.block_on(async {
            match op {
                LogOp::Append { start, terms } => {
                    let es: Vec<LogEntry> = terms.iter().enumerate().map(|(k, t)| LogEntry { index: start + k as u64, term: *t, data: vec![*t as u8, (start + k as u64) as u8] }).collect();
                    st.append_entries(es).await.map_err(|e| format!("append refused: {e}"))
                }
                LogOp::DeleteFrom(i) => st.delete_entries_from(*i).await.map_err(|e| format!("delete refused: {e}")),
                LogOp::Snapshot { index, term } => st.create_snapshot(*index, *term, vec![]).await.map_err(|e| format!("snapshot refused: {e}")),
            }
        });
        res?;
        // compare every read view with the model
        let got_all: Vec<(u64, u64, Vec<u8>)> = rt.block_on(st.get_entries(0, u64::MAX)).into_iter().map(|e| (e.index, e.term, e.data)).collect();
        let want_all: Vec<(u64, u64, Vec<u8>)> = m.entries.iter().map(|(i, t)| (*i, *t, vec![*t as u8, *i as u8])).collect();
        let mut sorted = got_all.clone();
        sorted.sort();
        let idxs: BTreeSet<u64> = got_all.iter().map(|e| e.0).collect();
        if idxs.len() != got_all.len() {
            return Err(format!("after step {step} ({op:?}) the log holds two entries for one index: {:?}", got_all.iter().map(|e| (e.0, e.1)).collect::<Vec<_>>()));
        }
        if sorted != want_all {
            return Err(format!("after step {step} ({op:?}) log = {:?}, model = {:?}", got_all.iter().map(|e| (e.0, e.1)).collect::<Vec<_>>(), m.entries));
        }
        for i in 0..=7u64 {
            let g = rt.block_on(st.get_entry(i)).map(|e| (e.index, e.term, e.data));
            let w = want_all.iter().find(|e| e.0 == i).cloned();
            if g != w {
                return Err(format!("after step {step} ({op:?}) get_entry({i}) = {g:?}, model {w:?}"));
            }
        }
        for s in 0..=6u64 {
            for e in s..=7u64 {
                let mut g: Vec<(u64, u64)> = rt.block_on(st.get_entries(s, e)).into_iter().map(|x| (x.index, x.term)).collect();
                g.sort();
                let w: Vec<(u64, u64)> = m.entries.iter().filter(|x| x.0 >= s && x.0 < e).cloned().collect();
                if g != w {
                    return Err(format!("after step {step} ({op:?}) get_entries({s},{e}) = {g:?}, model {w:?}"));
                }
            }
        }
        let last = rt.block_on(st.get_last_log_index_term());
        if last != m.last() {
            return Err(format!("after step {step} ({op:?}) last (index,term) = {last:?}, model {:?}", m.last()));
        }
        let snap = rt.block_on(st.get_snapshot_metadata());
        if snap != m.snapshot {
            return Err(format!("after step {step} ({op:?}) snapshot metadata = {snap:?}, model {:?}", m.snapshot));
        }
    }
    Ok(interesting)
}

fn c31_alphabet(max_index: u64, max_term: u64) -> Vec<LogOp> {
    let mut ops = Vec::new();
    for start in 1..=max_index {
        for t in 1..=max_term {
            ops.push(LogOp::Append { start, terms: vec![t] });
            for t2 in t..=max_term {
                if start + 1 <= max_index {
                    ops.push(LogOp::Append { start, terms: vec![t, t2] });
                }
            }
        }
    }
    for i in 1..=max_index + 1 {
        ops.push(LogOp::DeleteFrom(i));
    }
    for i in 1..=max_index {
        for t in 1..=max_term {
            ops.push(LogOp::Snapshot { index: i, term: t });
        }
    }
    ops
}

/// does the sequence hold an append whose start is at or below the snapshot index in force?
fn below_snapshot_append(ops: &[LogOp]) -> bool {
    let mut snap = 0u64;
    for op in ops {
        match op {
            LogOp::Snapshot { index, .. } => snap = *index,
            LogOp::Append { start, .. } if snap > 0 && *start <= snap => return true,
            _ => {}
        }
    }
    false
}

fn c31(args: &Args) {
    let mut ev = Evidence::new(
        args,
        "exploration",
        "bounded-exhaustive DFS (depth 4 quick / 5 thorough) over {append 1-2 consecutive entries at index i<=last+1 incl. at or below the snapshot index (terms non-decreasing), delete_entries_from(i), create_snapshot(i,t)} with indices 1..=4 (5) and terms 1..=2, plus random longer sequences (indices to 8, terms to 4, length to 12); every read view compared with a reference log after every step. Non-trivial = sequence contains an append at an existing index or a snapshot below the last index; distinct = distinct op sequences.",
    );
    ev.assume("caller preconditions: appends are contiguous (index <= last+1; at or below the snapshot index is allowed), terms never decrease along the log, snapshots move forward");
    let kf = Known::load(args);
    let rt = tokio::runtime::Builder::new_current_thread().build().unwrap();
    let tmp = tempfile::tempdir().unwrap();
    let dir = tmp.path().to_path_buf();

    if let Some(p) = &args.replay {
        let ops: Vec<LogOp> = serde_json::from_value(load_replay(p)).expect("replay case");
        ev.case();
        match catch(|| c31_run(&rt, &dir, &ops)) {
            Ok(Ok(_)) => println!("replay: property held"),
            Ok(Err(m)) | Err(m) => {
                report_violation(&mut ev, &json!(ops), &m);
            }
        }
        ev.nontrivial(&ops);
        ev.nontrivial(&"replay");
        ev.sample(json!(ops));
        finish(&ev);
    }
    let _ = &kf;

    // regression corpus first
    for (p, case) in corpus_cases("C31") {
        let ops: Vec<LogOp> = serde_json::from_value(case).expect("corpus case");
        ev.case();
        ev.class("corpus");
        match catch(|| c31_run(&rt, &dir, &ops)) {
            Ok(Ok(i)) => {
                if i {
                    ev.nontrivial(&ops)
                }
            }
            Ok(Err(m)) | Err(m) => {
                report_violation(&mut ev, &json!(ops), &format!("{m} (corpus {})", p.display()));
                finish(&ev);
            }
        }
    }

    // bounded-exhaustive DFS
    let depth = args.tier.pick(4usize, 5usize);
    let max_term: u64 = std::env::var("VERIF_C31_TERMS").ok().and_then(|s| s.parse().ok()).unwrap_or(2);
    let alphabet = c31_alphabet(args.tier.pick(4, 5), max_term);
    let mut stack: Vec<LogOp> = Vec::new();
    let mut failure: Option<(Vec<LogOp>, String)> = None;
    fn dfs(
        depth: usize,
        alphabet: &[LogOp],
        stack: &mut Vec<LogOp>,
        model: &LogModel,
        rt: &tokio::runtime::Runtime,
        dir: &std::path::Path,
        ev: &mut Evidence,
        failure: &mut Option<(Vec<LogOp>, String)>,
    ) {
        if failure.is_some() {
            return;
        }
        if !stack.is_empty() {
            // every prefix is a case in its own right only at the leaves: the run checks after every step
            if stack.len() == depth || alphabet.iter().all(|o| !model.applicable(o)) {
                ev.case();
                match catch(|| c31_run(rt, dir, stack)) {
                    Ok(Ok(interesting)) => {
                        if below_snapshot_append(stack) {
                            ev.class("append_at_or_below_snapshot_index");
                        }
                        if interesting {
                            ev.nontrivial(&*stack);
                            ev.class("nontrivial");
                            if ev.want_sample() && stack.len() >= 3 {
                                ev.sample(json!(stack));
                            }
                        }
                    }
                    Ok(Err(m)) | Err(m) => {
                        *failure = Some((stack.clone(), m));
                    }
                }
                return;
            }
        }
        for op in alphabet {
            if !model.applicable(op) {
                continue;
            }
            let mut m2 = model.clone();
            m2.apply(op);
            stack.push(op.clone());
            dfs(depth, alphabet, stack, &m2, rt, dir, ev, failure);
            stack.pop();
            if failure.is_some() {
                return;
            }
        }
    }
    dfs(depth, &alphabet, &mut stack, &LogModel::default(), &rt, &dir, &mut ev, &mut failure);
    ev.exhaustive = Some(failure.is_none());
    ev.set("exhaustive_bound", json!({"depth": depth, "alphabet_ops": alphabet.len()}));

    // random longer sequences (indices to 8, terms to 4, length to 12)
    if failure.is_none() {
        use proptest::prelude::*;
        let n = args.tier.pick(3000u32, 200_000u32);
        let strat = proptest::collection::vec((0u8..3, 0u16..=u16::MAX, 0u16..=u16::MAX, 0u16..=u16::MAX), 1..12);
        let evc = std::cell::RefCell::new(&mut ev);
        let build = |raw: &Vec<(u8, u16, u16, u16)>| -> Vec<LogOp> {
            // construct applicable ops from selectors (construction, not rejection)
            let mut m = LogModel::default();
            let mut ops = Vec::new();
            for (kind, a, b, c) in raw {
                let last = m.last_index();
                let snap = m.snapshot.map(|s| s.0).unwrap_or(0);
                let op = match kind {
                    0 => {
                        // one append in four may start at or below the snapshot index
                        let lo = if *a % 4 == 0 { 1 } else { snap + 1 };
                        let hi = last + 1;
                        if lo > hi {
                            continue;
                        }
                        let start = lo + pick_idx(*a, (hi - lo + 1) as usize) as u64;
                        let prev_term = if start == 1 { 0 } else if let Some(e) = m.entries.iter().find(|e| e.0 == start - 1) { e.1 } else { m.snapshot.map(|s| s.1).unwrap_or(0) };
                        let t1 = prev_term.max(1) + pick_idx(*b, 2) as u64;
                        let mut terms = vec![t1];
                        if pick_idx(*c, 3) > 0 {
                            terms.push(t1 + (pick_idx(*c, 3) as u64 - 1));
                        }
                        LogOp::Append { start, terms }
                    }
                    1 => LogOp::DeleteFrom(1 + pick_idx(*a, (last + 2) as usize) as u64),
                    _ => {
                        let lo = snap.max(1);
                        let hi = (last + 1).max(lo);
                        let index = lo + pick_idx(*a, (hi - lo + 1) as usize) as u64;
                        let term = m.entries.iter().find(|e| e.0 == index).map(|e| e.1).unwrap_or(1 + pick_idx(*b, 3) as u64);
                        LogOp::Snapshot { index, term }
                    }
                };
                if m.applicable(&op) {
                    m.apply(&op);
                    ops.push(op);
                }
            }
            ops
        };
        let res = search(args.seed, n, &strat, |raw| {
            let ops = build(raw);
            let mut e = evc.borrow_mut();
            e.case();
            e.class("random");
            match catch(|| c31_run(&rt, &dir, &ops)) {
                Ok(Ok(i)) => {
                    if i {
                        e.nontrivial(&ops);
                        e.class("random_nontrivial");
                    }
                    Ok(())
                }
                Ok(Err(m)) | Err(m) => {
                    e.frozen = true;
                    Err(m)
                }
            }
        });
        drop(evc);
        if let Some((raw, msg)) = res {
            failure = Some((build(&raw), msg));
        }
    }

    if let Some((ops, msg)) = failure {
        // shrink by removing ops while the failure persists and the sequence stays applicable
        let fails = |cand: &[LogOp]| -> bool {
            let mut m = LogModel::default();
            for o in cand {
                if !m.applicable(o) {
                    return false;
                }
                m.apply(o);
            }
            matches!(catch(|| c31_run(&rt, &dir, cand)), Ok(Err(_)) | Err(_))
        };
        let min = shrink_vec(ops, &fails);
        let msg2 = match catch(|| c31_run(&rt, &dir, &min)) {
            Ok(Err(m)) | Err(m) => m,
            _ => msg,
        };
        report_violation(&mut ev, &json!(min), &msg2);
    }
    finish(&ev);
}

// =======================================================================================
// C33

#[derive(Clone, Debug, Serialize, Deserialize, PartialEq, Eq, Hash)]
enum ClOp {
    Add { id: u64, voter: bool },
    Remove(u64),
    Active(u64),
    Inactive(u64),
}

#[derive(Clone, Debug, Serialize, Deserialize, PartialEq, Eq, Hash)]
struct ClCase {
    /// initial configuration entries (id, voter) in order; may repeat an id
    initial: Vec<(u64, bool)>,
    ops: Vec<ClOp>,
    /// ids marked active at the end (bitmask over 1..=max_id)
    active: Vec<u64>,
    /// node given the Leader role at the end (None = no leader)
    leader: Option<u64>,
}

#[derive(Clone, Default)]
struct ClModel {
    entries: Vec<(u64, bool)>,
    active: BTreeSet<u64>,
}

impl ClModel {
    fn voters(&self) -> BTreeSet<u64> {
        self.entries.iter().filter(|e| e.1).map(|e| e.0).collect()
    }
    fn conflicting(&self) -> bool {
        let mut m: BTreeMap<u64, BTreeSet<bool>> = BTreeMap::new();
        for (id, v) in &self.entries {
            m.entry(*id).or_default().insert(*v);
        }
        m.values().any(|s| s.len() > 1)
    }
    fn has_dup(&self) -> bool {
        let ids: BTreeSet<u64> = self.entries.iter().map(|e| e.0).collect();
        ids.len() != self.entries.len()
    }
    fn members(&self) -> BTreeSet<u64> {
        self.entries.iter().map(|e| e.0).collect()
    }
}

struct ClOutcome {
    healthy: bool,
    model: ClModel,
    leader_known: bool,
}

fn c33_eval(rt: &tokio::runtime::Runtime, case: &ClCase) -> Result<Option<ClOutcome>, String> {
    let mut cfg = ClusterConfig::new("c".to_string(), 1);
    let mut m = ClModel::default();
    for (id, v) in &case.initial {
        cfg.add_node(*id, format!("127.0.0.1:{}", 5000 + id), *v);
        m.entries.push((*id, *v));
    }
    let mgr = match ClusterManager::new(cfg) {
        Ok(m) => m,
        Err(_) => return Ok(None), // configuration refused (no voter): outside the domain
    };
    rt.block_on(async {
        for op in &case.ops {
            match op {
                ClOp::Add { id, voter } => {
                    if mgr.add_node(*id, format!("127.0.0.1:{}", 5000 + id), *voter).await.is_ok() {
                        m.entries.push((*id, *voter));
                    }
                }
                ClOp::Remove(id) => {
                    if mgr.remove_node(*id).await.is_ok() {
                        m.entries.retain(|e| e.0 != *id);
                        m.active.remove(id);
                    }
                }
                ClOp::Active(id) => {
                    mgr.mark_active(*id).await;
                    m.active.insert(*id);
                }
                ClOp::Inactive(id) => {
                    mgr.mark_inactive(*id).await;
                    m.active.remove(id);
                }
            }
        }
        // final activity assignment: exactly `case.active`
        let all: BTreeSet<u64> = m.members().into_iter().chain(m.active.iter().cloned()).chain(case.active.iter().cloned()).collect();
        for id in all {
            if case.active.contains(&id) {
                mgr.mark_active(id).await;
                m.active.insert(id);
            } else {
                mgr.mark_inactive(id).await;
                m.active.remove(&id);
            }
        }
        let mut leader_known = false;
        if let Some(l) = case.leader {
            mgr.update_node_role(l, NodeRole::Leader).await;
            // the role sticks only for a node the manager knows
            leader_known = mgr.get_node_metadata(l).await.map(|md| md.role == NodeRole::Leader).unwrap_or(false);
        }
        let h = mgr.health_status().await;
        Ok(Some(ClOutcome { healthy: h.healthy, model: m.clone(), leader_known }))
    })
}

/// Err(msg) = violation. Ok(info) = (healthy, nontrivial)
fn c33_check(rt: &tokio::runtime::Runtime, case: &ClCase) -> Result<Option<(bool, bool, bool)>, String> {
    let out = match c33_eval(rt, case)? {
        Some(o) => o,
        None => return Ok(None),
    };
    let m = &out.model;
    let voters = m.voters();
    let active_voters: BTreeSet<u64> = voters.intersection(&m.active).cloned().collect();
    let conflicting = m.conflicting();
    let nontrivial = m.has_dup() || (voters.len() % 2 == 0 && active_voters.len() * 2 == voters.len());
    if out.healthy && conflicting {
        // An id listed as learner and as voter: the property's "distinct voters" is read with the
        // weakest sound oracle. Every id whose LATEST add_node says voter is a voter (re-adding a
        // learner as voter is the only promotion there is); an id with an older voter entry and a
        // later learner entry may or may not count. Healthy must be justified by SOME voter set
        // between those two bounds.
        if !out.leader_known {
            return Err(format!("reported healthy without a known leader; entries={:?} active={:?}", m.entries, m.active));
        }
        let mut latest: BTreeMap<u64, bool> = BTreeMap::new();
        for (id, v) in &m.entries {
            latest.insert(*id, *v);
        }
        let vmin: BTreeSet<u64> = latest.iter().filter(|e| *e.1).map(|e| *e.0).collect();
        let optional: Vec<u64> = voters.difference(&vmin).cloned().collect();
        let mut justified = false;
        for mask in 0..(1u32 << optional.len()) {
            let mut v = vmin.clone();
            for (i, id) in optional.iter().enumerate() {
                if mask & (1 << i) != 0 {
                    v.insert(*id);
                }
            }
            let a = v.intersection(&m.active).count();
            if !v.is_empty() && a * 2 > v.len() {
                justified = true;
                break;
            }
        }
        if !justified {
            return Err(format!(
                "reported healthy but no reading of the voter set justifies it: ids whose latest add_node says voter={:?}, ids with an older voter entry={:?}, active={:?}; config entries={:?}",
                vmin, optional, m.active, m.entries
            ));
        }
    }
    if out.healthy && !conflicting {
        if !out.leader_known {
            return Err(format!("reported healthy without a known leader; voters={voters:?} active={:?}", m.active));
        }
        if active_voters.len() * 2 <= voters.len() {
            return Err(format!(
                "reported healthy with {} of {} distinct voters active (not a strict majority); config entries={:?} active={:?}",
                active_voters.len(),
                voters.len(),
                m.entries,
                m.active
            ));
        }
    }
    Ok(Some((out.healthy, nontrivial, conflicting)))
}

fn c33(args: &Args) {
    let mut ev = Evidence::new(
        args,
        "exploration",
        "bounded-exhaustive: initial configurations over ids 1..=N (absent/voter/learner, optionally one repeated id) x op sequences (add_node incl. existing id, remove_node, mark_active, mark_inactive) x every active subset x {no leader, each id as leader}; oracle healthy => leader known and |distinct active voters|*2 > |distinct voters|, plus pairwise intersection of all healthy active sets per configuration. Non-trivial = configuration holds a repeated id or the active voters are exactly half; distinct = distinct (config, ops, active set, leader) cases.",
    );
    ev.assume("an id listed both as voter and learner (class conflicting_flags): ids whose latest add_node says voter must count as voters, ids with an older voter entry and a later learner entry may count either way; healthy must be justified by a strict majority of some voter set between those bounds");
    let rt = tokio::runtime::Builder::new_current_thread().build().unwrap();

    if let Some(p) = &args.replay {
        let case: ClCase = serde_json::from_value(load_replay(p)).expect("replay case");
        ev.case();
        match catch(|| c33_check(&rt, &case)) {
            Ok(Ok(_)) => println!("replay: property held"),
            Ok(Err(m)) | Err(m) => {
                report_violation(&mut ev, &json!(case), &m);
            }
        }
        ev.nontrivial(&case);
        ev.nontrivial(&"replay");
        ev.sample(json!(case));
        finish(&ev);
    }

    let max_id: u64 = args.tier.pick(4, 5);
    let depth: usize = args.tier.pick(2, 3);
    // initial configurations
    let mut initials: Vec<Vec<(u64, bool)>> = Vec::new();
    let n = max_id as usize;
    for code in 0..3usize.pow(n as u32) {
        let mut c = code;
        let mut cfg = Vec::new();
        for id in 1..=max_id {
            match c % 3 {
                1 => cfg.push((id, true)),
                2 => cfg.push((id, false)),
                _ => {}
            }
            c /= 3;
        }
        if cfg.iter().any(|e| e.1) {
            initials.push(cfg.clone());
            // variant with the first voter repeated in the initial configuration
            let fv = cfg.iter().find(|e| e.1).unwrap().0;
            let mut dup = cfg.clone();
            dup.insert(0, (fv, true));
            initials.push(dup);
        }
    }
    let mut op_alphabet: Vec<ClOp> = Vec::new();
    for id in 1..=max_id.min(3) {
        op_alphabet.push(ClOp::Add { id, voter: true });
        op_alphabet.push(ClOp::Add { id, voter: false });
        op_alphabet.push(ClOp::Remove(id));
    }
    op_alphabet.push(ClOp::Active(1));
    op_alphabet.push(ClOp::Inactive(1));
    // op sequences up to depth
    let mut seqs: Vec<Vec<ClOp>> = vec![vec![]];
    let mut frontier: Vec<Vec<ClOp>> = vec![vec![]];
    for _ in 0..depth {
        let mut next = Vec::new();
        for s in &frontier {
            for o in &op_alphabet {
                let mut s2 = s.clone();
                s2.push(o.clone());
                next.push(s2);
            }
        }
        seqs.extend(next.iter().cloned());
        frontier = next;
    }
    // quick tier: all sequences to depth 1 on every initial config, depth 2 on a stride of configs
    let mut failure: Option<(ClCase, String)> = None;
    let mut healthy_reports = 0u64;
    'outer: for (ci, initial) in initials.iter().enumerate() {
        for (si, ops) in seqs.iter().enumerate() {
            if args.tier == Tier::Quick && ops.len() == 2 && false {
                continue;
            }
            if args.tier == Tier::Thorough && ops.len() == 3 && (ci + si) % 16 != 0 {
                continue;
            }
            let mut healthy_sets: Vec<(BTreeSet<u64>, ClCase)> = Vec::new();
            for mask in 0..(1u32 << max_id) {
                let active: Vec<u64> = (1..=max_id).filter(|id| mask & (1 << (id - 1)) != 0).collect();
                let mut leaders: Vec<Option<u64>> = vec![None];
                for id in 1..=max_id {
                    leaders.push(Some(id));
                }
                for leader in leaders {
                    let case = ClCase { initial: initial.clone(), ops: ops.clone(), active: active.clone(), leader };
                    ev.case();
                    match catch(|| c33_check(&rt, &case)) {
                        Ok(Ok(None)) => ev.class("config_refused"),
                        Ok(Ok(Some((healthy, nontrivial, conflicting)))) => {
                            if conflicting {
                                ev.class("conflicting_flags");
                            }
                            if healthy {
                                healthy_reports += 1;
                                ev.class("reported_healthy");
                                if !conflicting {
                                    let out = c33_eval(&rt, &case).unwrap().unwrap();
                                    let av: BTreeSet<u64> = out.model.voters().intersection(&out.model.active).cloned().collect();
                                    healthy_sets.push((av, case.clone()));
                                }
                            }
                            if nontrivial {
                                ev.nontrivial(&case);
                                ev.class("nontrivial");
                                if ev.want_sample() && !case.ops.is_empty() && healthy {
                                    ev.sample(json!(case));
                                }
                            }
                        }
                        Ok(Err(m)) | Err(m) => {
                            failure = Some((case, m));
                            break 'outer;
                        }
                    }
                }
            }
            // direct quorum intersection: any two healthy active-voter sets of one configuration overlap
            for i in 0..healthy_sets.len() {
                for j in i + 1..healthy_sets.len() {
                    if healthy_sets[i].0.is_disjoint(&healthy_sets[j].0) {
                        failure = Some((healthy_sets[j].1.clone(), format!("two disjoint active voter sets both reported healthy: {:?} and {:?}", healthy_sets[i].0, healthy_sets[j].0)));
                        break 'outer;
                    }
                }
            }
        }
    }
    ev.set("healthy_reports", json!(healthy_reports));
    ev.set("exhaustive_bound", json!({"max_id": max_id, "op_depth": depth, "initial_configs": initials.len(), "op_sequences": seqs.len()}));
    ev.exhaustive = Some(false);
    if ev.samples.is_empty() {
        ev.sample(json!({"initial": initials.last(), "note": "no healthy non-trivial case sampled"}));
    }
    if let Some((case, msg)) = failure {
        // shrink: drop ops, drop initial entries, drop active ids
        let mut best = case;
        let fails = |c: &ClCase| matches!(catch(|| c33_check(&rt, c)), Ok(Err(_)) | Err(_));
        loop {
            let mut changed = false;
            for i in 0..best.ops.len() {
                let mut c = best.clone();
                c.ops.remove(i);
                if fails(&c) {
                    best = c;
                    changed = true;
                    break;
                }
            }
            if changed {
                continue;
            }
            for i in 0..best.initial.len() {
                let mut c = best.clone();
                c.initial.remove(i);
                if fails(&c) {
                    best = c;
                    changed = true;
                    break;
                }
            }
            if changed {
                continue;
            }
            for i in 0..best.active.len() {
                let mut c = best.clone();
                c.active.remove(i);
                if fails(&c) {
                    best = c;
                    changed = true;
                    break;
                }
            }
            if !changed {
                break;
            }
        }
        let msg2 = match catch(|| c33_check(&rt, &best)) {
            Ok(Err(m)) | Err(m) => m,
            _ => msg,
        };
        report_violation(&mut ev, &json!(best), &msg2);
    }
    finish(&ev);
}
