//! C36 — RDF serialisations round-trip every triple set (DESIGN §4 "C36").
//!
//! Generated triple sets (boundary IRIs, shared blank nodes, plain / language-tagged / typed
//! literals with boundary string contents) are serialised with `RdfSerializer::serialize` and
//! parsed back with `RdfParser::parse` in the same format. Oracle: the parsed triples equal the
//! input **as a set**, up to a bijection of blank-node labels (brute force, <= 5 labels, <= 120
//! permutations). N-Triples and Turtle: over the whole domain, errors are violations. RDF/XML:
//! an error (serialiser or parser rejecting the serialiser's output) is accepted only outside the
//! sub-domain RDF/XML can represent; a silent change is a violation everywhere.
use proptest::prelude::*;
use samyama::rdf::{BlankNode, Literal, NamedNode, RdfFormat, RdfObject, RdfParser, RdfPredicate, RdfSerializer, RdfSubject, Triple};
use serde::{Deserialize, Serialize};
use serde_json::json;
use std::collections::{BTreeMap, BTreeSet};
use vcheck::*;

const XSD_STRING: &str = "http://www.w3.org/2001/XMLSchema#string";
const RDF_NS: &str = "http://www.w3.org/1999/02/22-rdf-syntax-ns#";
const KF_WS: &str = "KF-C36-1";
const KF_LI: &str = "KF-C36-2";
const KF_ID: &str = "KF-C36-3";
const KF_COLON: &str = "KF-C36-4";

fn main() {
    let args = parse_args();
    quiet_panics();
    start_watchdog(args.tier.pick(900, 3600));
    match args.prop.as_str() {
        "C36" => c36(&args),
        p => {
            eprintln!("vc_rdf does not serve {p}");
            std::process::exit(2)
        }
    }
}

// ---------------------------------------------------------------------------------------
// case model (independent of the engine's types; serialisable for replay files)

#[derive(Clone, Debug, Serialize, Deserialize, PartialEq, Eq, Hash, PartialOrd, Ord)]
enum Subj {
    Iri(String),
    Blank(String),
}

#[derive(Clone, Debug, Serialize, Deserialize, PartialEq, Eq, Hash, PartialOrd, Ord)]
enum Obj {
    Iri(String),
    Blank(String),
    Plain(String),
    Lang { value: String, lang: String },
    Typed { value: String, datatype: String },
}

#[derive(Clone, Debug, Serialize, Deserialize, PartialEq, Eq, Hash, PartialOrd, Ord)]
struct T3 {
    s: Subj,
    p: String,
    o: Obj,
}

#[derive(Clone, Debug, Serialize, Deserialize, PartialEq, Eq, Hash)]
struct Case {
    triples: Vec<T3>,
}

fn build(t: &T3) -> Result<Triple, String> {
    let s = match &t.s {
        Subj::Iri(i) => RdfSubject::NamedNode(NamedNode::new(i).map_err(|e| format!("subject IRI {i:?}: {e}"))?),
        Subj::Blank(b) => RdfSubject::BlankNode(BlankNode::from_str(b).map_err(|e| format!("blank {b:?}: {e}"))?),
    };
    let p = RdfPredicate::new(&t.p).map_err(|e| format!("predicate {:?}: {e}", t.p))?;
    let o = match &t.o {
        Obj::Iri(i) => RdfObject::NamedNode(NamedNode::new(i).map_err(|e| format!("object IRI {i:?}: {e}"))?),
        Obj::Blank(b) => RdfObject::BlankNode(BlankNode::from_str(b).map_err(|e| format!("blank {b:?}: {e}"))?),
        Obj::Plain(v) => RdfObject::Literal(Literal::new_simple_literal(v.clone())),
        Obj::Lang { value, lang } => RdfObject::Literal(Literal::new_language_tagged_literal(value.clone(), lang.clone()).map_err(|e| format!("lang {lang:?}: {e}"))?),
        Obj::Typed { value, datatype } => RdfObject::Literal(Literal::new_typed_literal(value.clone(), NamedNode::new(datatype).map_err(|e| format!("datatype {datatype:?}: {e}"))?)),
    };
    Ok(Triple::new(s, p, o))
}

/// Read an engine triple back into the model through its public accessors. A typed literal
/// whose datatype is xsd:string *is* a simple literal in RDF 1.1, so both map to `Plain`.
fn unbuild(t: &Triple) -> T3 {
    let s = match &t.subject {
        RdfSubject::NamedNode(n) => Subj::Iri(n.as_str().to_string()),
        RdfSubject::BlankNode(b) => Subj::Blank(b.as_str().to_string()),
    };
    let p = t.predicate.as_named_node().as_str().to_string();
    let o = match &t.object {
        RdfObject::NamedNode(n) => Obj::Iri(n.as_str().to_string()),
        RdfObject::BlankNode(b) => Obj::Blank(b.as_str().to_string()),
        RdfObject::Literal(l) => {
            if let Some(lang) = l.language() {
                Obj::Lang { value: l.value().to_string(), lang: lang.to_string() }
            } else {
                let dt = l.datatype();
                if dt.as_str() == XSD_STRING {
                    Obj::Plain(l.value().to_string())
                } else {
                    Obj::Typed { value: l.value().to_string(), datatype: dt.as_str().to_string() }
                }
            }
        }
    };
    T3 { s, p, o }
}

fn blanks(ts: &BTreeSet<T3>) -> Vec<String> {
    let mut out = BTreeSet::new();
    for t in ts {
        if let Subj::Blank(b) = &t.s {
            out.insert(b.clone());
        }
        if let Obj::Blank(b) = &t.o {
            out.insert(b.clone());
        }
    }
    out.into_iter().collect()
}

fn rename(ts: &BTreeSet<T3>, map: &BTreeMap<&str, &str>) -> BTreeSet<T3> {
    ts.iter()
        .map(|t| {
            let mut t = t.clone();
            if let Subj::Blank(b) = &t.s {
                t.s = Subj::Blank(map[b.as_str()].to_string());
            }
            if let Obj::Blank(b) = &t.o {
                t.o = Obj::Blank(map[b.as_str()].to_string());
            }
            t
        })
        .collect()
}

/// `got` equals `want` as a set up to a bijection of blank-node labels.
fn iso(want: &BTreeSet<T3>, got: &BTreeSet<T3>) -> bool {
    if want.len() != got.len() {
        return false;
    }
    let wb = blanks(want);
    let gb = blanks(got);
    if wb.len() != gb.len() {
        return false;
    }
    if wb.is_empty() {
        return want == got;
    }
    if wb.len() > 6 {
        // outside the generator's bound; compare by identity only
        return want == got;
    }
    // Heap-free permutation enumeration over indices (n <= 6)
    let n = wb.len();
    let mut idx: Vec<usize> = (0..n).collect();
    loop {
        let map: BTreeMap<&str, &str> = (0..n).map(|i| (gb[i].as_str(), wb[idx[i]].as_str())).collect();
        if &rename(got, &map) == want {
            return true;
        }
        // next lexicographic permutation
        let mut i = n - 1;
        while i > 0 && idx[i - 1] >= idx[i] {
            i -= 1;
        }
        if i == 0 {
            return false;
        }
        let mut j = n - 1;
        while idx[j] <= idx[i - 1] {
            j -= 1;
        }
        idx.swap(i - 1, j);
        idx[i..].reverse();
    }
}

// ---------------------------------------------------------------------------------------
// XML-representable sub-domain (XML 1.0 fifth edition + RDF/XML syntax), stated independently
// of rio_xml's code.

fn is_xml_char(c: char) -> bool {
    matches!(c, '\u{9}' | '\u{A}' | '\u{D}' | '\u{20}'..='\u{D7FF}' | '\u{E000}'..='\u{FFFD}' | '\u{10000}'..='\u{10FFFF}')
}

fn is_ncname_start(c: char) -> bool {
    matches!(c,
        'A'..='Z' | '_' | 'a'..='z' | '\u{C0}'..='\u{D6}' | '\u{D8}'..='\u{F6}' | '\u{F8}'..='\u{2FF}' | '\u{370}'..='\u{37D}'
        | '\u{37F}'..='\u{1FFF}' | '\u{200C}'..='\u{200D}' | '\u{2070}'..='\u{218F}' | '\u{2C00}'..='\u{2FEF}' | '\u{3001}'..='\u{D7FF}'
        | '\u{F900}'..='\u{FDCF}' | '\u{FDF0}'..='\u{FFFD}' | '\u{10000}'..='\u{EFFFF}')
}

fn is_ncname_char(c: char) -> bool {
    is_ncname_start(c) || matches!(c, '-' | '.' | '0'..='9' | '\u{B7}' | '\u{300}'..='\u{36F}' | '\u{203F}'..='\u{2040}')
}

fn is_ncname(s: &str) -> bool {
    let mut it = s.chars();
    match it.next() {
        Some(c) if is_ncname_start(c) => it.all(is_ncname_char),
        _ => false,
    }
}

/// The IRI can be written as namespace + NCName (a property element needs a QName).
fn splittable(iri: &str) -> bool {
    // the longest suffix of NCName characters, then its first NCName start character
    let chars: Vec<char> = iri.chars().collect();
    let mut start = chars.len();
    while start > 0 && is_ncname_char(chars[start - 1]) {
        start -= 1;
    }
    start > 0 && chars[start..].iter().any(|c| is_ncname_start(*c))
}

/// rdf: names that RDF/XML forbids or reinterprets as property element names
/// (coreSyntaxTerms, rdf:Description, oldTerms; rdf:li means rdf:_n).
fn rdf_reserved(iri: &str) -> bool {
    if let Some(local) = iri.strip_prefix(RDF_NS) {
        matches!(local, "RDF" | "ID" | "about" | "parseType" | "resource" | "nodeID" | "datatype" | "Description" | "aboutEach" | "aboutEachPrefix" | "bagID" | "li")
    } else {
        false
    }
}

fn literal_value(o: &Obj) -> Option<&str> {
    match o {
        Obj::Plain(v) => Some(v),
        Obj::Lang { value, .. } => Some(value),
        Obj::Typed { value, .. } => Some(value),
        _ => None,
    }
}

/// Reasons why the set is outside what RDF/XML can carry (empty = representable).
fn xml_outside(ts: &BTreeSet<T3>) -> Vec<&'static str> {
    let mut why = BTreeSet::new();
    for t in ts {
        if !splittable(&t.p) {
            why.insert("predicate_not_qname");
        }
        if rdf_reserved(&t.p) {
            why.insert("predicate_rdf_reserved");
        }
        if let Some(v) = literal_value(&t.o) {
            if !v.chars().all(is_xml_char) {
                why.insert("literal_non_xml_char");
            }
        }
    }
    why.into_iter().collect()
}

fn non_ncname_blanks(ts: &BTreeSet<T3>) -> Vec<String> {
    blanks(ts).into_iter().filter(|b| !is_ncname(b)).collect()
}

fn ws_only(s: &str) -> bool {
    !s.is_empty() && s.chars().all(|c| matches!(c, ' ' | '\t' | '\n' | '\r'))
}

fn needs_escape(s: &str) -> bool {
    s.chars().any(|c| matches!(c, '"' | '\\' | '\n' | '\r' | '<' | '>' | '&') || (c as u32) < 0x20)
}

/// Quirk switch KF-C36-1: RDF/XML reads a literal made only of XML white space as "".
fn quirk_ws(ts: &BTreeSet<T3>) -> BTreeSet<T3> {
    ts.iter()
        .map(|t| {
            let mut t = t.clone();
            t.o = match t.o {
                Obj::Plain(v) if ws_only(&v) => Obj::Plain(String::new()),
                Obj::Lang { value, lang } if ws_only(&value) => Obj::Lang { value: String::new(), lang },
                Obj::Typed { value, datatype } if ws_only(&value) => Obj::Typed { value: String::new(), datatype },
                o => o,
            };
            t
        })
        .collect()
}

/// Quirk switch KF-C36-2: RDF/XML reads the property element rdf:li as rdf:_n, n counting the
/// rdf:li elements inside one rdf:Description element (the formatter opens a new
/// rdf:Description whenever the subject differs from the previous triple's).
fn quirk_li(list: &[T3]) -> BTreeSet<T3> {
    let li = format!("{RDF_NS}li");
    let mut out = BTreeSet::new();
    let mut prev: Option<&Subj> = None;
    let mut n = 0u32;
    for t in list {
        if prev != Some(&t.s) {
            n = 0;
        }
        prev = Some(&t.s);
        let mut t2 = t.clone();
        if t.p == li {
            n += 1;
            t2.p = format!("{RDF_NS}_{n}");
        }
        out.insert(t2);
    }
    out
}

// ---------------------------------------------------------------------------------------
// the check

#[derive(Default)]
struct Info {
    refusals: u32,
    kf: Vec<&'static str>,
    classes: Vec<String>,
    notes: Vec<String>,
}

const FORMATS: [(RdfFormat, &str); 3] = [(RdfFormat::NTriples, "ntriples"), (RdfFormat::Turtle, "turtle"), (RdfFormat::RdfXml, "rdfxml")];

/// Ok(info) = property held (possibly via accepted refusals / enabled known-finding matchers);
/// Err(msg) = violation.
fn check_case(case: &Case, kf: &Known) -> Result<Info, String> {
    let mut info = Info::default();
    let mut engine: Vec<Triple> = Vec::with_capacity(case.triples.len());
    for t in &case.triples {
        match build(t) {
            Ok(tr) => engine.push(tr),
            Err(e) => return Err(format!("GENERATOR: term rejected by the constructors: {e}")),
        }
    }
    // the set as the engine's own types hold it (language tags lower-cased, xsd:string == plain)
    let held: Vec<T3> = engine.iter().map(unbuild).collect();
    let want: BTreeSet<T3> = held.iter().cloned().collect();
    let outside = xml_outside(&want);

    for (fmt, name) in FORMATS {
        let is_xml = name == "rdfxml";
        let text = match catch(|| RdfSerializer::serialize(&engine, fmt)) {
            Err(p) => return Err(format!("{name}: serializer panicked: {p}")),
            Ok(Err(e)) => {
                if is_xml && !outside.is_empty() {
                    info.refusals += 1;
                    info.classes.push(format!("rdfxml_serializer_refused:{}", outside.join("+")));
                    info.notes.push(format!("{name}: serializer refused (accepted, outside sub-domain {outside:?}): {e}"));
                    continue;
                }
                return Err(format!("{name}: serializer refused a representable set: {e}"));
            }
            Ok(Ok(s)) => s,
        };
        let parsed = match catch(|| RdfParser::parse(&text, fmt)) {
            Err(p) => return Err(format!("{name}: parser panicked on the serializer's output: {p}\n--- output ---\n{text}")),
            Ok(Err(e)) => {
                // KF-C36-3: a blank-node label that is not an XML NCName is copied into rdf:nodeID
                // and the parser rejects exactly that label
                if is_xml && kf.active(KF_ID) {
                    let msg = e.to_string();
                    if non_ncname_blanks(&want).iter().any(|b| msg == format!("Parse error: {b} is not a valid rdf:nodeID value")) {
                        info.kf.push(KF_ID);
                        continue;
                    }
                }
                // KF-C36-4: BlankNode::from_str accepts ':' in a label (N-Triples 1.1 grammar); the
                // formatters copy it and every parser rejects the result
                if kf.active(KF_COLON) && blanks(&want).iter().any(|b| b.contains(':')) {
                    info.kf.push(KF_COLON);
                    info.notes.push(format!("{name}: parser refused the serializer's output (KF-C36-4): {e}"));
                    continue;
                }
                if is_xml && !outside.is_empty() {
                    info.refusals += 1;
                    info.classes.push(format!("rdfxml_parser_refused:{}", outside.join("+")));
                    info.notes.push(format!("{name}: parser refused the serializer's output (accepted, outside sub-domain {outside:?}): {e}"));
                    continue;
                }
                return Err(format!("{name}: parser rejected the serializer's output: {e}\n--- output ---\n{text}"));
            }
            Ok(Ok(v)) => v,
        };
        let got: BTreeSet<T3> = parsed.iter().map(unbuild).collect();
        if iso(&want, &got) {
            continue;
        }
        // silent change: only an enabled known-finding quirk may explain it, and exactly
        if is_xml {
            if kf.active(KF_WS) && want.iter().any(|t| literal_value(&t.o).map(ws_only).unwrap_or(false)) && iso(&quirk_ws(&want), &got) {
                info.kf.push(KF_WS);
                continue;
            }
            if kf.active(KF_LI) && outside.contains(&"predicate_rdf_reserved") {
                let q = quirk_li(&held);
                if iso(&q, &got) || (kf.active(KF_WS) && iso(&quirk_ws(&q), &got)) {
                    info.kf.push(KF_LI);
                    continue;
                }
            }
        }
        let missing: Vec<&T3> = want.difference(&got).take(4).collect();
        let extra: Vec<&T3> = got.difference(&want).take(4).collect();
        return Err(format!(
            "{name}: parse(serialize(T)) != T as a set (up to blank-node bijection): {} triples in, {} out; in-not-out (by label) {:?}; out-not-in {:?}{}\n--- output ---\n{}",
            want.len(),
            got.len(),
            missing,
            extra,
            if is_xml && !outside.is_empty() { format!(" [outside the RDF/XML sub-domain: {outside:?} - an error would be accepted, a silent change is not]") } else { String::new() },
            truncate(&text, 1500)
        ));
    }
    Ok(info)
}

fn classify(case: &Case) -> (Vec<&'static str>, bool) {
    let set: BTreeSet<T3> = case.triples.iter().cloned().collect();
    let mut c = Vec::new();
    if case.triples.is_empty() {
        c.push("empty_set");
    }
    if set.len() != case.triples.len() {
        c.push("duplicate_triples");
    }
    let mut uses: BTreeMap<&str, (u32, bool, bool)> = BTreeMap::new();
    for t in &case.triples {
        if let Subj::Blank(b) = &t.s {
            let e = uses.entry(b).or_default();
            e.0 += 1;
            e.1 = true;
        }
        if let Obj::Blank(b) = &t.o {
            let e = uses.entry(b).or_default();
            e.0 += 1;
            e.2 = true;
        }
    }
    let has_blank = !uses.is_empty();
    if has_blank {
        c.push("blank_node");
    }
    if uses.values().any(|u| u.0 >= 2) {
        c.push("blank_shared");
    }
    if uses.values().any(|u| u.1 && u.2) {
        c.push("blank_subject_and_object");
    }
    if uses.len() >= 3 {
        c.push("blank_3plus_labels");
    }
    if uses.keys().any(|b| !is_ncname(b)) {
        c.push("blank_label_not_ncname");
    }
    if uses.keys().any(|b| b.contains(':')) {
        c.push("blank_label_colon");
    }
    let mut esc = false;
    for t in &case.triples {
        match &t.o {
            Obj::Lang { .. } => c.push("lit_lang"),
            Obj::Typed { datatype, .. } => c.push(if datatype.starts_with("http://www.w3.org/2001/XMLSchema#") { "lit_typed_xsd" } else { "lit_typed_custom" }),
            Obj::Plain(_) => c.push("lit_plain"),
            _ => {}
        }
        if let Some(v) = literal_value(&t.o) {
            if needs_escape(v) {
                esc = true;
                c.push("lit_needs_escape");
            }
            if ws_only(v) {
                c.push("lit_whitespace_only");
            }
            if v.is_empty() {
                c.push("lit_empty");
            }
            if v.chars().any(|ch| (ch as u32) < 0x20 && !matches!(ch, '\t' | '\n' | '\r')) {
                c.push("lit_control_char");
            }
            if v.chars().any(|ch| (ch as u32) >= 0x10000) {
                c.push("lit_astral");
            }
            if !v.chars().all(is_xml_char) {
                c.push("lit_non_xml_char");
            }
        }
        if !splittable(&t.p) {
            c.push("pred_not_qname");
        }
        if rdf_reserved(&t.p) {
            c.push("pred_rdf_reserved");
        }
        if !t.p.is_ascii() {
            c.push("pred_non_ascii");
        }
    }
    c.sort();
    c.dedup();
    (c, has_blank && esc)
}

// ---------------------------------------------------------------------------------------
// generator

const IRIS: &[&str] = &[
    "http://example.org/a",
    "http://example.org/b",
    "http://example.org/a#frag",
    "http://example.org/a%20b",
    "http://example.org/%C3%A9",
    "http://example.org/\u{fc}ber",
    "http://\u{e9}xample.org/\u{3c0}",
    "http://example.org/\u{65e5}\u{672c}",
    "http://example.org/\u{10348}",
    "http://example.org/q?x=1&y=2",
    "http://example.org/it's",
    "http://example.org/a(b)c",
    "http://example.org/a;b,c=d",
    "http://example.org/",
    "urn:isbn:0451450523",
    "mailto:a@example.org",
    "x:y",
];

const PREDS: &[&str] = &[
    "http://example.org/p",
    "http://example.org/q",
    "http://xmlns.com/foaf/0.1/name",
    "http://example.org/ns#prop",
    "http://www.w3.org/1999/02/22-rdf-syntax-ns#type",
    "http://www.w3.org/1999/02/22-rdf-syntax-ns#_1",
    "http://www.w3.org/1999/02/22-rdf-syntax-ns#value",
    "http://example.org/p-1.x",
    "http://example.org/\u{e9}t\u{e9}",
    "http://example.org/ns#\u{3c0}",
    "http://example.org/a/b_c",
    "http://example.org/1abc",
    "http://example.org/-a",
    "urn:p:q",
    "http://example.org/p%20q",
    // local part is not an XML name: not expressible as a property element
    "http://example.org/",
    "http://example.org/123",
    "http://example.org/p?x=1",
    "http://example.org/a%20",
    "http://example.org/ns#",
    // rdf: names RDF/XML reserves
    "http://www.w3.org/1999/02/22-rdf-syntax-ns#li",
    "http://www.w3.org/1999/02/22-rdf-syntax-ns#Description",
    "http://www.w3.org/1999/02/22-rdf-syntax-ns#about",
];
/// weights: the first 15 (representable) are drawn 8x as often as the rest
const PREDS_REPRESENTABLE: usize = 15;

const DATATYPES: &[&str] = &[
    "http://www.w3.org/2001/XMLSchema#integer",
    "http://www.w3.org/2001/XMLSchema#string",
    "http://www.w3.org/2001/XMLSchema#dateTime",
    "http://www.w3.org/2001/XMLSchema#boolean",
    "http://www.w3.org/1999/02/22-rdf-syntax-ns#XMLLiteral",
    "http://www.w3.org/1999/02/22-rdf-syntax-ns#HTML",
    "http://example.org/dt#my",
    "http://example.org/dt/\u{fc}",
    "http://example.org/dt?a=1&b=2",
    "urn:dt:x",
];

const LANGS: &[&str] = &["en", "en-us", "EN-GB", "de-ch-1901", "zh-hant", "zh-Hant-CN", "x-priv", "fr"];

/// label families; every case draws its (<= 5) labels from one family
const BLANKS: &[[&str; 5]] = &[["b0", "b1", "b2", "b3", "b4"], ["x", "a.b", "n-1", "_u", "x\u{e9}"], ["0", "1", "0a", "ff", "deadbeef"], ["B", "b", "bb", "b_b", "b1b"], ["a:b", ":c", "b0", "b1", "b2"]];
/// family weights (the colon family is rare: it fails in every format today, KF-C36-4)
const BLANK_FAMILY_WEIGHTS: [u32; 5] = [6, 6, 3, 4, 1];

const FRAGS: &[&str] = &[
    "a", "b", " ", "  ", "\n", "\r", "\r\n", "\t", "\"", "\"\"\"", "'", "'''", "\\", "\\n", "\\u0041", "\\\\", "<", ">", "&", "&amp;", "&#10;", "&lt;", "]]>", "<![CDATA[", "<!--", "<a>", "</a>", "\u{0}", "\u{1}", "\u{8}", "\u{b}", "\u{c}", "\u{e}",
    "\u{1f}", "\u{7f}", "\u{85}", "\u{a0}", "\u{2028}", "\u{2029}", "\u{feff}", "\u{fffd}", "\u{fffe}", "\u{ffff}", "\u{d7ff}", "\u{e000}", "\u{10000}", "\u{1f600}", "\u{10ffff}", "e\u{301}", "\u{301}", "\u{e9}", "\u{65e5}", "#", "@en", "^^", "_:b0", ".", ";", ",", "%20", "{", "}",
];

const WS: &[&str] = &[" ", "\n", "\r", "\t", "  ", "\r\n", " \n\t", "\n\n"];

fn lit_string() -> BoxedStrategy<String> {
    prop_oneof![
        4 => vcheck::values::string_strategy(),
        4 => proptest::collection::vec(proptest::sample::select(FRAGS), 0..5).prop_map(|v| v.concat()),
        1 => proptest::sample::select(WS).prop_map(|s| s.to_string()),
    ]
    .boxed()
}

#[derive(Clone, Debug)]
enum RawNode {
    Iri(usize),
    Blank(usize),
}

#[derive(Clone, Debug)]
enum RawObj {
    Node(RawNode),
    Plain(String),
    Lang(String, usize),
    Typed(String, usize),
}

fn raw_node() -> BoxedStrategy<RawNode> {
    prop_oneof![3 => (0..IRIS.len()).prop_map(RawNode::Iri), 3 => (0..5usize).prop_map(RawNode::Blank)].boxed()
}

fn case_strategy(max_triples: usize) -> BoxedStrategy<Case> {
    let pred = prop_oneof![8 => 0..PREDS_REPRESENTABLE, 1 => PREDS_REPRESENTABLE..PREDS.len()];
    let obj = prop_oneof![
        3 => raw_node().prop_map(RawObj::Node),
        3 => lit_string().prop_map(RawObj::Plain),
        2 => (lit_string(), 0..LANGS.len()).prop_map(|(s, l)| RawObj::Lang(s, l)),
        2 => (lit_string(), 0..DATATYPES.len()).prop_map(|(s, d)| RawObj::Typed(s, d)),
    ];
    // `dups`: up to two triples are repeated (the input is a list, the property is about the set)
    let family = prop_oneof![
        BLANK_FAMILY_WEIGHTS[0] => Just(0usize),
        BLANK_FAMILY_WEIGHTS[1] => Just(1usize),
        BLANK_FAMILY_WEIGHTS[2] => Just(2usize),
        BLANK_FAMILY_WEIGHTS[3] => Just(3usize),
        BLANK_FAMILY_WEIGHTS[4] => Just(4usize),
    ];
    (family, proptest::collection::vec((raw_node(), pred, obj), 0..=max_triples), proptest::collection::vec(any::<u16>(), 0..3), 0u8..4)
        .prop_map(|(family, raws, dups, dup_gate)| {
            let lab = |i: usize| BLANKS[family][i].to_string();
            let triples = raws
                .into_iter()
                .map(|(s, p, o)| T3 {
                    s: match s {
                        RawNode::Iri(i) => Subj::Iri(IRIS[i].to_string()),
                        RawNode::Blank(i) => Subj::Blank(lab(i)),
                    },
                    p: PREDS[p].to_string(),
                    o: match o {
                        RawObj::Node(RawNode::Iri(i)) => Obj::Iri(IRIS[i].to_string()),
                        RawObj::Node(RawNode::Blank(i)) => Obj::Blank(lab(i)),
                        RawObj::Plain(s) => Obj::Plain(s),
                        RawObj::Lang(s, l) => Obj::Lang { value: s, lang: LANGS[l].to_string() },
                        RawObj::Typed(s, d) => Obj::Typed { value: s, datatype: DATATYPES[d].to_string() },
                    },
                })
                .collect::<Vec<T3>>();
            let mut triples = triples;
            if dup_gate == 0 && !triples.is_empty() {
                for d in dups {
                    let t = triples[pick_idx(d, triples.len())].clone();
                    let at = pick_idx(d.rotate_left(7), triples.len() + 1);
                    triples.insert(at, t);
                }
            }
            Case { triples }
        })
        .boxed()
}

// ---------------------------------------------------------------------------------------

fn c36(args: &Args) {
    let mut ev = Evidence::new(
        args,
        "exploration",
        "random triple lists (0-12 triples, occasionally with repeated triples; boundary IRIs; <= 5 blank-node labels used as subject and object and shared; plain / language-tagged / typed literals over boundary strings) serialised and re-parsed in N-Triples, Turtle and RDF/XML; oracle parse(serialize(T,f),f) == T as a set up to a blank-node bijection (RDF/XML: errors accepted only outside the XML-representable sub-domain, silent changes never). One evaluation = one (set, format) round trip. Non-trivial = the set contains a blank node and a literal with a character that needs escaping (quote, backslash, CR, LF, <, >, &, or a C0 control); distinct = distinct sets.",
    );
    ev.assume("domain = triples constructible through the public constructors (NamedNode::new, BlankNode::from_str, Literal::new_*): IRIs valid per RFC 3987, language tags valid per BCP 47 (held lower-cased), no rdf:langString-typed literal without a tag");
    ev.assume("RDF/XML-representable sub-domain: every predicate IRI ends in an XML NCName and is not an rdf: name the RDF/XML grammar reserves (coreSyntaxTerms, Description, oldTerms, li); every literal character is an XML 1.0 Char (blank-node labels are not part of the abstract syntax: any labelling is representable). Outside it a serializer or parser error is counted as a refusal; a silent change is still a violation");
    let kf = Known::load(args);

    if let Some(p) = &args.replay {
        let case: Case = serde_json::from_value(load_replay(p)).expect("replay case");
        ev.cases(3);
        // replays are judged by the strict oracle unless the finding is listed and its own
        // witness still fails (same rule as in the search)
        enable_known(&kf, &mut ev);
        match check_case(&case, &kf) {
            Ok(info) => {
                for id in info.kf {
                    ev.kf_hit(id);
                }
                for n in &info.notes {
                    eprintln!("  note: {n}");
                }
                println!("replay: property held{}", if ev.kf_hits.is_empty() { "" } else { " (explained by a listed known finding)" });
            }
            Err(m) => {
                report_violation(&mut ev, &json!(case), &m);
            }
        }
        ev.nontrivial(&case);
        ev.nontrivial(&"replay");
        ev.sample(json!(case));
        finish(&ev);
    }

    enable_known(&kf, &mut ev);

    // committed regression inputs first
    for (p, v) in corpus_cases("C36") {
        let case: Case = serde_json::from_value(v).expect("corpus case");
        ev.cases(3);
        ev.class("corpus");
        match check_case(&case, &kf) {
            Ok(info) => {
                for id in info.kf {
                    ev.kf_hit(id);
                }
                if classify(&case).1 {
                    ev.nontrivial(&case);
                }
            }
            Err(m) => {
                report_violation(&mut ev, &json!(case), &format!("{m} (corpus {})", p.display()));
                finish(&ev);
            }
        }
    }

    let n = args.tier.pick(200_000u32, 3_000_000u32);
    let strat = case_strategy(12);
    let evc = std::cell::RefCell::new(&mut ev);
    let res = search(args.seed, n, &strat, |case| {
        let mut e = evc.borrow_mut();
        e.cases(3);
        let (classes, nontrivial) = classify(case);
        for c in &classes {
            e.class(c);
        }
        match check_case(case, &kf) {
            Ok(info) => {
                for id in &info.kf {
                    e.kf_hit(id);
                }
                for c in &info.classes {
                    e.class(c);
                }
                for _ in 0..info.refusals {
                    e.refusal();
                }
                if nontrivial {
                    e.nontrivial(case);
                    e.class("nontrivial");
                    if e.want_sample() && case.triples.len() <= 4 {
                        e.sample(json!(case));
                    }
                }
                Ok(())
            }
            Err(m) => {
                e.frozen = true;
                Err(m)
            }
        }
    });
    drop(evc);
    if let Some((case, msg)) = res {
        // proptest has shrunk the generator choices; finish with a greedy pass on the model
        let fails = |c: &Case| check_case(c, &kf).is_err();
        let mut best = case;
        let ts = shrink_vec(best.triples.clone(), &|cand: &[T3]| fails(&Case { triples: cand.to_vec() }));
        best.triples = ts;
        // shorten literal values character by character
        loop {
            let mut changed = false;
            for i in 0..best.triples.len() {
                let val = match literal_value(&best.triples[i].o) {
                    Some(v) => v.to_string(),
                    None => continue,
                };
                let chars: Vec<char> = val.chars().collect();
                for k in 0..chars.len() {
                    let cand_v: String = chars.iter().enumerate().filter(|(j, _)| *j != k).map(|(_, c)| *c).collect();
                    let mut cand = best.clone();
                    cand.triples[i].o = match &best.triples[i].o {
                        Obj::Plain(_) => Obj::Plain(cand_v),
                        Obj::Lang { lang, .. } => Obj::Lang { value: cand_v, lang: lang.clone() },
                        Obj::Typed { datatype, .. } => Obj::Typed { value: cand_v, datatype: datatype.clone() },
                        o => o.clone(),
                    };
                    if fails(&cand) {
                        best = cand;
                        changed = true;
                        break;
                    }
                }
                if changed {
                    break;
                }
            }
            if !changed {
                break;
            }
        }
        let msg2 = check_case(&best, &kf).err().unwrap_or(msg);
        report_violation(&mut ev, &json!(best), &msg2);
    }
    finish(&ev);
}

/// Replay the witness of every open finding through the strict oracle (no matcher enabled
/// yet); enable a matcher only when its witness still fails.
fn enable_known(kf: &Known, ev: &mut Evidence) {
    let mut results = Vec::new();
    for id in [KF_WS, KF_LI, KF_ID, KF_COLON] {
        if !kf.listed(id) {
            continue;
        }
        // strict: no matcher is active while the witnesses are judged
        let still = match witness_case(kf, id) {
            Some(v) => match serde_json::from_value::<Case>(v) {
                Ok(case) => check_case(&case, kf).is_err(),
                Err(_) => false,
            },
            None => false,
        };
        results.push((id, still));
    }
    for (id, still) in results {
        kf.witness_result(ev, id, still);
    }
}
