//! C35 — parameterised queries never answer differently from inlined literals.
use crate::*;
use samyama::graph::PropertyValue;
use samyama::query::MutQueryExecutor;
use std::collections::HashMap;

pub struct Case {
    pub g: RGraph,
    pub q: Query,
    pub params: BTreeMap<String, V>,
    pub is_write: bool,
    pub template: &'static str,
    /// the final ORDER BY is total (ends in the unique uid): compare row sequences, not bags
    pub ordered: bool,
}

impl Case {
    pub fn to_json(&self) -> serde_json::Value {
        json!({"graph": self.g, "query": self.q, "params": self.params, "is_write": self.is_write, "ordered": self.ordered,
               "text_param": render_query(&self.q), "text_literal": render_query(&inline_params(&self.q, &self.params))})
    }
    pub fn from_json(v: &serde_json::Value) -> Case {
        Case {
            g: serde_json::from_value(v["graph"].clone()).expect("graph"),
            q: serde_json::from_value(v["query"].clone()).expect("query"),
            params: serde_json::from_value(v["params"].clone()).expect("params"),
            is_write: v["is_write"].as_bool().unwrap_or(false),
            template: "replay",
            ordered: v["ordered"].as_bool().unwrap_or(false),
        }
    }
}

fn ret(items: Vec<(E, &str)>) -> Clause {
    Clause::Return { proj: Proj { distinct: false, items: items.into_iter().map(|(e, a)| Item { expr: e, alias: Some(a.to_string()) }).collect(), order: vec![], skip: None, limit: None } }
}
fn node(var: &str) -> PathPat {
    PathPat { name: None, start: NodePat { var: Some(var.into()), labels: vec![], props: vec![] }, steps: vec![], shortest: Shortest::No }
}

pub fn build(tape: &[u16]) -> Case {
    let mut t = gen::Tape::new(tape);
    let g = gen::gen_graph(&mut t);
    let mut qg = QGen::new(&mut t);
    qg.params = Some(BTreeMap::new());
    let which = qg.t.weighted(&[10, 2, 2, 2, 2, 2, 2, 2, 2, 2, 2, 2, 2, 2, 2]);
    let mut ordered = false;
    let pv = |qg: &mut QGen| -> E {
        let v = gen::boundary_param(qg.t);
        qg.new_param(v)
    };
    let dv = |qg: &mut QGen, key: &str| -> E {
        let v = gen::literal_for(key, qg.t);
        qg.new_param(v)
    };
    let (q, is_write, template): (Query, bool, &'static str) = match which {
        1 => {
            // UNWIND $l AS x RETURN x
            let n = qg.t.choose(4);
            let mut items = Vec::new();
            for _ in 0..n {
                items.push(gen::boundary_param(qg.t));
            }
            let l = qg.new_param(V::List(items));
            (Query { parts: vec![vec![Clause::Unwind { expr: l, var: "x".into() }, ret(vec![(E::Var("x".into()), "c0")])]], union_all: false }, false, "unwind_param_list")
        }
        2 => {
            let n = 1 + qg.t.choose(3);
            let mut items = Vec::new();
            for _ in 0..n {
                items.push(gen::literal_for("k", qg.t));
            }
            let l = qg.new_param(V::List(items));
            (
                Query { parts: vec![vec![Clause::Match { optional: false, patterns: vec![node("n")], where_: Some(E::In(Box::new(E::Prop("n".into(), "k".into())), Box::new(l))) }, ret(vec![(E::Prop("n".into(), "uid".into()), "c0")])]], union_all: false },
                false,
                "in_param_list",
            )
        }
        3 => {
            let p = pv(&mut qg);
            (Query { parts: vec![vec![ret(vec![(p, "c0")])]], union_all: false }, false, "return_param")
        }
        4 => {
            let p = pv(&mut qg);
            let key = ["p", "q", "k", "s"][qg.t.choose(4)];
            (
                Query { parts: vec![vec![Clause::Match { optional: false, patterns: vec![node("n")], where_: None }, ret(vec![(E::Func("coalesce".into(), vec![E::Prop("n".into(), key.into()), p]), "c0")])]], union_all: false },
                false,
                "function_argument",
            )
        }
        5 => {
            // write: SET right-hand side
            let a = dv(&mut qg, "k");
            let p = pv(&mut qg);
            (
                Query {
                    parts: vec![vec![
                        Clause::Match { optional: false, patterns: vec![node("n")], where_: Some(E::Cmp(CmpOp::Eq, Box::new(E::Prop("n".into(), "k".into())), Box::new(a))) },
                        Clause::Set { items: vec![SetItem::Prop("n".into(), "z".into(), p)] },
                        ret(vec![(E::Prop("n".into(), "uid".into()), "c0"), (E::Prop("n".into(), "z".into()), "c1")]),
                    ]],
                    union_all: false,
                },
                true,
                "set_rhs",
            )
        }
        6 => {
            // write: CREATE with a parameter in the property map
            let p = pv(&mut qg);
            let pat = PathPat { name: None, start: NodePat { var: Some("n".into()), labels: vec!["N".into()], props: vec![("v".into(), p), ("uid".into(), E::Lit(V::Int(100)))] }, steps: vec![], shortest: Shortest::No };
            (Query { parts: vec![vec![Clause::Create { patterns: vec![pat] }, ret(vec![(E::Prop("n".into(), "v".into()), "c0")])]], union_all: false }, true, "create_property")
        }
        7 => {
            let key = ["p", "q", "k", "s"][qg.t.choose(4)];
            let p = if qg.t.chance(1, 2) { dv(&mut qg, key) } else { pv(&mut qg) };
            let pat = PathPat { name: None, start: NodePat { var: Some("n".into()), labels: vec![], props: vec![(key.into(), p)] }, steps: vec![], shortest: Shortest::No };
            (Query { parts: vec![vec![Clause::Match { optional: false, patterns: vec![pat], where_: None }, ret(vec![(E::Prop("n".into(), "uid".into()), "c0")])]], union_all: false }, false, "inline_pattern_property")
        }
        8 => {
            let p = pv(&mut qg);
            let q2 = pv(&mut qg);
            let proj = Proj { distinct: false, items: vec![Item { expr: p, alias: Some("x".into()) }], order: vec![], skip: None, limit: None };
            let w = if qg.t.chance(1, 2) { Some(E::Cmp(CmpOp::Eq, Box::new(E::Var("x".into())), Box::new(q2))) } else { Some(E::IsNotNull(Box::new(E::Var("x".into())))) };
            (Query { parts: vec![vec![Clause::Match { optional: false, patterns: vec![node("n")], where_: None }, Clause::With { proj, where_: w }, ret(vec![(E::Var("x".into()), "c0")])]], union_all: false }, false, "with_and_with_where")
        }
        9 => {
            let p = pv(&mut qg);
            (Query { parts: vec![vec![ret(vec![(E::ListE(vec![p.clone(), E::Lit(V::Int(1))]), "c0"), (E::IsNull(Box::new(p)), "c1")])]], union_all: false }, false, "list_literal_and_is_null")
        }
        10 => {
            // ORDER BY a projected parameterised expression
            let p = dv(&mut qg, "q");
            let item = E::Func("coalesce".into(), vec![E::Prop("n".into(), "q".into()), p]);
            let proj = Proj { distinct: false, items: vec![Item { expr: item, alias: Some("c0".into()) }, Item { expr: E::Prop("n".into(), "uid".into()), alias: Some("c1".into()) }], order: vec![(E::Var("c0".into()), false), (E::Var("c1".into()), false)], skip: None, limit: None };
            (Query { parts: vec![vec![Clause::Match { optional: false, patterns: vec![node("n")], where_: None }, Clause::Return { proj }]], union_all: false }, false, "order_by_parameterised_item")
        }
        11 | 12 | 13 | 14 => {
            // parameters in every position of a searched CASE (condition, THEN, ELSE), with the
            // CASE used as RETURN item, SET right-hand side, ORDER BY key or inside WHERE
            let a = dv(&mut qg, "k");
            let (b, c) = if which == 13 { (dv(&mut qg, "k"), dv(&mut qg, "k")) } else { (pv(&mut qg), pv(&mut qg)) };
            let cond = match qg.t.choose(3) {
                0 => E::Cmp(CmpOp::Eq, Box::new(E::Prop("n".into(), "k".into())), Box::new(a)),
                1 => E::Cmp(CmpOp::Ge, Box::new(E::Prop("n".into(), "k".into())), Box::new(a)),
                _ => E::Cmp(CmpOp::Lt, Box::new(E::Prop("n".into(), "uid".into())), Box::new(a)),
            };
            let els = if qg.t.chance(1, 5) { None } else { Some(Box::new(c)) };
            let case_e = E::Case(vec![(cond, b)], els);
            let m = Clause::Match { optional: false, patterns: vec![node("n")], where_: None };
            match which {
                11 => (Query { parts: vec![vec![m, ret(vec![(E::Prop("n".into(), "uid".into()), "c0"), (case_e, "c1")])]], union_all: false }, false, "case_in_return"),
                12 => (
                    Query { parts: vec![vec![m, Clause::Set { items: vec![SetItem::Prop("n".into(), "z".into(), case_e)] }, ret(vec![(E::Prop("n".into(), "uid".into()), "c0"), (E::Prop("n".into(), "z".into()), "c1")])]], union_all: false },
                    true,
                    "case_in_set",
                ),
                13 => {
                    ordered = true;
                    let proj = Proj { distinct: false, items: vec![Item { expr: E::Prop("n".into(), "uid".into()), alias: Some("c0".into()) }], order: vec![(case_e, qg.t.chance(1, 2)), (E::Prop("n".into(), "uid".into()), false)], skip: None, limit: None };
                    (Query { parts: vec![vec![m, Clause::Return { proj }]], union_all: false }, false, "case_in_order_by")
                }
                _ => {
                    let d = pv(&mut qg);
                    let w = Some(E::Cmp(CmpOp::Eq, Box::new(case_e), Box::new(d)));
                    (Query { parts: vec![vec![Clause::Match { optional: false, patterns: vec![node("n")], where_: w }, ret(vec![(E::Prop("n".into(), "uid".into()), "c0")])]], union_all: false }, false, "case_in_where")
                }
            }
        }
        _ => {
            let (q, _modes) = qg.read_query();
            (q, false, "grammar_read_query")
        }
    };
    let params = qg.params.clone().unwrap_or_default();
    Case { g, q, params, is_write, template, ordered }
}

fn to_params(p: &BTreeMap<String, V>) -> HashMap<String, PropertyValue> {
    p.iter().map(|(k, v)| (k.clone(), v.to_pv())).collect()
}

enum Out {
    Rows(norm::EngineRows, (Vec<String>, Vec<String>)),
    Refused(String),
    Panicked(String),
}

fn run_one(g: &RGraph, text: &str, params: Option<&BTreeMap<String, V>>, is_write: bool) -> Out {
    let mut built = build_store(g);
    let node_ids = built.node_ids.clone();
    let edge_ids = built.edge_ids.clone();
    let r = catch(|| -> Result<norm::EngineRows, String> {
        let q = parse_query(text).map_err(|e| format!("parse: {e}"))?;
        let b = if is_write {
            let mut ex = MutQueryExecutor::new(&mut built.store, "default".to_string());
            if let Some(p) = params {
                ex = ex.with_params(to_params(p));
            }
            ex.execute(&q).map_err(|e| format!("exec: {e}"))?
        } else {
            let mut ex = QueryExecutor::new(&built.store);
            if let Some(p) = params {
                ex = ex.with_params(to_params(p));
            }
            ex.execute(&q).map_err(|e| format!("exec: {e}"))?
        };
        Ok(norm_batch(&b, &IdMap { nodes: &node_ids, edges: &edge_ids }))
    });
    match r {
        Ok(Ok(rows)) => Out::Rows(rows, store_dump(&built.store)),
        Ok(Err(e)) => Out::Refused(e),
        Err(p) => Out::Panicked(p),
    }
}

pub enum Verdict {
    Same(bool),
    ParamRefused,
    LiteralRefusedOnly,
    NoParams,
    Violation(String),
}

fn has_window(q: &Query) -> bool {
    q.parts.iter().flatten().any(|c| match c {
        Clause::With { proj, .. } | Clause::Return { proj } => proj.skip.is_some() || proj.limit.is_some(),
        _ => false,
    })
}

pub fn judge(case: &Case) -> Verdict {
    if case.params.is_empty() {
        return Verdict::NoParams;
    }
    let text_p = render_query(&case.q);
    let text_l = render_query(&inline_params(&case.q, &case.params));
    let a = run_one(&case.g, &text_p, Some(&case.params), case.is_write);
    let (rows_p, dump_p) = match a {
        Out::Panicked(p) => return Verdict::Violation(format!("parameterised execution panicked: {p}\n  query: {text_p}\n  params: {:?}", case.params)),
        Out::Refused(_) => return Verdict::ParamRefused,
        Out::Rows(r, d) => (r, d),
    };
    let b = run_one(&case.g, &text_l, None, case.is_write);
    let (rows_l, dump_l) = match b {
        Out::Panicked(p) => return Verdict::Violation(format!("literal execution panicked: {p}\n  query: {text_l}")),
        Out::Refused(_) => return Verdict::LiteralRefusedOnly,
        Out::Rows(r, d) => (r, d),
    };
    let modes: Vec<ColMode> = vec![];
    if has_window(&case.q) {
        // which rows a window keeps may depend on scan order; sizes must agree — unless the
        // window sits in a WITH, where later clauses expand whichever rows it kept
        if !c02::has_intermediate_window(&case.q) && rows_p.rows.len() != rows_l.rows.len() {
            return Verdict::Violation(format!("row counts differ: {} with parameters, {} with literals\n  param query: {text_p}\n  params: {:?}\n  literal query: {text_l}", rows_p.rows.len(), rows_l.rows.len(), case.params));
        }
    } else if case.ordered && rows_p.rows.iter().map(|r| r.iter().map(|v| v.canon()).collect::<Vec<_>>()).ne(rows_l.rows.iter().map(|r| r.iter().map(|v| v.canon()).collect::<Vec<_>>())) {
        return Verdict::Violation(format!(
            "row order differs under a total ORDER BY (first = with parameters, second = with literals):\n  {:?}\n  {:?}\n  param query: {text_p}\n  params: {:?}\n  literal query: {text_l}",
            rows_p.rows.iter().map(|r| r.iter().map(|v| v.canon()).collect::<Vec<_>>()).collect::<Vec<_>>(),
            rows_l.rows.iter().map(|r| r.iter().map(|v| v.canon()).collect::<Vec<_>>()).collect::<Vec<_>>(),
            case.params
        ));
    } else if let Some(d) = norm::bag_diff(&rows_p.rows, &rows_l.rows, &modes) {
        // bag_diff prints engine=param side, spec=literal side
        return Verdict::Violation(format!("results differ (first = with parameters, second = with literals):\n{d}  param query: {text_p}\n  params: {:?}\n  literal query: {text_l}", case.params));
    }
    if dump_p != dump_l {
        return Verdict::Violation(format!("graphs differ after the statement\n  param query: {text_p}\n  params: {:?}\n  literal query: {text_l}\n  with params: {:?}\n  with literals: {:?}", case.params, dump_p, dump_l));
    }
    Verdict::Same(!rows_p.rows.is_empty() || case.is_write)
}

pub fn run(args: &Args) {
    let mut ev = Evidence::new(
        args,
        "exploration",
        "queries from the C01 grammar with literals replaced by $parameters (WHERE, inline pattern properties) plus templates placing parameters in UNWIND, IN lists, RETURN items, function arguments, list literals, IS NULL, WITH and WITH..WHERE, ORDER BY items, SET right-hand sides, CREATE property maps and every position of a searched CASE (used as RETURN item, SET right-hand side, ORDER BY key, WHERE operand); parameter values from the property domains and a boundary pool (null, extreme ints/floats, -0.0, quotes, backslashes, newlines, non-ASCII, nested lists, maps). Differential: execute with with_params(..) vs execute the text with every parameter spliced in as a literal, on twin stores; rows as bags (as sequences where the query's ORDER BY is total) and resulting graphs must be equal. Non-trivial = the parameterised run succeeded and returned rows or wrote; distinct = distinct (graph, query, params).",
    );
    ev.assume("a statement refused with parameters is allowed by the property; a statement refused only in its literal spelling has no literal answer to differ from and is counted, not flagged");
    if let Some(p) = &args.replay {
        let case = Case::from_json(&load_replay(p));
        ev.case();
        ev.sample(case.to_json());
        ev.nontrivial(&"replay");
        ev.nontrivial(&render_query(&case.q));
        match judge(&case) {
            Verdict::Violation(m) => {
                report_violation(&mut ev, &case.to_json(), &m);
            }
            Verdict::Same(_) => println!("replay: same result"),
            Verdict::ParamRefused => println!("replay: refused with parameters"),
            Verdict::LiteralRefusedOnly => println!("replay: literal spelling refused"),
            Verdict::NoParams => println!("replay: no parameters"),
        }
        finish(&ev);
    }
    for (p, c) in corpus_cases("C35") {
        let case = Case::from_json(&c);
        ev.case();
        ev.class("regression_corpus");
        if let Verdict::Violation(m) = judge(&case) {
            report_violation(&mut ev, &case.to_json(), &format!("{m} (corpus {})", p.display()));
            finish(&ev);
        }
    }
    let n = std::env::var("VERIF_CASES").ok().and_then(|s| s.parse().ok()).unwrap_or(args.tier.pick(300_000u32, 5_000_000u32));
    let evc = RefCell::new(&mut ev);
    let res = search(args.seed, n, &tape_strategy(220), |tape| {
        let case = build(tape);
        let mut e = evc.borrow_mut();
        e.case();
        match judge(&case) {
            Verdict::Same(nt) => {
                e.class(&format!("same:{}", case.template));
                if nt {
                    let key = format!("{}#{}#{:?}", serde_json::to_string(&case.g).unwrap(), render_query(&case.q), case.params);
                    e.nontrivial(&key);
                    if e.want_sample() && e.evaluations % 499 == 1 {
                        e.sample(json!({"query": render_query(&case.q), "params": case.params, "template": case.template}));
                    }
                }
                Ok(())
            }
            Verdict::ParamRefused => {
                e.refusal();
                e.class(&format!("refused_with_params:{}", case.template));
                Ok(())
            }
            Verdict::LiteralRefusedOnly => {
                e.class(&format!("literal_spelling_refused:{}", case.template));
                Ok(())
            }
            Verdict::NoParams => {
                e.class("no_parameter_drawn");
                Ok(())
            }
            Verdict::Violation(m) => {
                e.frozen = true;
                Err(m)
            }
        }
    });
    drop(evc);
    if let Some((tape, msg)) = res {
        let case = build(&tape);
        let msg = match judge(&case) {
            Verdict::Violation(m) => m,
            _ => msg,
        };
        report_violation(&mut ev, &case.to_json(), &msg);
    }
    finish(&ev);
}
