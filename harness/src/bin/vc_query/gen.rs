//! Generators: every random choice is read from a proptest-generated tape of u16 values
//! (0 = simplest alternative, so shrinking the tape simplifies the case).

use crate::model::*;
use crate::norm::ColMode;
use std::collections::BTreeMap;
use vcheck::pick_idx;

pub struct Tape<'a> {
    data: &'a [u16],
    pos: usize,
}

impl<'a> Tape<'a> {
    pub fn new(data: &'a [u16]) -> Self {
        Tape { data, pos: 0 }
    }
    pub fn next(&mut self) -> u16 {
        let v = self.data.get(self.pos).copied().unwrap_or(0);
        self.pos += 1;
        v
    }
    /// uniform-ish choice in 0..n (0 when the tape is exhausted)
    pub fn choose(&mut self, n: usize) -> usize {
        if n <= 1 {
            return 0;
        }
        let v = self.next();
        pick_idx(v, n)
    }
    /// true with probability num/den
    pub fn chance(&mut self, num: usize, den: usize) -> bool {
        self.choose(den) >= den - num
    }
    /// weighted choice: returns index
    pub fn weighted(&mut self, weights: &[usize]) -> usize {
        let total: usize = weights.iter().sum();
        let mut x = self.choose(total);
        for (i, w) in weights.iter().enumerate() {
            if x < *w {
                return i;
            }
            x -= w;
        }
        0
    }
}

pub const LABELS: [&str; 3] = ["A", "B", "C"];
pub const TYPES: [&str; 3] = ["R", "S", "T"];

/// property domains: p mixed, q numbers, k small ints, s strings
pub fn value_for(key: &str, t: &mut Tape) -> Option<V> {
    match key {
        "p" => match t.choose(9) {
            0 => None,
            1 => Some(V::Int(1)),
            2 => Some(V::Int(2)),
            3 => Some(V::Float(1.0)),
            4 => Some(V::Float(2.0)),
            5 => Some(V::Str("a".into())),
            6 => Some(V::Bool(true)),
            7 => Some(V::Int(0)),
            _ => Some(V::Str("1".into())),
        },
        "q" => match t.choose(7) {
            0 => None,
            1 => Some(V::Int(1)),
            2 => Some(V::Float(1.0)),
            3 => Some(V::Float(0.5)),
            4 => Some(V::Int(2)),
            5 => Some(V::Float(2.0)),
            _ => Some(V::Int(3)),
        },
        "k" => match t.choose(5) {
            0 => None,
            x => Some(V::Int(x as i64 - 1)),
        },
        "s" => match t.choose(6) {
            0 => None,
            1 => Some(V::Str("a".into())),
            2 => Some(V::Str("ab".into())),
            3 => Some(V::Str("b".into())),
            4 => Some(V::Str("".into())),
            _ => Some(V::Str("ba".into())),
        },
        _ => None,
    }
}

pub fn literal_for(key: &str, t: &mut Tape) -> V {
    // literals are drawn from the same domain plus null and a cross-type value
    match t.choose(8) {
        0 => V::Null,
        1 => match key {
            "s" => V::Int(1),
            _ => V::Str("a".into()),
        },
        _ => some_value_for(key, t),
    }
}

/// a present value of the key's domain (bounded retries: an exhausted tape yields the fallback)
pub fn some_value_for(key: &str, t: &mut Tape) -> V {
    for _ in 0..4 {
        if let Some(v) = value_for(key, t) {
            return v;
        }
    }
    match key {
        "s" => V::Str("a".into()),
        _ => V::Int(1),
    }
}

/// boundary values that have a Cypher literal spelling (C35)
pub fn boundary_param(t: &mut Tape) -> V {
    let pool: Vec<V> = vec![
        V::Null,
        V::Int(-1),
        V::Int(i64::MAX),
        V::Int(i64::MIN + 1),
        V::Int(1 << 53),
        V::Float(-0.0),
        V::Float(0.1),
        V::Float(1e308),
        V::Float(-2.5),
        V::Float(5e-324),
        V::Bool(false),
        V::Str(String::new()),
        V::Str("it's".into()),
        V::Str("a\\b".into()),
        V::Str("a\nb".into()),
        V::Str("tab\there".into()),
        V::Str("\"q\"".into()),
        V::Str("é😀".into()),
        V::Str(" pad ".into()),
        V::Str("$p0".into()),
        V::List(vec![]),
        V::List(vec![V::Int(1), V::Str("a".into()), V::Null]),
        V::List(vec![V::Float(1.0), V::Int(1)]),
        V::List(vec![V::List(vec![V::Int(2)])]),
        V::Map([("a".to_string(), V::Int(1))].into_iter().collect()),
        V::Map(BTreeMap::new()),
    ];
    let i = t.choose(pool.len());
    pool[i].clone()
}

pub fn gen_graph(t: &mut Tape) -> RGraph {
    let n = t.choose(7); // 0..=6 nodes
    let mut g = RGraph::default();
    for i in 0..n {
        let mut node = RNode::default();
        let lsel = t.choose(8);
        for (bit, l) in LABELS.iter().enumerate() {
            if lsel & (1 << bit) != 0 {
                node.labels.insert(l.to_string());
            }
        }
        for key in ["p", "q", "k", "s"] {
            if let Some(v) = value_for(key, t) {
                node.props.insert(key.to_string(), v);
            }
        }
        node.props.insert("uid".into(), V::Int(i as i64));
        g.nodes.push(node);
    }
    if n > 0 {
        let m = t.choose(10);
        for j in 0..m {
            let src = t.choose(n);
            let dst = t.choose(n);
            let ty = TYPES[t.choose(3)].to_string();
            let mut props = BTreeMap::new();
            if let Some(v) = value_for("k", t) {
                props.insert("w".to_string(), v);
            }
            props.insert("rid".into(), V::Int(j as i64));
            g.rels.push(RRel { src, dst, ty, props, deleted: false });
        }
    }
    g
}

// ---------------------------------------------------------------------------------------

#[derive(Default, Clone)]
pub struct Scope {
    pub nodes: Vec<String>,
    pub rels: Vec<String>,
    /// variable-length relationship list variables
    pub rel_lists: Vec<String>,
    pub paths: Vec<String>,
    /// scalar variables (from UNWIND / WITH) and their kind tag
    pub scalars: Vec<String>,
    /// list-valued variables whose element order is unspecified (collect(), labels())
    pub bag_scalars: Vec<String>,
    /// variables that may be null (OPTIONAL MATCH)
    pub nullable: Vec<String>,
}

#[derive(Default, Clone)]
pub struct Features {
    pub tags: Vec<&'static str>,
}
impl Features {
    pub fn tag(&mut self, t: &'static str) {
        if !self.tags.contains(&t) {
            self.tags.push(t);
        }
    }
}

pub struct QGen<'a, 'b> {
    pub t: &'a mut Tape<'b>,
    pub f: Features,
    next_node: usize,
    next_rel: usize,
    /// allow parameters instead of literals (C35): collected (name -> value)
    pub params: Option<BTreeMap<String, V>>,
}

const NODE_VARS: [&str; 6] = ["a", "b", "c", "d", "e", "f"];

impl<'a, 'b> QGen<'a, 'b> {
    pub fn new(t: &'a mut Tape<'b>) -> Self {
        QGen { t, f: Features::default(), next_node: 0, next_rel: 0, params: None }
    }
    fn fresh_node(&mut self) -> String {
        let v = NODE_VARS[self.next_node % NODE_VARS.len()].to_string();
        self.next_node += 1;
        if self.next_node > NODE_VARS.len() {
            format!("{v}{}", self.next_node)
        } else {
            v
        }
    }
    fn fresh_rel(&mut self) -> String {
        self.next_rel += 1;
        format!("r{}", self.next_rel)
    }

    fn lit(&mut self, key: &str) -> E {
        let v = literal_for(key, self.t);
        self.maybe_param(v)
    }
    pub fn maybe_param(&mut self, v: V) -> E {
        if self.params.is_some() {
            if self.t.chance(1, 2) {
                // a third of the parameters carry a boundary value instead of the domain value
                let v = if self.t.chance(1, 3) { boundary_param(self.t) } else { v };
                return self.new_param(v);
            }
        }
        E::Lit(v)
    }
    pub fn new_param(&mut self, v: V) -> E {
        let params = self.params.as_mut().expect("params enabled");
        let name = format!("p{}", params.len());
        params.insert(name.clone(), v);
        E::Param(name)
    }

    fn inline_props(&mut self, key_pool: &[&str]) -> Vec<(String, E)> {
        if self.t.chance(1, 4) {
            self.f.tag("inline_props");
            let key = key_pool[self.t.choose(key_pool.len())];
            let v = some_value_for(if key == "w" { "k" } else { key }, self.t);
            let e = self.maybe_param(v);
            vec![(key.to_string(), e)]
        } else {
            vec![]
        }
    }

    fn node_pat(&mut self, scope: &mut Scope, allow_reuse: bool) -> NodePat {
        // reuse an existing node variable (cycle / join) sometimes
        if allow_reuse && !scope.nodes.is_empty() && self.t.chance(1, 5) {
            self.f.tag("repeated_node_var");
            let v = scope.nodes[self.t.choose(scope.nodes.len())].clone();
            return NodePat { var: Some(v), labels: vec![], props: vec![] };
        }
        let named = !self.t.chance(1, 6);
        let var = if named {
            let v = self.fresh_node();
            scope.nodes.push(v.clone());
            Some(v)
        } else {
            None
        };
        let labels = match self.t.weighted(&[5, 4, 2]) {
            0 => vec![],
            1 => vec![LABELS[self.t.choose(3)].to_string()],
            _ => {
                self.f.tag("multi_label");
                let a = self.t.choose(3);
                let b = (a + 1 + self.t.choose(2)) % 3;
                vec![LABELS[a].to_string(), LABELS[b].to_string()]
            }
        };
        let props = self.inline_props(&["p", "q", "k", "s"]);
        NodePat { var, labels, props }
    }

    fn rel_pat(&mut self, scope: &mut Scope, allow_varlen: bool) -> RelPat {
        let dir = match self.t.weighted(&[5, 3, 2]) {
            0 => Dir::Out,
            1 => Dir::In,
            _ => {
                self.f.tag("undirected");
                Dir::Both
            }
        };
        let types = match self.t.weighted(&[4, 4, 2]) {
            0 => vec![],
            1 => vec![TYPES[self.t.choose(3)].to_string()],
            _ => {
                self.f.tag("type_alternatives");
                let a = self.t.choose(3);
                let b = (a + 1 + self.t.choose(2)) % 3;
                vec![TYPES[a].to_string(), TYPES[b].to_string()]
            }
        };
        let varlen = if allow_varlen && self.t.chance(1, 5) {
            self.f.tag("varlen");
            Some(match self.t.choose(6) {
                0 => (Some(1), Some(2)),
                1 => (None, None),
                2 => (Some(2), Some(2)),
                3 => (Some(0), Some(1)),
                4 => (None, Some(2)),
                _ => (Some(1), None),
            })
        } else {
            None
        };
        let named = self.t.chance(1, 2);
        let var = if named {
            let v = self.fresh_rel();
            if varlen.is_some() {
                scope.rel_lists.push(v.clone());
            } else {
                scope.rels.push(v.clone());
            }
            Some(v)
        } else {
            None
        };
        let props = if varlen.is_none() { self.inline_props(&["w"]) } else { vec![] };
        RelPat { var, types, dir, props, varlen }
    }

    pub fn path_pat(&mut self, scope: &mut Scope, max_hops: usize, allow_varlen: bool) -> PathPat {
        let start = self.node_pat(scope, true);
        let hops = self.t.weighted(&[3, 5, 3, 1][..=max_hops.min(3)]);
        let mut steps = Vec::new();
        for _ in 0..hops {
            let r = self.rel_pat(scope, allow_varlen);
            let n = self.node_pat(scope, true);
            steps.push((r, n));
        }
        match hops {
            0 => self.f.tag("hops0"),
            1 => self.f.tag("hops1"),
            2 => self.f.tag("hops2"),
            _ => self.f.tag("hops3"),
        }
        PathPat { name: None, start, steps, shortest: Shortest::No }
    }

    fn prop_of(&mut self, scope: &Scope) -> Option<(E, &'static str)> {
        let nn = scope.nodes.len();
        let nr = scope.rels.len();
        if nn + nr == 0 {
            return None;
        }
        let i = self.t.choose(nn + nr);
        if i < nn {
            let key = ["p", "q", "k", "s"][self.t.choose(4)];
            Some((E::Prop(scope.nodes[i].clone(), key.to_string()), key))
        } else {
            Some((E::Prop(scope.rels[i - nn].clone(), "w".to_string()), "k"))
        }
    }

    pub fn predicate(&mut self, scope: &Scope, depth: usize) -> E {
        let choice = if depth == 0 { self.t.weighted(&[6, 2, 2, 2, 1, 0, 0, 0, 0, 1]) } else { self.t.weighted(&[6, 2, 2, 2, 1, 3, 2, 1, 2, 1]) };
        match choice {
            0 => {
                // comparison prop op literal / prop op prop
                let (lhs, key) = match self.prop_of(scope) {
                    Some(x) => x,
                    None => return E::Lit(V::Bool(true)),
                };
                let op = [CmpOp::Eq, CmpOp::Ne, CmpOp::Lt, CmpOp::Le, CmpOp::Gt, CmpOp::Ge][self.t.choose(6)].clone();
                let rhs = if self.t.chance(1, 5) {
                    match self.prop_of(scope) {
                        Some((e, _)) => e,
                        None => self.lit(key),
                    }
                } else {
                    self.lit(key)
                };
                self.f.tag("cmp");
                E::Cmp(op, Box::new(lhs), Box::new(rhs))
            }
            1 => {
                let (lhs, _) = match self.prop_of(scope) {
                    Some(x) => x,
                    None => return E::Lit(V::Bool(true)),
                };
                self.f.tag("is_null");
                if self.t.chance(1, 2) {
                    E::IsNull(Box::new(lhs))
                } else {
                    E::IsNotNull(Box::new(lhs))
                }
            }
            2 => {
                let (lhs, key) = match self.prop_of(scope) {
                    Some(x) => x,
                    None => return E::Lit(V::Bool(true)),
                };
                let n = 1 + self.t.choose(3);
                let mut items = Vec::new();
                for _ in 0..n {
                    items.push(literal_for(key, self.t));
                }
                self.f.tag("in_list");
                E::In(Box::new(lhs), Box::new(E::Lit(V::List(items))))
            }
            3 => {
                if scope.nodes.is_empty() {
                    return E::Lit(V::Bool(true));
                }
                let v = scope.nodes[self.t.choose(scope.nodes.len())].clone();
                let rhs = E::Lit(V::Str(["a", "b", "", "ab"][self.t.choose(4)].to_string()));
                let lhs = E::Prop(v, if self.t.chance(1, 4) { "p".into() } else { "s".into() });
                self.f.tag("string_op");
                match self.t.choose(3) {
                    0 => E::StartsWith(Box::new(lhs), Box::new(rhs)),
                    1 => E::EndsWith(Box::new(lhs), Box::new(rhs)),
                    _ => E::Contains(Box::new(lhs), Box::new(rhs)),
                }
            }
            4 => {
                if scope.nodes.is_empty() {
                    return E::Lit(V::Bool(true));
                }
                let v = scope.nodes[self.t.choose(scope.nodes.len())].clone();
                self.f.tag("label_predicate");
                E::HasLabel(v, LABELS[self.t.choose(3)].to_string())
            }
            5 => {
                self.f.tag("and");
                E::And(Box::new(self.predicate(scope, depth - 1)), Box::new(self.predicate(scope, depth - 1)))
            }
            6 => {
                self.f.tag("or");
                E::Or(Box::new(self.predicate(scope, depth - 1)), Box::new(self.predicate(scope, depth - 1)))
            }
            7 => {
                self.f.tag("xor");
                E::Xor(Box::new(self.predicate(scope, depth - 1)), Box::new(self.predicate(scope, depth - 1)))
            }
            8 => {
                self.f.tag("not");
                E::Not(Box::new(self.predicate(scope, depth - 1)))
            }
            _ => {
                // pattern predicate anchored at a bound node
                if scope.nodes.is_empty() {
                    return E::Lit(V::Bool(true));
                }
                let v = scope.nodes[self.t.choose(scope.nodes.len())].clone();
                let dir = [Dir::Out, Dir::In, Dir::Both][self.t.choose(3)].clone();
                let types = if self.t.chance(1, 2) { vec![TYPES[self.t.choose(3)].to_string()] } else { vec![] };
                let end_labels = if self.t.chance(1, 3) { vec![LABELS[self.t.choose(3)].to_string()] } else { vec![] };
                self.f.tag("pattern_predicate");
                E::PatExists(Box::new(PathPat {
                    name: None,
                    start: NodePat { var: Some(v), labels: vec![], props: vec![] },
                    steps: vec![(RelPat { var: None, types, dir, props: vec![], varlen: None }, NodePat { var: None, labels: end_labels, props: vec![] })],
                    shortest: Shortest::No,
                }))
            }
        }
    }

    /// scalar return item; returns (expr, column mode, orderable, groupable)
    fn scalar_item(&mut self, scope: &Scope) -> (E, ColMode, bool, bool) {
        let nn = scope.nodes.len();
        let nr = scope.rels.len();
        let choice = self.t.weighted(&[6, 2, 2, 1, 1, 1, 1, 1, 1, 1, 1]);
        match choice {
            9 if nn > 0 => {
                // searched CASE over a generated predicate; branches from one property domain
                let v = scope.nodes[self.t.choose(nn)].clone();
                let cond = self.predicate(scope, 0);
                let key = ["k", "s", "q"][self.t.choose(3)];
                let then = if self.t.chance(1, 2) { E::Prop(v.clone(), key.into()) } else { E::Lit(some_value_for(key, self.t)) };
                let els = match self.t.choose(3) {
                    0 => None,
                    1 => Some(Box::new(E::Prop(v, key.into()))),
                    _ => Some(Box::new(E::Lit(some_value_for(key, self.t)))),
                };
                self.f.tag("case_expr");
                (E::Case(vec![(cond, then)], els), ColMode::Exact, false, false)
            }
            10 if nn > 0 => {
                let v = scope.nodes[self.t.choose(nn)].clone();
                self.f.tag("scalar_fn");
                match self.t.choose(3) {
                    0 => (E::Func("abs".into(), vec![E::Arith(ArOp::Sub, Box::new(E::Prop(v, "k".into())), Box::new(E::Lit(V::Int(2))))]), ColMode::Exact, true, true),
                    1 => (E::Func("toString".into(), vec![E::Prop(v, "k".into())]), ColMode::Exact, true, true),
                    _ => (E::Func("size".into(), vec![E::Prop(v, "s".into())]), ColMode::Exact, true, true),
                }
            }
            0 => match self.prop_of(scope) {
                Some((e, _)) => {
                    self.f.tag("ret_prop");
                    (e, ColMode::Exact, true, true)
                }
                None => (E::Lit(V::Int(1)), ColMode::Exact, true, true),
            },
            1 if nn > 0 => {
                self.f.tag("ret_node");
                (E::Var(scope.nodes[self.t.choose(nn)].clone()), ColMode::Exact, false, true)
            }
            2 if nr > 0 => {
                self.f.tag("ret_rel");
                (E::Var(scope.rels[self.t.choose(nr)].clone()), ColMode::Exact, false, true)
            }
            3 if nn > 0 => {
                self.f.tag("labels_fn");
                (E::Func("labels".into(), vec![E::Var(scope.nodes[self.t.choose(nn)].clone())]), ColMode::BagList, false, false)
            }
            4 if nr > 0 => {
                self.f.tag("type_fn");
                (E::Func("type".into(), vec![E::Var(scope.rels[self.t.choose(nr)].clone())]), ColMode::Exact, true, true)
            }
            5 if nn > 0 => {
                let v = scope.nodes[self.t.choose(nn)].clone();
                let key = ["q", "k"][self.t.choose(2)];
                let op = [ArOp::Add, ArOp::Sub, ArOp::Mul][self.t.choose(3)].clone();
                self.f.tag("arith");
                (E::Arith(op, Box::new(E::Prop(v, key.into())), Box::new(E::Lit(V::Int(1 + self.t.choose(3) as i64)))), ColMode::Exact, true, true)
            }
            6 if nn > 0 => {
                let v = scope.nodes[self.t.choose(nn)].clone();
                let key = ["p", "q", "k", "s"][self.t.choose(4)];
                self.f.tag("coalesce");
                (E::Func("coalesce".into(), vec![E::Prop(v, key.into()), E::Lit(V::Int(-1))]), ColMode::Exact, true, true)
            }
            7 if !scope.scalars.is_empty() || !scope.bag_scalars.is_empty() => {
                self.f.tag("ret_scalar_var");
                let i = self.t.choose(scope.scalars.len() + scope.bag_scalars.len());
                if i < scope.scalars.len() {
                    (E::Var(scope.scalars[i].clone()), ColMode::Exact, true, true)
                } else {
                    (E::Var(scope.bag_scalars[i - scope.scalars.len()].clone()), ColMode::BagList, false, false)
                }
            }
            8 if !scope.rel_lists.is_empty() => {
                self.f.tag("size_rel_list");
                (E::Func("size".into(), vec![E::Var(scope.rel_lists[self.t.choose(scope.rel_lists.len())].clone())]), ColMode::Exact, true, true)
            }
            _ => match self.prop_of(scope) {
                Some((e, _)) => (e, ColMode::Exact, true, true),
                None => {
                    if !scope.scalars.is_empty() {
                        (E::Var(scope.scalars[0].clone()), ColMode::Exact, true, true)
                    } else {
                        (E::Lit(V::Int(1)), ColMode::Exact, true, true)
                    }
                }
            },
        }
    }

    fn agg_item(&mut self, scope: &Scope) -> (E, ColMode, bool) {
        let nn = scope.nodes.len();
        let choice = self.t.weighted(&[3, 3, 2, 2, 2, 2, 1, 2]);
        let num_prop = |s: &mut Self| -> E {
            if nn > 0 {
                let v = scope.nodes[s.t.choose(nn)].clone();
                E::Prop(v, ["q", "k"][s.t.choose(2)].to_string())
            } else {
                // scalar variables have no known type here; sum/avg/min/max over a mixed-type
                // column is an error or disputed, so fall back to a literal
                E::Lit(V::Int(1))
            }
        };
        let any_prop = |s: &mut Self| -> E {
            match s.prop_of(scope) {
                Some((e, _)) => e,
                None => {
                    if !scope.scalars.is_empty() {
                        E::Var(scope.scalars[0].clone())
                    } else {
                        E::Lit(V::Int(1))
                    }
                }
            }
        };
        self.f.tag("aggregate");
        match choice {
            0 => (E::Agg(AggKind::CountStar, false, None), ColMode::Exact, true),
            1 => {
                let arg = if nn > 0 && self.t.chance(1, 2) { E::Var(scope.nodes[self.t.choose(nn)].clone()) } else { any_prop(self) };
                (E::Agg(AggKind::Count, false, Some(Box::new(arg))), ColMode::Exact, true)
            }
            2 => {
                self.f.tag("count_distinct");
                (E::Agg(AggKind::Count, true, Some(Box::new(any_prop(self)))), ColMode::Exact, true)
            }
            3 => (E::Agg(AggKind::Sum, false, Some(Box::new(num_prop(self)))), ColMode::Exact, true),
            4 | 5 => {
                // min/max over one-type families only: the order of mixed types under min()/max() is disputed
                let arg = if nn > 0 { E::Prop(scope.nodes[self.t.choose(nn)].clone(), ["q", "k", "s"][self.t.choose(3)].to_string()) } else { num_prop(self) };
                (E::Agg(if choice == 4 { AggKind::Min } else { AggKind::Max }, false, Some(Box::new(arg))), ColMode::Exact, true)
            }
            6 => (E::Agg(AggKind::Avg, false, Some(Box::new(num_prop(self)))), ColMode::Exact, true),
            _ => {
                self.f.tag("collect");
                (E::Agg(AggKind::Collect, false, Some(Box::new(any_prop(self)))), ColMode::BagList, false)
            }
        }
    }

    /// projection (RETURN or WITH). `need_alias`: WITH requires aliases for non-variables.
    pub fn projection(&mut self, scope: &Scope, is_with: bool) -> (Proj, Vec<ColMode>, Scope) {
        let n_items = 1 + self.t.weighted(&[4, 4, 2]);
        let with_agg = self.t.chance(1, 3);
        let mut items = Vec::new();
        let mut modes = Vec::new();
        let mut orderable = Vec::new();
        let mut out_scope = Scope::default();
        let mut distinct_ok = true;
        for i in 0..n_items {
            // WITH and RETURN use different alias families: an alias that shadows a variable
            // still in scope makes `ORDER BY <name>` ambiguous between the two
            let alias = if is_with { format!("w{i}") } else { format!("c{i}") };
            if with_agg && (i == n_items - 1 || self.t.chance(1, 3)) {
                let (e, m, ord) = self.agg_item(scope);
                items.push(Item { expr: e, alias: Some(alias.clone()) });
                modes.push(m);
                orderable.push(ord);
                if m == ColMode::BagList {
                    out_scope.bag_scalars.push(alias);
                    distinct_ok = false;
                } else {
                    out_scope.scalars.push(alias);
                }
            } else {
                let (e, m, ord, groupable) = self.scalar_item(scope);
                let e = if with_agg && !groupable {
                    // labels() as a grouping key: order of the list is unspecified, avoid
                    E::Lit(V::Int(0))
                } else {
                    e
                };
                let m = if matches!(e, E::Lit(_)) { ColMode::Exact } else { m };
                if m == ColMode::BagList {
                    distinct_ok = false;
                }
                // WITH passes variables through under their own name half of the time
                let keep_name = matches!(e, E::Var(_)) && self.t.chance(1, 2);
                match (&e, keep_name) {
                    (E::Var(v), true) => {
                        if scope.nodes.contains(v) {
                            out_scope.nodes.push(v.clone());
                        } else if scope.rels.contains(v) {
                            out_scope.rels.push(v.clone());
                        } else if m == ColMode::BagList {
                            out_scope.bag_scalars.push(v.clone());
                        } else {
                            out_scope.scalars.push(v.clone());
                        }
                        if items.iter().any(|it: &Item| item_col(it) == *v) {
                            // duplicate column name: alias instead
                            items.push(Item { expr: e.clone(), alias: Some(alias.clone()) });
                        } else {
                            items.push(Item { expr: e.clone(), alias: None });
                        }
                    }
                    _ => {
                        match &e {
                            E::Var(v) if scope.nodes.contains(v) => out_scope.nodes.push(alias.clone()),
                            E::Var(v) if scope.rels.contains(v) => out_scope.rels.push(alias.clone()),
                            _ if m == ColMode::BagList => out_scope.bag_scalars.push(alias.clone()),
                            _ => out_scope.scalars.push(alias.clone()),
                        }
                        items.push(Item { expr: e, alias: Some(alias) });
                    }
                }
                modes.push(m);
                orderable.push(ord && matches!(m, ColMode::Exact));
            }
        }
        let distinct = distinct_ok && !with_agg && self.t.chance(1, 4);
        if distinct {
            self.f.tag("distinct");
        }
        let mut order = Vec::new();
        if self.t.chance(1, 3) {
            let cands: Vec<usize> = (0..items.len()).filter(|i| orderable[*i]).collect();
            if !cands.is_empty() {
                let nkeys = 1 + self.t.choose(2.min(cands.len()));
                let mut used = Vec::new();
                for _ in 0..nkeys {
                    let c = cands[self.t.choose(cands.len())];
                    if used.contains(&c) {
                        continue;
                    }
                    used.push(c);
                    let name = item_col(&items[c]);
                    let desc = self.t.chance(1, 3);
                    order.push((E::Var(name), desc));
                }
                self.f.tag("order_by");
            }
        }
        let mut skip = None;
        let mut limit = None;
        if self.t.chance(1, 5) {
            skip = Some(self.t.choose(3) as u64);
            self.f.tag("skip");
        }
        if self.t.chance(1, 4) {
            limit = Some(self.t.choose(4) as u64);
            self.f.tag("limit");
            if !order.is_empty() {
                self.f.tag("top_n");
            }
        }
        let _ = is_with;
        (Proj { distinct, items, order, skip, limit }, modes, out_scope)
    }

    /// a complete read query
    pub fn read_query(&mut self) -> (Query, Vec<ColMode>) {
        let family = self.t.weighted(&[8, 3, 3, 2, 2, 2, 2]);
        match family {
            1 => {
                // MATCH … OPTIONAL MATCH … RETURN
                self.f.tag("optional_match");
                let mut scope = Scope::default();
                let p1 = self.path_pat(&mut scope, 1, false);
                let w1 = if self.t.chance(1, 3) { Some(self.predicate(&scope, 1)) } else { None };
                let mut scope2 = scope.clone();
                let mut p2 = self.path_pat(&mut scope2, 2, false);
                // anchor the optional pattern at a bound variable most of the time
                if !scope.nodes.is_empty() && self.t.chance(3, 4) {
                    let old = p2.start.var.clone();
                    p2.start = NodePat { var: Some(scope.nodes[self.t.choose(scope.nodes.len())].clone()), labels: vec![], props: vec![] };
                    drop_if_unused(&mut scope2, &scope, old, &p2);
                }
                let w2 = if self.t.chance(1, 3) { Some(self.predicate(&scope2, 1)) } else { None };
                let (proj, modes, _) = self.projection(&scope2, false);
                (
                    Query {
                        parts: vec![vec![
                            Clause::Match { optional: false, patterns: vec![p1], where_: w1 },
                            Clause::Match { optional: true, patterns: vec![p2], where_: w2 },
                            Clause::Return { proj },
                        ]],
                        union_all: false,
                    },
                    modes,
                )
            }
            2 => {
                // MATCH … WITH … [WHERE] [MATCH] RETURN
                self.f.tag("with");
                let mut scope = Scope::default();
                let p1 = self.path_pat(&mut scope, 2, true);
                let w1 = if self.t.chance(1, 3) { Some(self.predicate(&scope, 1)) } else { None };
                let (wproj, _m, mut scope2) = self.projection(&scope, true);
                let wwhere = if !scope2.scalars.is_empty() && self.t.chance(1, 3) {
                    self.f.tag("with_where");
                    let v = scope2.scalars[self.t.choose(scope2.scalars.len())].clone();
                    let lit = E::Lit(V::Int(self.t.choose(3) as i64));
                    Some(E::Cmp([CmpOp::Gt, CmpOp::Eq, CmpOp::Le][self.t.choose(3)].clone(), Box::new(E::Var(v)), Box::new(lit)))
                } else {
                    None
                };
                let mut clauses = vec![Clause::Match { optional: false, patterns: vec![p1], where_: w1 }, Clause::With { proj: wproj, where_: wwhere }];
                if !scope2.nodes.is_empty() && self.t.chance(1, 2) {
                    self.f.tag("match_after_with");
                    let mut p2 = self.path_pat(&mut scope2, 1, false);
                    let before = scope2.clone();
                    let pool: Vec<String> = scope2.nodes.clone();
                    let old = p2.start.var.clone();
                    p2.start = NodePat { var: Some(pool[0].clone()), labels: vec![], props: vec![] };
                    // the replaced start variable is no longer bound by the pattern
                    if let Some(o) = &old {
                        let still = p2.start.var.as_ref() == Some(o) || p2.steps.iter().any(|(_, n)| n.var.as_ref() == Some(o));
                        if !still && !before.nodes.iter().take(before.nodes.len().saturating_sub(1 + p2.steps.len())).any(|v| v == o) {
                            scope2.nodes.retain(|v| v != o || pool[0] == *o);
                        }
                    }
                    clauses.push(Clause::Match { optional: false, patterns: vec![p2], where_: None });
                }
                let (proj, modes, _) = self.projection(&scope2, false);
                clauses.push(Clause::Return { proj });
                (Query { parts: vec![clauses], union_all: false }, modes)
            }
            3 => {
                // UNWIND list AS x [MATCH (n {k: x})] RETURN
                self.f.tag("unwind");
                let n = self.t.choose(4);
                let mut items = Vec::new();
                for _ in 0..n {
                    items.push(match self.t.choose(5) {
                        0 => V::Null,
                        x => V::Int(x as i64 - 1),
                    });
                }
                let mut scope = Scope::default();
                scope.scalars.push("x".into());
                let mut clauses = vec![Clause::Unwind { expr: E::Lit(V::List(items)), var: "x".into() }];
                if self.t.chance(1, 2) {
                    self.f.tag("unwind_match");
                    let v = self.fresh_node();
                    scope.nodes.push(v.clone());
                    let labels = if self.t.chance(1, 2) { vec![LABELS[self.t.choose(3)].to_string()] } else { vec![] };
                    clauses.push(Clause::Match { optional: self.t.chance(1, 4), patterns: vec![PathPat { name: None, start: NodePat { var: Some(v), labels, props: vec![("k".into(), E::Var("x".into()))] }, steps: vec![], shortest: Shortest::No }], where_: None });
                }
                let (proj, modes, _) = self.projection(&scope, false);
                clauses.push(Clause::Return { proj });
                (Query { parts: vec![clauses], union_all: false }, modes)
            }
            4 => {
                // UNION of two single-MATCH queries with the same column names
                self.f.tag("union");
                let mut parts = Vec::new();
                let ncols = 1 + self.t.choose(2);
                for _ in 0..2 {
                    let mut scope = Scope::default();
                    let p = self.path_pat(&mut scope, 1, false);
                    let w = if self.t.chance(1, 3) { Some(self.predicate(&scope, 1)) } else { None };
                    let mut items = Vec::new();
                    for i in 0..ncols {
                        let mut it = self.scalar_item(&scope);
                        for _ in 0..4 {
                            if it.1 == ColMode::Exact {
                                break;
                            }
                            it = self.scalar_item(&scope);
                        }
                        let e = if it.1 == ColMode::Exact { it.0 } else { E::Lit(V::Int(1)) };
                        items.push(Item { expr: e, alias: Some(format!("c{i}")) });
                    }
                    parts.push(vec![Clause::Match { optional: false, patterns: vec![p], where_: w }, Clause::Return { proj: Proj { distinct: false, items, order: vec![], skip: None, limit: None } }]);
                }
                let all = self.t.chance(1, 2);
                if all {
                    self.f.tag("union_all");
                }
                (Query { parts, union_all: all }, vec![ColMode::Exact; ncols])
            }
            5 => {
                // two patterns in one MATCH (relationship isomorphism across patterns)
                self.f.tag("two_patterns");
                let mut scope = Scope::default();
                let p1 = self.path_pat(&mut scope, 1, false);
                let p2 = self.path_pat(&mut scope, 1, false);
                let w = if self.t.chance(1, 3) { Some(self.predicate(&scope, 1)) } else { None };
                let (proj, modes, _) = self.projection(&scope, false);
                (Query { parts: vec![vec![Clause::Match { optional: false, patterns: vec![p1, p2], where_: w }, Clause::Return { proj }]], union_all: false }, modes)
            }
            6 => {
                // shortestPath between two matched nodes
                self.f.tag("shortest_path");
                let all = self.t.chance(1, 2);
                let la = if self.t.chance(1, 2) { vec![LABELS[self.t.choose(3)].to_string()] } else { vec![] };
                let lb = if self.t.chance(1, 2) { vec![LABELS[self.t.choose(3)].to_string()] } else { vec![] };
                let dir = [Dir::Out, Dir::Both, Dir::In][self.t.choose(3)].clone();
                let types = if self.t.chance(1, 2) { vec![TYPES[self.t.choose(3)].to_string()] } else { vec![] };
                let hi = if self.t.chance(1, 2) { None } else { Some(1 + self.t.choose(3) as u32) };
                let sp = PathPat {
                    name: Some("sp".into()),
                    start: NodePat { var: Some("a".into()), labels: vec![], props: vec![] },
                    steps: vec![(RelPat { var: None, types, dir, props: vec![], varlen: Some((None, hi)) }, NodePat { var: Some("b".into()), labels: vec![], props: vec![] })],
                    shortest: if all { Shortest::All } else { Shortest::One },
                };
                let m1 = Clause::Match {
                    optional: false,
                    patterns: vec![
                        PathPat { name: None, start: NodePat { var: Some("a".into()), labels: la, props: vec![] }, steps: vec![], shortest: Shortest::No },
                        PathPat { name: None, start: NodePat { var: Some("b".into()), labels: lb, props: vec![] }, steps: vec![], shortest: Shortest::No },
                    ],
                    where_: Some(E::Cmp(CmpOp::Ne, Box::new(E::Prop("a".into(), "uid".into())), Box::new(E::Prop("b".into(), "uid".into())))),
                };
                let m2 = Clause::Match { optional: false, patterns: vec![sp], where_: None };
                let items = vec![
                    Item { expr: E::Prop("a".into(), "uid".into()), alias: Some("c0".into()) },
                    Item { expr: E::Prop("b".into(), "uid".into()), alias: Some("c1".into()) },
                    Item { expr: E::Func("length".into(), vec![E::Var("sp".into())]), alias: Some("c2".into()) },
                ];
                (Query { parts: vec![vec![m1, m2, Clause::Return { proj: Proj { distinct: false, items, order: vec![], skip: None, limit: None } }]], union_all: false }, vec![ColMode::Exact; 3])
            }
            _ => {
                // single MATCH path [WHERE] RETURN
                self.f.tag("single_match");
                let mut scope = Scope::default();
                let p = self.path_pat(&mut scope, 3, true);
                let w = if self.t.chance(1, 2) { Some(self.predicate(&scope, 2)) } else { None };
                let (proj, modes, _) = self.projection(&scope, false);
                (Query { parts: vec![vec![Clause::Match { optional: false, patterns: vec![p], where_: w }, Clause::Return { proj }]], union_all: false }, modes)
            }
        }
    }
}

/// after a pattern's start node was replaced, forget the variable it used to introduce
/// unless the pattern (or the outer scope) still binds it
fn drop_if_unused(scope2: &mut Scope, outer: &Scope, old: Option<String>, p: &PathPat) {
    if let Some(o) = old {
        let still = p.start.var.as_ref() == Some(&o) || p.steps.iter().any(|(_, n)| n.var.as_ref() == Some(&o));
        if !still && !outer.nodes.contains(&o) {
            scope2.nodes.retain(|v| *v != o);
        }
    }
}

pub fn item_col(i: &Item) -> String {
    match &i.alias {
        Some(a) => a.clone(),
        None => render_expr(&i.expr),
    }
}

pub fn query_has_undirected(q: &Query) -> bool {
    fn path_und(p: &PathPat) -> bool {
        p.steps.iter().any(|(r, _)| r.dir == Dir::Both)
    }
    fn expr_und(e: &E) -> bool {
        match e {
            E::PatExists(p) => path_und(p),
            E::And(a, b) | E::Or(a, b) | E::Xor(a, b) => expr_und(a) || expr_und(b),
            E::Not(a) => expr_und(a),
            _ => false,
        }
    }
    q.parts.iter().flatten().any(|c| match c {
        Clause::Match { patterns, where_, .. } => patterns.iter().any(path_und) || where_.as_ref().map(expr_und).unwrap_or(false),
        Clause::Merge { pattern, .. } => path_und(pattern),
        _ => false,
    })
}

pub fn query_has_varlen(q: &Query) -> bool {
    q.parts.iter().flatten().any(|c| match c {
        Clause::Match { patterns, .. } => patterns.iter().any(|p| p.steps.iter().any(|(r, _)| r.varlen.is_some())),
        _ => false,
    })
}

pub fn query_has_multi_label(q: &Query) -> bool {
    fn path_ml(p: &PathPat) -> bool {
        p.start.labels.len() > 1 || p.steps.iter().any(|(_, n)| n.labels.len() > 1)
    }
    q.parts.iter().flatten().any(|c| match c {
        Clause::Match { patterns, .. } => patterns.iter().any(path_ml),
        Clause::Merge { pattern, .. } => path_ml(pattern),
        _ => false,
    })
}
