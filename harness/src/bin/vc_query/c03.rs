//! C03 — the parsed-query cache never changes what a query means.
use crate::*;
use samyama::graph::GraphStore;
use samyama::query::{MutQueryExecutor, QueryEngine, RecordBatch};

const WS: [&str; 7] = [" ", "  ", "\t", "\n", "\r\n", " \n ", "   "];
const INNER: [&str; 8] = ["a b", "a  b", "a\tb", "a\nb", " a b", "a b ", "a   b", "ab"];

/// one query string built from a family and choices
fn gen_string(t: &mut Tape, family: usize) -> (String, bool) {
    let w = |t: &mut Tape| WS[t.choose(WS.len())].to_string();
    let kw = |t: &mut Tape, s: &str| match t.choose(4) {
        0 => s.to_string(),
        1 => s.to_ascii_lowercase(),
        _ => s.to_string(),
    };
    match family {
        // string literal in RETURN
        0 => {
            let s = INNER[t.choose(INNER.len())].replace('\n', "\\n").replace('\t', if t.chance(1, 2) { "\t" } else { "\\t" });
            (format!("{}{}'{}'{}AS{}x", kw(t, "RETURN"), w(t), s, w(t), w(t)), false)
        }
        // literal with raw whitespace inside quotes (double quotes variant)
        1 => {
            let s = INNER[t.choose(INNER.len())];
            let s = if s.contains('\n') { "a  b" } else { s };
            (format!("{}{}\"{}\"{}AS{}x{}", kw(t, "RETURN"), w(t), s, w(t), w(t), if t.chance(1, 3) { ";" } else { "" }), false)
        }
        // MATCH on a stored name
        2 => {
            let s = INNER[t.choose(INNER.len())];
            let s = if s.contains('\n') || s.contains('\t') { "a  b" } else { s };
            (format!("{}{}(n:N{}{{name:{}'{}'}}){}{}{}n.name{}AS{}x", kw(t, "MATCH"), w(t), w(t), w(t), s, w(t), kw(t, "RETURN"), w(t), w(t), w(t)), false)
        }
        // line comment: the newline after it is significant
        3 => {
            let tail = if t.chance(1, 2) { "\n" } else { " " };
            let c = ["// c", "// c AS y", "//"][t.choose(3)];
            (format!("RETURN 1 AS x {c}{tail}, 2 AS y"), false)
        }
        // block comment variants (whitespace inside a comment is insignificant, text is)
        4 => {
            let c = ["/* c */", "/*  c  */", "/* c\n*/", ""][t.choose(4)];
            (format!("RETURN{}1{}{}{}AS{}x", w(t), w(t), c, w(t), w(t)), false)
        }
        // WHERE with literal
        5 => {
            let s = INNER[t.choose(INNER.len())];
            let s = if s.contains('\n') || s.contains('\t') { "a b" } else { s };
            (format!("MATCH (n:N){}WHERE{}n.name{}={}'{}'{}RETURN count(n) AS x", w(t), w(t), w(t), w(t), s, w(t)), false)
        }
        // writes through execute_mut
        6 => {
            let s = INNER[t.choose(INNER.len())];
            let s = if s.contains('\n') || s.contains('\t') { "a   b" } else { s };
            (format!("CREATE{}(:M{}{{name:{}'{}'}})", w(t), w(t), w(t), s), true)
        }
        // an earlier literal whose text can derail quote/comment tracking (escaped backslash or
        // quote at its end, the other quote character, comment openers), then a literal whose
        // inner whitespace matters
        8 => {
            const PRE: [&str; 10] = ["'x\\\\'", "'\\''", "\"q\\\\\"", "\"\\\"\"", "'a\"b'", "\"a'b\"", "'//'", "'/*'", "\"*/\"", "'\\\\\\''"];
            let pre = PRE[t.choose(PRE.len())];
            let s = INNER[t.choose(INNER.len())];
            let s = if s.contains('\n') || s.contains('\t') { "a  b" } else { s };
            let q = if t.chance(1, 2) { '\'' } else { '"' };
            // mostly fixed outer whitespace: the strings of one sequence should differ ONLY inside
            // the second literal (a derailed tracker treats the text between the literals as
            // literal text, so differing outer whitespace would hide the collision)
            if t.chance(3, 4) {
                (format!("RETURN {pre} AS p, {q}{s}{q} AS x"), false)
            } else {
                (format!("{}{}{}{}AS{}p,{}{q}{}{q}{}AS{}x", kw(t, "RETURN"), w(t), pre, w(t), w(t), w(t), s, w(t), w(t)), false)
            }
        }
        _ => {
            let s = INNER[t.choose(INNER.len())];
            let s = if s.contains('\n') || s.contains('\t') { "a b" } else { s };
            (format!("MATCH (n:N){}SET{}n.tag{}={}'{}'{}RETURN count(n) AS x", w(t), w(t), w(t), w(t), s, w(t)), true)
        }
    }
}

pub fn gen_sequence(tape: &[u16]) -> Vec<(String, bool)> {
    let mut t = Tape::new(tape);
    let n = 2 + t.choose(7);
    let mut out = Vec::new();
    // stay in one or two families so that near-duplicates meet
    let fam_a = t.choose(9);
    let fam_b = t.choose(9);
    for _ in 0..n {
        let fam = if t.chance(3, 4) { fam_a } else { fam_b };
        out.push(gen_string(&mut t, fam));
    }
    out
}

fn base_store() -> GraphStore {
    let mut s = GraphStore::new();
    let eng = QueryEngine::new();
    for name in ["a b", "a  b", "a   b", " a b", "a b ", "ab"] {
        let q = format!("CREATE (:N {{name: '{name}'}})");
        eng.execute_mut(&q, &mut s, "default").expect("setup");
    }
    s
}

fn canon_batch(b: &RecordBatch) -> Vec<String> {
    let mut rows: Vec<String> = b
        .records
        .iter()
        .map(|r| {
            b.columns
                .iter()
                .map(|c| match r.get(c) {
                    Some(samyama::query::Value::Property(p)) => vcheck::values::canon(p),
                    Some(v) => format!("{:?}", v.node_id().map(|n| n.as_u64())),
                    None => "missing".into(),
                })
                .collect::<Vec<_>>()
                .join(" | ")
        })
        .collect();
    rows.sort();
    let mut out = vec![format!("columns: {:?}", b.columns)];
    out.extend(rows);
    out
}

fn collapse(s: &str) -> String {
    s.split_whitespace().collect::<Vec<_>>().join(" ")
}

/// Ok(nontrivial) or Err(description)
pub fn check_sequence(seq: &[(String, bool)]) -> Result<bool, String> {
    let engine = QueryEngine::new();
    let mut store_a = base_store();
    let mut store_b = base_store();
    let mut nontrivial = false;
    for i in 0..seq.len() {
        for j in 0..i {
            if seq[i].0 != seq[j].0 && collapse(&seq[i].0) == collapse(&seq[j].0) {
                nontrivial = true;
            }
        }
    }
    for (step, (text, is_write)) in seq.iter().enumerate() {
        let via_engine: Result<Result<Vec<String>, String>, String> = catch(|| {
            if *is_write {
                engine.execute_mut(text, &mut store_a, "default").map(|b| canon_batch(&b)).map_err(|e| e.to_string())
            } else {
                engine.execute(text, &store_a).map(|b| canon_batch(&b)).map_err(|e| e.to_string())
            }
        });
        let fresh: Result<Result<Vec<String>, String>, String> = catch(|| {
            let q = parse_query(text).map_err(|e| e.to_string())?;
            if *is_write {
                let mut ex = MutQueryExecutor::new(&mut store_b, "default".to_string());
                ex.execute(&q).map(|b| canon_batch(&b)).map_err(|e| e.to_string())
            } else {
                // reads run on the engine's store so that both see the same data
                let ex = QueryExecutor::new(&store_a);
                ex.execute(&q).map(|b| canon_batch(&b)).map_err(|e| e.to_string())
            }
        });
        let a = via_engine.map_err(|p| format!("step {step}: engine panicked on {text:?}: {p}"))?;
        let b = fresh.map_err(|p| format!("step {step}: fresh parse+execute panicked on {text:?}: {p}"))?;
        match (&a, &b) {
            (Ok(x), Ok(y)) if x == y => {}
            (Err(_), Err(_)) => {}
            _ => {
                return Err(format!("step {step}: query {text:?} answers {a:?} through the engine (cache warmed by {:?}) but {b:?} when parsed afresh", &seq[..step].iter().map(|s| s.0.clone()).collect::<Vec<_>>()));
            }
        }
        if *is_write {
            let (da, db) = (vcheck::dump::dump_by_uid(&store_a, "uid", "rid", false), vcheck::dump::dump_by_uid(&store_b, "uid", "rid", false));
            if da != db {
                return Err(format!("step {step}: after write {text:?} the engine's graph differs from the freshly parsed execution:\n{}", da.diff(&db)));
            }
        }
    }
    Ok(nontrivial)
}

pub fn run(args: &Args) {
    let mut ev = Evidence::new(
        args,
        "exploration",
        "sequences (2-8) of query strings from near-duplicate families (whitespace runs inside and outside string literals, // and /* */ comments around line breaks, keyword case, trailing ';', an earlier literal ending in an escaped backslash/quote or holding the other quote character or a comment opener), reads via QueryEngine::execute and writes via execute_mut; each element's result (and graph after writes) compared with parse_query(exact string) + fresh executor. Non-trivial = sequence holds two different strings whose whitespace-collapsed forms are equal; distinct = distinct sequences.",
    );
    let kf = Known::load(args);
    let _ = &kf;
    if let Some(p) = &args.replay {
        let seq: Vec<(String, bool)> = serde_json::from_value(load_replay(p)).expect("replay");
        ev.case();
        ev.sample(json!(seq));
        ev.nontrivial(&seq);
        ev.nontrivial(&"replay");
        match check_sequence(&seq) {
            Ok(_) => println!("replay: property held"),
            Err(m) => {
                report_violation(&mut ev, &json!(seq), &m);
            }
        }
        finish(&ev);
    }
    for (p, c) in corpus_cases("C03") {
        let seq: Vec<(String, bool)> = serde_json::from_value(c).expect("corpus");
        ev.case();
        ev.class("regression_corpus");
        match check_sequence(&seq) {
            Ok(nt) => {
                if nt {
                    ev.nontrivial(&seq)
                }
            }
            Err(m) => {
                report_violation(&mut ev, &json!(seq), &format!("{m} (corpus {})", p.display()));
                finish(&ev);
            }
        }
    }
    let n = args.tier.pick(20_000u32, 600_000u32);
    let evc = RefCell::new(&mut ev);
    let res = search(args.seed, n, &tape_strategy(120), |tape| {
        let seq = gen_sequence(tape);
        let mut e = evc.borrow_mut();
        e.case();
        match check_sequence(&seq) {
            Ok(nt) => {
                if nt {
                    e.nontrivial(&seq);
                    e.class("collapsed_collision");
                    if e.want_sample() {
                        e.sample(json!(seq));
                    }
                }
                if seq.iter().any(|s| s.1) {
                    e.class("has_write");
                }
                if seq.iter().any(|s| s.0.contains("//") || s.0.contains("/*")) {
                    e.class("has_comment");
                }
                Ok(())
            }
            Err(m) => {
                e.frozen = true;
                Err(m)
            }
        }
    });
    drop(evc);
    if let Some((tape, msg)) = res {
        let seq = gen_sequence(&tape);
        // shrink the sequence itself
        let fails = |cand: &[(String, bool)]| check_sequence(cand).is_err();
        let min = shrink_vec(seq, &fails);
        let msg = check_sequence(&min).err().unwrap_or(msg);
        report_violation(&mut ev, &json!(min), &msg);
    }
    finish(&ev);
}
