//! Reference Cypher evaluator (DESIGN §3.4): brute force over the plain reference graph.
//! Independent of the repo's parser, planner and operators.

use crate::model::*;
use std::cmp::Ordering;
use std::collections::{BTreeMap, BTreeSet};

pub type Env = BTreeMap<String, V>;

#[derive(Debug, Clone)]
pub enum RefErr {
    /// openCypher defines an error for this input (type error, division by zero, …)
    Error(String),
    /// outside the fragment the reference models, or the result is not determined by the spec
    Unsupported(String),
}

/// Named deviations of the engine from the specification. Every field false = openCypher.
#[derive(Clone, Debug, Default, PartialEq)]
pub struct Quirks {
    /// a node pattern with several labels matches nodes carrying ANY of them
    pub multi_label_union: bool,
    /// SET n.p = null keeps a property holding null (only visible through properties(n)/keys(n))
    pub set_null_keeps_property: bool,
    /// DELETE of a connected node silently detaches
    pub delete_connected_detaches: bool,
    /// conjuncts of an OPTIONAL MATCH's WHERE that name no variable introduced by the
    /// optional pattern are applied as a filter on the whole row instead of being scoped
    /// to the optional match
    pub optional_where_outer_global: bool,
    /// WITH whose items are all aggregates yields no row (instead of one) on empty input
    pub with_agg_empty_no_row: bool,
    /// an OPTIONAL MATCH whose pattern shares no variable with the rows so far drops the
    /// row when it finds nothing (instead of padding with nulls)
    pub optional_disconnected_drops: bool,
    /// relationship uniqueness is not enforced across comma-separated patterns of one MATCH
    pub no_cross_pattern_rel_uniqueness: bool,
    /// shortestPath / allShortestPaths ignore the pattern's upper hop bound
    pub shortest_ignores_upper_bound: bool,
    /// variable-length expansion is node reachability (BFS, one row per distinct target)
    pub varlen_bfs_reachability: bool,
    /// a MATCH that follows WITH ignores inline property maps of relationship patterns
    pub post_with_rel_props_ignored: bool,
    /// WITH ... [ORDER BY] SKIP/LIMIT ... WHERE applies the WHERE before the window
    pub with_where_before_window: bool,
    /// MERGE of a relationship between two bound nodes ignores the written direction
    pub merge_bound_rel_left_to_right: bool,
    /// (not a deviation) which of the valid outcomes to produce at the first intermediate
    /// SKIP/LIMIT without ORDER BY: the n-th combination of surviving rows
    pub window_choice: Option<usize>,
}

pub fn expr_vars(e: &E, out: &mut Vec<String>) {
    match e {
        E::Var(v) | E::Prop(v, _) | E::HasLabel(v, _) => out.push(v.clone()),
        E::Lit(_) | E::Param(_) => {}
        E::Cmp(_, a, b) | E::And(a, b) | E::Or(a, b) | E::Xor(a, b) | E::In(a, b) | E::StartsWith(a, b) | E::EndsWith(a, b) | E::Contains(a, b) | E::Arith(_, a, b) => {
            expr_vars(a, out);
            expr_vars(b, out);
        }
        E::Not(a) | E::IsNull(a) | E::IsNotNull(a) | E::Neg(a) => expr_vars(a, out),
        E::Func(_, args) | E::ListE(args) => args.iter().for_each(|a| expr_vars(a, out)),
        E::Case(arms, els) => {
            for (c, v) in arms {
                expr_vars(c, out);
                expr_vars(v, out);
            }
            if let Some(e) = els {
                expr_vars(e, out);
            }
        }
        E::Agg(_, _, a) => {
            if let Some(a) = a {
                expr_vars(a, out)
            }
        }
        E::PatExists(p) => {
            if let Some(v) = &p.start.var {
                out.push(v.clone());
            }
            for (r, n) in &p.steps {
                if let Some(v) = &r.var {
                    out.push(v.clone());
                }
                if let Some(v) = &n.var {
                    out.push(v.clone());
                }
            }
        }
    }
}

fn conjuncts(e: &E, out: &mut Vec<E>) {
    match e {
        E::And(a, b) => {
            conjuncts(a, out);
            conjuncts(b, out);
        }
        other => out.push(other.clone()),
    }
}

#[derive(Debug, Clone)]
pub struct RefResult {
    pub columns: Vec<String>,
    /// rows in one valid order
    pub rows: Vec<Vec<V>>,
    /// final projection had ORDER BY over these output columns (index, descending)
    pub order_cols: Vec<(usize, bool)>,
    /// rows before the final SKIP/LIMIT window (same as `rows` when there is no window)
    pub pre_window: Vec<Vec<V>>,
    pub skip: Option<u64>,
    pub limit: Option<u64>,
    /// the specification does not determine the result (LIMIT without total order upstream, ties at a window edge)
    pub nondeterministic: bool,
    /// a DISTINCT / grouping key met numerically equal Int and Float values (grouping of 1 and 1.0 is disputed)
    pub numeric_grouping_ambiguity: bool,
}

pub struct Ctx<'a> {
    pub g: &'a mut RGraph,
    pub quirks: &'a Quirks,
    pub params: &'a BTreeMap<String, V>,
    pub nondet: bool,
    pub num_ambig: bool,
    /// statistics for the non-triviality rule
    pub wrote: bool,
    /// a WITH clause has been executed in this query part
    pub after_with: bool,
    /// the path being matched starts at an already-bound variable
    pub path_starts_bound: bool,
    /// some MERGE found more than one existing match
    pub merge_multi_match: bool,
    /// (rows before, rows kept) of the first intermediate window without ORDER BY
    pub window_seen: Option<(usize, usize)>,
}

// ---------------------------------------------------------------------------------------
// value semantics

pub fn num(v: &V) -> Option<f64> {
    match v {
        V::Int(i) => Some(*i as f64),
        V::Float(f) => Some(*f),
        _ => None,
    }
}

/// three-valued equality
pub fn eq3(a: &V, b: &V) -> Option<bool> {
    match (a, b) {
        (V::Null, _) | (_, V::Null) => None,
        (V::Int(x), V::Int(y)) => Some(x == y),
        (V::Int(_) | V::Float(_), V::Int(_) | V::Float(_)) => Some(num(a).unwrap() == num(b).unwrap()),
        (V::Str(x), V::Str(y)) => Some(x == y),
        (V::Bool(x), V::Bool(y)) => Some(x == y),
        (V::Node(x), V::Node(y)) => Some(x == y),
        (V::Rel(x), V::Rel(y)) => Some(x == y),
        (V::Path(n1, r1), V::Path(n2, r2)) => Some(n1 == n2 && r1 == r2),
        (V::List(x), V::List(y)) => {
            if x.len() != y.len() {
                return Some(false);
            }
            let mut unknown = false;
            for (p, q) in x.iter().zip(y.iter()) {
                match eq3(p, q) {
                    Some(false) => return Some(false),
                    None => unknown = true,
                    Some(true) => {}
                }
            }
            if unknown {
                None
            } else {
                Some(true)
            }
        }
        (V::Map(x), V::Map(y)) => {
            if x.keys().collect::<Vec<_>>() != y.keys().collect::<Vec<_>>() {
                return Some(false);
            }
            let mut unknown = false;
            for (k, p) in x {
                match eq3(p, &y[k]) {
                    Some(false) => return Some(false),
                    None => unknown = true,
                    Some(true) => {}
                }
            }
            if unknown {
                None
            } else {
                Some(true)
            }
        }
        _ => Some(false),
    }
}

/// three-valued ordering comparison (`<` family): None = null (incomparable)
pub fn cmp3(a: &V, b: &V) -> Option<Ordering> {
    match (a, b) {
        (V::Null, _) | (_, V::Null) => None,
        (V::Int(x), V::Int(y)) => Some(x.cmp(y)),
        (V::Int(_) | V::Float(_), V::Int(_) | V::Float(_)) => num(a).unwrap().partial_cmp(&num(b).unwrap()),
        (V::Str(x), V::Str(y)) => Some(x.cmp(y)),
        (V::Bool(x), V::Bool(y)) => Some(x.cmp(y)),
        _ => None,
    }
}

/// openCypher orderability (ORDER BY / min / max): total preorder
pub fn order_cmp(a: &V, b: &V) -> Ordering {
    fn rank(v: &V) -> u8 {
        match v {
            V::Map(_) => 0,
            V::Node(_) => 1,
            V::Rel(_) => 2,
            V::List(_) => 3,
            V::Path(..) => 4,
            V::Str(_) => 5,
            V::Bool(_) => 6,
            V::Int(_) | V::Float(_) => 7,
            V::Null => 9,
        }
    }
    let (ra, rb) = (rank(a), rank(b));
    if ra != rb {
        return ra.cmp(&rb);
    }
    match (a, b) {
        (V::Str(x), V::Str(y)) => x.cmp(y),
        (V::Bool(x), V::Bool(y)) => x.cmp(y),
        (V::Int(x), V::Int(y)) => x.cmp(y),
        (V::Int(_) | V::Float(_), V::Int(_) | V::Float(_)) => {
            let (x, y) = (num(a).unwrap(), num(b).unwrap());
            match (x.is_nan(), y.is_nan()) {
                (true, true) => Ordering::Equal,
                (true, false) => Ordering::Greater,
                (false, true) => Ordering::Less,
                _ => x.partial_cmp(&y).unwrap(),
            }
        }
        (V::List(x), V::List(y)) => {
            for (p, q) in x.iter().zip(y.iter()) {
                let c = order_cmp(p, q);
                if c != Ordering::Equal {
                    return c;
                }
            }
            x.len().cmp(&y.len())
        }
        (V::Node(x), V::Node(y)) => x.cmp(y),
        (V::Rel(x), V::Rel(y)) => x.cmp(y),
        _ => Ordering::Equal,
    }
}

fn truth(v: &V) -> Result<Option<bool>, RefErr> {
    match v {
        V::Null => Ok(None),
        V::Bool(b) => Ok(Some(*b)),
        other => Err(RefErr::Error(format!("boolean expected, got {}", other.canon()))),
    }
}
fn tv(b: Option<bool>) -> V {
    match b {
        None => V::Null,
        Some(x) => V::Bool(x),
    }
}

// ---------------------------------------------------------------------------------------
// expressions

pub fn eval(e: &E, env: &Env, cx: &mut Ctx) -> Result<V, RefErr> {
    Ok(match e {
        E::Lit(v) => v.clone(),
        E::Param(p) => cx.params.get(p).cloned().ok_or_else(|| RefErr::Error(format!("missing parameter {p}")))?,
        E::Var(v) => env.get(v).cloned().ok_or_else(|| RefErr::Error(format!("unbound variable {v}")))?,
        E::Prop(v, k) => {
            let base = env.get(v).cloned().ok_or_else(|| RefErr::Error(format!("unbound variable {v}")))?;
            match base {
                V::Null => V::Null,
                V::Node(i) => {
                    if cx.g.nodes[i].deleted {
                        return Err(RefErr::Unsupported("property of deleted node".into()));
                    }
                    cx.g.nodes[i].props.get(k).cloned().unwrap_or(V::Null)
                }
                V::Rel(i) => {
                    if cx.g.rels[i].deleted {
                        return Err(RefErr::Unsupported("property of deleted relationship".into()));
                    }
                    cx.g.rels[i].props.get(k).cloned().unwrap_or(V::Null)
                }
                V::Map(m) => m.get(k).cloned().unwrap_or(V::Null),
                other => return Err(RefErr::Error(format!("property access on {}", other.canon()))),
            }
        }
        E::Cmp(op, a, b) => {
            let (x, y) = (eval(a, env, cx)?, eval(b, env, cx)?);
            match op {
                CmpOp::Eq => tv(eq3(&x, &y)),
                CmpOp::Ne => tv(eq3(&x, &y).map(|t| !t)),
                _ => {
                    if x.is_null() || y.is_null() {
                        V::Null
                    } else if matches!((&x, &y), (V::Float(f), _) | (_, V::Float(f)) if f.is_nan()) && num(&x).is_some() && num(&y).is_some() {
                        V::Bool(false)
                    } else {
                        match cmp3(&x, &y) {
                            None => V::Null,
                            Some(o) => V::Bool(match op {
                                CmpOp::Lt => o == Ordering::Less,
                                CmpOp::Le => o != Ordering::Greater,
                                CmpOp::Gt => o == Ordering::Greater,
                                CmpOp::Ge => o != Ordering::Less,
                                _ => unreachable!(),
                            }),
                        }
                    }
                }
            }
        }
        E::And(a, b) => {
            let x = truth(&eval(a, env, cx)?)?;
            let y = truth(&eval(b, env, cx)?)?;
            tv(match (x, y) {
                (Some(false), _) | (_, Some(false)) => Some(false),
                (Some(true), Some(true)) => Some(true),
                _ => None,
            })
        }
        E::Or(a, b) => {
            let x = truth(&eval(a, env, cx)?)?;
            let y = truth(&eval(b, env, cx)?)?;
            tv(match (x, y) {
                (Some(true), _) | (_, Some(true)) => Some(true),
                (Some(false), Some(false)) => Some(false),
                _ => None,
            })
        }
        E::Xor(a, b) => {
            let x = truth(&eval(a, env, cx)?)?;
            let y = truth(&eval(b, env, cx)?)?;
            tv(match (x, y) {
                (Some(p), Some(q)) => Some(p != q),
                _ => None,
            })
        }
        E::Not(a) => tv(truth(&eval(a, env, cx)?)?.map(|t| !t)),
        E::IsNull(a) => V::Bool(eval(a, env, cx)?.is_null()),
        E::IsNotNull(a) => V::Bool(!eval(a, env, cx)?.is_null()),
        E::In(a, b) => {
            let x = eval(a, env, cx)?;
            match eval(b, env, cx)? {
                V::Null => V::Null,
                V::List(items) => {
                    let mut unknown = false;
                    let mut found = false;
                    for it in &items {
                        match eq3(&x, it) {
                            Some(true) => {
                                found = true;
                                break;
                            }
                            None => unknown = true,
                            Some(false) => {}
                        }
                    }
                    if found {
                        V::Bool(true)
                    } else if unknown {
                        V::Null
                    } else {
                        V::Bool(false)
                    }
                }
                other => return Err(RefErr::Error(format!("IN expects a list, got {}", other.canon()))),
            }
        }
        E::StartsWith(a, b) | E::EndsWith(a, b) | E::Contains(a, b) => {
            let (x, y) = (eval(a, env, cx)?, eval(b, env, cx)?);
            match (&x, &y) {
                (V::Str(s), V::Str(t)) => V::Bool(match e {
                    E::StartsWith(..) => s.starts_with(t.as_str()),
                    E::EndsWith(..) => s.ends_with(t.as_str()),
                    _ => s.contains(t.as_str()),
                }),
                _ => V::Null,
            }
        }
        E::HasLabel(v, l) => match env.get(v) {
            Some(V::Node(i)) => V::Bool(cx.g.nodes[*i].labels.contains(l)),
            Some(V::Null) => V::Null,
            _ => return Err(RefErr::Error(format!("label test on non-node {v}"))),
        },
        E::Arith(op, a, b) => {
            let (x, y) = (eval(a, env, cx)?, eval(b, env, cx)?);
            if x.is_null() || y.is_null() {
                return Ok(V::Null);
            }
            match (&x, &y) {
                (V::Int(p), V::Int(q)) => {
                    let r = match op {
                        ArOp::Add => p.checked_add(*q),
                        ArOp::Sub => p.checked_sub(*q),
                        ArOp::Mul => p.checked_mul(*q),
                        ArOp::Div => {
                            if *q == 0 {
                                return Err(RefErr::Error("division by zero".into()));
                            }
                            p.checked_div(*q)
                        }
                        ArOp::Mod => {
                            if *q == 0 {
                                return Err(RefErr::Error("modulo by zero".into()));
                            }
                            p.checked_rem(*q)
                        }
                    };
                    V::Int(r.ok_or_else(|| RefErr::Error("integer overflow".into()))?)
                }
                (V::Int(_) | V::Float(_), V::Int(_) | V::Float(_)) => {
                    let (p, q) = (num(&x).unwrap(), num(&y).unwrap());
                    V::Float(match op {
                        ArOp::Add => p + q,
                        ArOp::Sub => p - q,
                        ArOp::Mul => p * q,
                        ArOp::Div => p / q,
                        ArOp::Mod => p % q,
                    })
                }
                (V::Str(p), V::Str(q)) if *op == ArOp::Add => V::Str(format!("{p}{q}")),
                (V::List(p), V::List(q)) if *op == ArOp::Add => V::List(p.iter().chain(q.iter()).cloned().collect()),
                _ => return Err(RefErr::Unsupported(format!("arithmetic on {} and {}", x.canon(), y.canon()))),
            }
        }
        E::Neg(a) => match eval(a, env, cx)? {
            V::Null => V::Null,
            V::Int(i) => V::Int(i.checked_neg().ok_or_else(|| RefErr::Error("integer overflow".into()))?),
            V::Float(f) => V::Float(-f),
            other => return Err(RefErr::Error(format!("negation of {}", other.canon()))),
        },
        E::Func(name, args) => {
            let lname = name.to_ascii_lowercase();
            match lname.as_str() {
                "coalesce" => {
                    for a in args {
                        let v = eval(a, env, cx)?;
                        if !v.is_null() {
                            return Ok(v);
                        }
                    }
                    V::Null
                }
                "labels" => match eval(&args[0], env, cx)? {
                    V::Null => V::Null,
                    V::Node(i) => V::List(cx.g.nodes[i].labels.iter().map(|l| V::Str(l.clone())).collect()),
                    _ => return Err(RefErr::Error("labels() of non-node".into())),
                },
                "type" => match eval(&args[0], env, cx)? {
                    V::Null => V::Null,
                    V::Rel(i) => V::Str(cx.g.rels[i].ty.clone()),
                    _ => return Err(RefErr::Error("type() of non-relationship".into())),
                },
                "size" => match eval(&args[0], env, cx)? {
                    V::Null => V::Null,
                    V::List(l) => V::Int(l.len() as i64),
                    V::Str(s) => V::Int(s.chars().count() as i64),
                    _ => return Err(RefErr::Error("size() of non-list".into())),
                },
                "length" => match eval(&args[0], env, cx)? {
                    V::Null => V::Null,
                    V::Path(_, r) => V::Int(r.len() as i64),
                    _ => return Err(RefErr::Unsupported("length() of non-path".into())),
                },
                "abs" => match eval(&args[0], env, cx)? {
                    V::Null => V::Null,
                    V::Int(i) => V::Int(i.checked_abs().ok_or_else(|| RefErr::Error("integer overflow".into()))?),
                    V::Float(f) => V::Float(f.abs()),
                    _ => return Err(RefErr::Error("abs() of non-number".into())),
                },
                "tostring" => match eval(&args[0], env, cx)? {
                    V::Null => V::Null,
                    V::Int(i) => V::Str(i.to_string()),
                    V::Str(s) => V::Str(s),
                    V::Bool(b) => V::Str(b.to_string()),
                    _ => return Err(RefErr::Unsupported("toString of float/other".into())),
                },
                "startnode" | "endnode" => match eval(&args[0], env, cx)? {
                    V::Null => V::Null,
                    V::Rel(i) => V::Node(if lname == "startnode" { cx.g.rels[i].src } else { cx.g.rels[i].dst }),
                    _ => return Err(RefErr::Error("startNode of non-relationship".into())),
                },
                "properties" => match eval(&args[0], env, cx)? {
                    V::Null => V::Null,
                    V::Node(i) => V::Map(cx.g.nodes[i].props.iter().filter(|(_, v)| cx.quirks.set_null_keeps_property || !v.is_null()).map(|(k, v)| (k.clone(), v.clone())).collect()),
                    V::Rel(i) => V::Map(cx.g.rels[i].props.iter().filter(|(_, v)| cx.quirks.set_null_keeps_property || !v.is_null()).map(|(k, v)| (k.clone(), v.clone())).collect()),
                    V::Map(m) => V::Map(m),
                    _ => return Err(RefErr::Error("properties() of non-entity".into())),
                },
                other => return Err(RefErr::Unsupported(format!("function {other}"))),
            }
        }
        E::Agg(..) => return Err(RefErr::Unsupported("aggregate outside projection".into())),
        E::ListE(items) => {
            let mut out = Vec::new();
            for it in items {
                out.push(eval(it, env, cx)?);
            }
            V::List(out)
        }
        E::PatExists(p) => {
            let rows = match_patterns(std::slice::from_ref(p.as_ref()), env, cx)?;
            V::Bool(!rows.is_empty())
        }
        E::Case(arms, els) => {
            // first WHEN whose condition is true; null and false both fall through
            for (c, v) in arms {
                if truth(&eval(c, env, cx)?)? == Some(true) {
                    return eval(v, env, cx);
                }
            }
            match els {
                Some(e) => eval(e, env, cx)?,
                None => V::Null,
            }
        }
    })
}

// ---------------------------------------------------------------------------------------
// pattern matching (brute force, relationship isomorphism within one MATCH)

fn node_ok(n: &NodePat, idx: usize, env: &Env, cx: &mut Ctx) -> Result<bool, RefErr> {
    let node = cx.g.nodes[idx].clone();
    if node.deleted {
        return Ok(false);
    }
    if !n.labels.is_empty() {
        let ok = if cx.quirks.multi_label_union && n.labels.len() > 1 { n.labels.iter().any(|l| node.labels.contains(l)) } else { n.labels.iter().all(|l| node.labels.contains(l)) };
        if !ok {
            return Ok(false);
        }
    }
    for (k, e) in &n.props {
        let want = eval(e, env, cx)?;
        let have = node.props.get(k).cloned().unwrap_or(V::Null);
        if eq3(&have, &want) != Some(true) {
            return Ok(false);
        }
    }
    Ok(true)
}

fn rel_ok(r: &RelPat, idx: usize, env: &Env, cx: &mut Ctx) -> Result<bool, RefErr> {
    let rel = cx.g.rels[idx].clone();
    if rel.deleted {
        return Ok(false);
    }
    if !r.types.is_empty() && !r.types.contains(&rel.ty) {
        return Ok(false);
    }
    if cx.quirks.post_with_rel_props_ignored && cx.after_with && cx.path_starts_bound {
        return Ok(true);
    }
    for (k, e) in &r.props {
        let want = eval(e, env, cx)?;
        let have = rel.props.get(k).cloned().unwrap_or(V::Null);
        if eq3(&have, &want) != Some(true) {
            return Ok(false);
        }
    }
    Ok(true)
}

/// candidate (rel, other endpoint) pairs leaving `from` under the pattern's direction
fn steps_from(r: &RelPat, from: usize, cx: &Ctx) -> Vec<(usize, usize)> {
    let mut out = Vec::new();
    for i in 0..cx.g.rels.len() {
        let rel = &cx.g.rels[i];
        if rel.deleted {
            continue;
        }
        match r.dir {
            Dir::Out => {
                if rel.src == from {
                    out.push((i, rel.dst));
                }
            }
            Dir::In => {
                if rel.dst == from {
                    out.push((i, rel.src));
                }
            }
            Dir::Both => {
                if rel.src == from {
                    out.push((i, rel.dst));
                }
                if rel.dst == from && rel.src != rel.dst {
                    out.push((i, rel.src));
                }
            }
        }
    }
    out
}

fn bind_node(n: &NodePat, idx: usize, env: &Env, cx: &mut Ctx) -> Result<Option<Env>, RefErr> {
    if let Some(v) = &n.var {
        if let Some(existing) = env.get(v) {
            match existing {
                V::Node(j) if *j == idx => {}
                V::Node(_) => return Ok(None),
                V::Null => return Ok(None),
                _ => return Err(RefErr::Error(format!("variable {v} is not a node"))),
            }
        }
    }
    if !node_ok(n, idx, env, cx)? {
        return Ok(None);
    }
    let mut e2 = env.clone();
    if let Some(v) = &n.var {
        e2.insert(v.clone(), V::Node(idx));
    }
    Ok(Some(e2))
}

struct PathState {
    env: Env,
    used: Vec<usize>,
    nodes: Vec<usize>,
    rels: Vec<usize>,
}

fn extend_path(p: &PathPat, step: usize, st: PathState, cx: &mut Ctx, out: &mut Vec<PathState>) -> Result<(), RefErr> {
    if step == p.steps.len() {
        out.push(st);
        return Ok(());
    }
    let (rp, np) = &p.steps[step];
    let cur = *st.nodes.last().unwrap();
    match &rp.varlen {
        None => {
            // bound relationship variable (from an earlier clause): must be that relationship
            let bound = match rp.var.as_ref().and_then(|v| st.env.get(v)) {
                Some(V::Rel(i)) => Some(*i),
                Some(V::Null) => return Ok(()),
                Some(_) => return Err(RefErr::Error("relationship variable bound to non-relationship".into())),
                None => None,
            };
            for (ri, other) in steps_from(rp, cur, cx) {
                if let Some(b) = bound {
                    if b != ri {
                        continue;
                    }
                }
                if st.used.contains(&ri) {
                    continue;
                }
                if !rel_ok(rp, ri, &st.env, cx)? {
                    continue;
                }
                if let Some(mut e2) = bind_node(np, other, &st.env, cx)? {
                    if let Some(v) = &rp.var {
                        e2.insert(v.clone(), V::Rel(ri));
                    }
                    let mut used = st.used.clone();
                    used.push(ri);
                    let mut nodes = st.nodes.clone();
                    nodes.push(other);
                    let mut rels = st.rels.clone();
                    rels.push(ri);
                    extend_path(p, step + 1, PathState { env: e2, used, nodes, rels }, cx, out)?;
                }
            }
        }
        Some((lo, hi)) => {
            if rp.var.as_ref().map(|v| st.env.contains_key(v)).unwrap_or(false) {
                return Err(RefErr::Unsupported("bound variable-length relationship variable".into()));
            }
            let lo = lo.unwrap_or(1) as usize;
            let hi = if cx.quirks.shortest_ignores_upper_bound && p.shortest != Shortest::No { usize::MAX } else { hi.map(|h| h as usize).unwrap_or(usize::MAX) };
            if cx.quirks.varlen_bfs_reachability && p.shortest == Shortest::No {
                // the engine's documented semantics: breadth-first from the source with a
                // visited set, one output per node first reached at a depth in [lo, hi];
                // relationship uniqueness against the rest of the pattern is not applied
                let mut emit: Vec<(usize, Vec<usize>, Vec<usize>)> = Vec::new(); // (node, rels, nodes)
                let mut visited: BTreeSet<usize> = BTreeSet::new();
                visited.insert(cur);
                let mut paths: BTreeMap<usize, (Vec<usize>, Vec<usize>)> = BTreeMap::new();
                paths.insert(cur, (vec![], vec![]));
                if lo == 0 {
                    emit.push((cur, vec![], vec![]));
                }
                let mut frontier = vec![cur];
                let mut depth = 0usize;
                while !frontier.is_empty() && depth < hi {
                    depth += 1;
                    let mut next = Vec::new();
                    for c in &frontier {
                        for (ri, other) in steps_from(rp, *c, cx) {
                            if !rel_ok(rp, ri, &st.env, cx)? {
                                continue;
                            }
                            if visited.insert(other) {
                                let (mut rs, mut ns) = paths[c].clone();
                                rs.push(ri);
                                ns.push(other);
                                paths.insert(other, (rs, ns));
                                next.push(other);
                            }
                        }
                    }
                    if depth >= lo {
                        for nb in &next {
                            let (rs, ns) = paths[nb].clone();
                            emit.push((*nb, rs, ns));
                        }
                    }
                    frontier = next;
                }
                for (at, wrels, wnodes) in emit {
                    if let Some(mut e2) = bind_node(np, at, &st.env, cx)? {
                        if let Some(v) = &rp.var {
                            e2.insert(v.clone(), V::List(wrels.iter().map(|r| V::Rel(*r)).collect()));
                        }
                        let mut nodes = st.nodes.clone();
                        nodes.extend(wnodes.iter().cloned());
                        let mut rels = st.rels.clone();
                        rels.extend(wrels.iter().cloned());
                        extend_path(p, step + 1, PathState { env: e2, used: st.used.clone(), nodes, rels }, cx, out)?;
                    }
                }
                return Ok(());
            }
            // DFS over all relationship-distinct walks
            struct W {
                at: usize,
                rels: Vec<usize>,
                nodes: Vec<usize>,
            }
            let mut stack = vec![W { at: cur, rels: vec![], nodes: vec![] }];
            while let Some(w) = stack.pop() {
                let len = w.rels.len();
                if len >= lo && len <= hi {
                    if let Some(mut e2) = bind_node(np, w.at, &st.env, cx)? {
                        if let Some(v) = &rp.var {
                            e2.insert(v.clone(), V::List(w.rels.iter().map(|r| V::Rel(*r)).collect()));
                        }
                        let mut used = st.used.clone();
                        used.extend(w.rels.iter().cloned());
                        let mut nodes = st.nodes.clone();
                        nodes.extend(w.nodes.iter().cloned());
                        let mut rels = st.rels.clone();
                        rels.extend(w.rels.iter().cloned());
                        extend_path(p, step + 1, PathState { env: e2, used, nodes, rels }, cx, out)?;
                    }
                }
                if len < hi {
                    for (ri, other) in steps_from(rp, w.at, cx) {
                        if st.used.contains(&ri) || w.rels.contains(&ri) {
                            continue;
                        }
                        if !rel_ok(rp, ri, &st.env, cx)? {
                            continue;
                        }
                        let mut rels = w.rels.clone();
                        rels.push(ri);
                        let mut nodes = w.nodes.clone();
                        nodes.push(other);
                        stack.push(W { at: other, rels, nodes });
                    }
                }
            }
        }
    }
    Ok(())
}

fn match_one_path(p: &PathPat, env: &Env, used: &[usize], cx: &mut Ctx) -> Result<Vec<(Env, Vec<usize>)>, RefErr> {
    let mut starts = Vec::new();
    cx.path_starts_bound = p.start.var.as_ref().map(|v| env.contains_key(v)).unwrap_or(false);
    let bound_start = match p.start.var.as_ref().and_then(|v| env.get(v)) {
        Some(V::Node(i)) => Some(*i),
        Some(V::Null) => return Ok(vec![]),
        Some(_) => return Err(RefErr::Error("node variable bound to non-node".into())),
        None => None,
    };
    for i in 0..cx.g.nodes.len() {
        if let Some(b) = bound_start {
            if b != i {
                continue;
            }
        }
        if let Some(e2) = bind_node(&p.start, i, env, cx)? {
            starts.push((i, e2));
        }
    }
    let mut results = Vec::new();
    for (i, e2) in starts {
        let mut out = Vec::new();
        extend_path(p, 0, PathState { env: e2, used: used.to_vec(), nodes: vec![i], rels: vec![] }, cx, &mut out)?;
        for st in out {
            results.push(st);
        }
    }
    if p.shortest != Shortest::No {
        // group by (start, end) and keep the minimal length
        let mut best: BTreeMap<(usize, usize), usize> = BTreeMap::new();
        for st in &results {
            let key = (st.nodes[0], *st.nodes.last().unwrap());
            let l = st.rels.len();
            let b = best.entry(key).or_insert(l);
            if l < *b {
                *b = l;
            }
        }
        let mut kept: Vec<PathState> = Vec::new();
        let mut seen: BTreeSet<(usize, usize)> = BTreeSet::new();
        for st in results {
            let key = (st.nodes[0], *st.nodes.last().unwrap());
            if st.rels.len() != best[&key] {
                continue;
            }
            if p.shortest == Shortest::One {
                if !seen.insert(key) {
                    // more than one shortest path: which one is returned is not determined
                    cx.nondet = true;
                    continue;
                }
            }
            kept.push(st);
        }
        results = kept;
    }
    let mut out = Vec::new();
    for st in results {
        let mut e = st.env;
        if let Some(n) = &p.name {
            e.insert(n.clone(), V::Path(st.nodes.clone(), st.rels.clone()));
        }
        out.push((e, st.used));
    }
    Ok(out)
}

pub fn match_patterns(patterns: &[PathPat], env: &Env, cx: &mut Ctx) -> Result<Vec<Env>, RefErr> {
    let mut states: Vec<(Env, Vec<usize>)> = vec![(env.clone(), vec![])];
    for p in patterns {
        let mut next = Vec::new();
        for (e, used) in &states {
            if cx.quirks.no_cross_pattern_rel_uniqueness {
                next.extend(match_one_path(p, e, &[], cx)?);
            } else {
                next.extend(match_one_path(p, e, used, cx)?);
            }
        }
        states = next;
    }
    Ok(states.into_iter().map(|(e, _)| e).collect())
}

fn pattern_vars(patterns: &[PathPat]) -> Vec<String> {
    let mut out = Vec::new();
    for p in patterns {
        if let Some(n) = &p.name {
            out.push(n.clone());
        }
        if let Some(v) = &p.start.var {
            out.push(v.clone());
        }
        for (r, n) in &p.steps {
            if let Some(v) = &r.var {
                out.push(v.clone());
            }
            if let Some(v) = &n.var {
                out.push(v.clone());
            }
        }
    }
    out
}

// ---------------------------------------------------------------------------------------
// projection

fn has_agg(e: &E) -> bool {
    matches!(e, E::Agg(..))
}

pub fn item_name(i: &Item) -> String {
    match &i.alias {
        Some(a) => a.clone(),
        None => render_expr(&i.expr),
    }
}

fn aggregate(kind: &AggKind, distinct: bool, arg: &Option<Box<E>>, group: &[Env], cx: &mut Ctx) -> Result<V, RefErr> {
    if *kind == AggKind::CountStar {
        return Ok(V::Int(group.len() as i64));
    }
    let arg = arg.as_ref().unwrap();
    let mut vals = Vec::new();
    for env in group {
        let v = eval(arg, env, cx)?;
        if !v.is_null() {
            vals.push(v);
        }
    }
    if distinct {
        let mut seen = BTreeSet::new();
        let mut seen_num = BTreeSet::new();
        let mut out = Vec::new();
        for v in vals {
            if seen.insert(v.canon()) {
                if !seen_num.insert(v.canon_numeric()) {
                    cx.num_ambig = true;
                }
                out.push(v);
            }
        }
        vals = out;
    }
    Ok(match kind {
        AggKind::Count => V::Int(vals.len() as i64),
        AggKind::Collect => V::List(vals),
        AggKind::Min | AggKind::Max => {
            if vals.is_empty() {
                V::Null
            } else {
                // mixed-type min/max follows orderability; ties between numerically equal Int/Float are ambiguous
                let mut best = vals[0].clone();
                for v in &vals[1..] {
                    let c = order_cmp(v, &best);
                    if (*kind == AggKind::Min && c == Ordering::Less) || (*kind == AggKind::Max && c == Ordering::Greater) {
                        best = v.clone();
                    } else if c == Ordering::Equal && v.canon() != best.canon() {
                        cx.num_ambig = true;
                    }
                }
                best
            }
        }
        AggKind::Sum => {
            let mut all_int = true;
            let mut si: i64 = 0;
            let mut sf: f64 = 0.0;
            for v in &vals {
                match v {
                    V::Int(i) => {
                        si = si.checked_add(*i).ok_or_else(|| RefErr::Error("integer overflow".into()))?;
                        sf += *i as f64;
                    }
                    V::Float(f) => {
                        all_int = false;
                        sf += f;
                    }
                    other => return Err(RefErr::Error(format!("sum of non-number {}", other.canon()))),
                }
            }
            if all_int {
                V::Int(si)
            } else {
                V::Float(sf)
            }
        }
        AggKind::Avg => {
            if vals.is_empty() {
                V::Null
            } else {
                let mut sf = 0.0;
                for v in &vals {
                    sf += num(v).ok_or_else(|| RefErr::Error("avg of non-number".into()))?;
                }
                V::Float(sf / vals.len() as f64)
            }
        }
        AggKind::CountStar => unreachable!(),
    })
}

struct Projected {
    columns: Vec<String>,
    /// projected rows
    rows: Vec<Vec<V>>,
    order_cols: Vec<(usize, bool)>,
    pre_window: Vec<Vec<V>>,
}

fn project(proj: &Proj, input: Vec<Env>, cx: &mut Ctx, is_final: bool) -> Result<Projected, RefErr> {
    let columns: Vec<String> = proj.items.iter().map(item_name).collect();
    let any_agg = proj.items.iter().any(|i| has_agg(&i.expr));
    let mut rows: Vec<Vec<V>> = Vec::new();
    if any_agg {
        // group by the non-aggregate items
        let mut groups: Vec<(Vec<V>, Vec<Env>)> = Vec::new();
        let mut index: BTreeMap<String, usize> = BTreeMap::new();
        let mut index_num: BTreeMap<String, String> = BTreeMap::new();
        for env in input {
            let mut key = Vec::new();
            for it in &proj.items {
                if !has_agg(&it.expr) {
                    key.push(eval(&it.expr, &env, cx)?);
                }
            }
            let ck = key.iter().map(|v| v.canon()).collect::<Vec<_>>().join("|");
            let cn = key.iter().map(|v| v.canon_numeric()).collect::<Vec<_>>().join("|");
            if let Some(prev) = index_num.get(&cn) {
                if *prev != ck {
                    cx.num_ambig = true;
                }
            } else {
                index_num.insert(cn, ck.clone());
            }
            let gi = *index.entry(ck).or_insert_with(|| {
                groups.push((key.clone(), Vec::new()));
                groups.len() - 1
            });
            groups[gi].1.push(env);
        }
        let all_agg = proj.items.iter().all(|i| has_agg(&i.expr));
        if groups.is_empty() && all_agg && !(cx.quirks.with_agg_empty_no_row && !is_final) {
            groups.push((vec![], vec![]));
        }
        for (key, members) in groups {
            let mut row = Vec::new();
            let mut ki = 0;
            for it in &proj.items {
                if let E::Agg(kind, distinct, arg) = &it.expr {
                    row.push(aggregate(kind, *distinct, arg, &members, cx)?);
                } else {
                    row.push(key[ki].clone());
                    ki += 1;
                }
            }
            rows.push(row);
        }
    } else {
        for env in input {
            let mut row = Vec::new();
            for it in &proj.items {
                row.push(eval(&it.expr, &env, cx)?);
            }
            rows.push(row);
        }
    }
    if proj.distinct {
        let mut seen = BTreeSet::new();
        let mut seen_num: BTreeMap<String, String> = BTreeMap::new();
        let mut out = Vec::new();
        for r in rows {
            let ck = r.iter().map(|v| v.canon()).collect::<Vec<_>>().join("|");
            let cn = r.iter().map(|v| v.canon_numeric()).collect::<Vec<_>>().join("|");
            if let Some(prev) = seen_num.get(&cn) {
                if *prev != ck {
                    cx.num_ambig = true;
                }
            } else {
                seen_num.insert(cn, ck.clone());
            }
            if seen.insert(ck) {
                out.push(r);
            }
        }
        rows = out;
    }
    // ORDER BY: only over projected columns (alias or identical expression text)
    let mut order_cols = Vec::new();
    for (e, desc) in &proj.order {
        let name = render_expr(e);
        let idx = columns.iter().position(|c| *c == name).or_else(|| proj.items.iter().position(|i| render_expr(&i.expr) == name));
        match idx {
            Some(i) => order_cols.push((i, *desc)),
            None => return Err(RefErr::Unsupported("ORDER BY over a non-projected expression".into())),
        }
    }
    if !order_cols.is_empty() {
        rows.sort_by(|a, b| {
            for (i, desc) in &order_cols {
                let c = order_cmp(&a[*i], &b[*i]);
                let c = if *desc { c.reverse() } else { c };
                if c != Ordering::Equal {
                    return c;
                }
            }
            Ordering::Equal
        });
    }
    let pre_window = rows.clone();
    if proj.skip.is_some() || proj.limit.is_some() {
        let skip = proj.skip.unwrap_or(0) as usize;
        let lim = proj.limit.map(|l| l as usize).unwrap_or(usize::MAX);
        let n = rows.len();
        let lo = skip.min(n);
        let hi = lo.saturating_add(lim).min(n);
        // determinism of the window
        let keys_eq = |a: &Vec<V>, b: &Vec<V>| order_cols.iter().all(|(i, _)| order_cmp(&a[*i], &b[*i]) == Ordering::Equal);
        let whole = lo == 0 && hi == n;
        if !whole && !is_final {
            if order_cols.is_empty() {
                // which rows survive is not determined
                let distinct_rows: BTreeSet<String> = rows.iter().map(|r| r.iter().map(|v| v.canon()).collect::<Vec<_>>().join("|")).collect();
                if distinct_rows.len() > 1 {
                    match (cx.quirks.window_choice, cx.window_seen) {
                        (Some(choice), None) => {
                            // enumerate the valid outcomes: any `hi - lo` of the n rows may survive
                            let take = hi - lo;
                            cx.window_seen = Some((n, take));
                            match nth_combination(n, take, choice) {
                                Some(idx) => {
                                    rows = idx.into_iter().map(|i| rows[i].clone()).collect();
                                    return Ok(Projected { columns, rows, order_cols, pre_window });
                                }
                                None => return Err(RefErr::Unsupported("window choices exhausted".into())),
                            }
                        }
                        _ => cx.nondet = true,
                    }
                }
            } else {
                // a window edge that falls inside a group of rows with equal sort keys leaves
                // the choice open whenever that group holds different rows
                let canon_of = |r: &Vec<V>| r.iter().map(|v| v.canon()).collect::<Vec<_>>();
                for edge in [lo, hi] {
                    if edge > 0 && edge < n && keys_eq(&rows[edge - 1], &rows[edge]) {
                        let mut a = edge - 1;
                        while a > 0 && keys_eq(&rows[a - 1], &rows[edge]) {
                            a -= 1;
                        }
                        let mut b = edge;
                        while b + 1 < n && keys_eq(&rows[b + 1], &rows[edge]) {
                            b += 1;
                        }
                        let first = canon_of(&rows[a]);
                        if rows[a..=b].iter().any(|r| canon_of(r) != first) {
                            cx.nondet = true;
                        }
                    }
                }
            }
        }
        rows = rows[lo..hi].to_vec();
    }
    Ok(Projected { columns, rows, order_cols, pre_window })
}

/// the `idx`-th (lexicographic) combination of `k` indices out of `n`, None when exhausted
pub fn nth_combination(n: usize, k: usize, idx: usize) -> Option<Vec<usize>> {
    if k > n {
        return None;
    }
    let mut comb: Vec<usize> = (0..k).collect();
    for _ in 0..idx {
        // advance to the next combination
        let mut i = k;
        loop {
            if i == 0 {
                return None;
            }
            i -= 1;
            if comb[i] != i + n - k {
                break;
            }
            if i == 0 {
                return None;
            }
        }
        comb[i] += 1;
        for j in i + 1..k {
            comb[j] = comb[j - 1] + 1;
        }
    }
    if k == 0 && idx > 0 {
        return None;
    }
    Some(comb)
}

// ---------------------------------------------------------------------------------------
// write clauses (openCypher semantics on the reference graph)

fn create_path(p: &PathPat, env: &Env, cx: &mut Ctx) -> Result<Env, RefErr> {
    let mut env = env.clone();
    let mk_node = |n: &NodePat, env: &mut Env, cx: &mut Ctx| -> Result<usize, RefErr> {
        if let Some(v) = &n.var {
            if let Some(existing) = env.get(v) {
                return match existing {
                    V::Node(i) => {
                        if !n.labels.is_empty() || !n.props.is_empty() {
                            Err(RefErr::Error("CREATE re-declares a bound variable".into()))
                        } else if cx.g.nodes[*i].deleted {
                            Err(RefErr::Unsupported("create relationship to deleted node".into()))
                        } else {
                            Ok(*i)
                        }
                    }
                    _ => Err(RefErr::Error("CREATE endpoint is not a node".into())),
                };
            }
        }
        let mut props = BTreeMap::new();
        for (k, e) in &n.props {
            let v = eval(e, env, cx)?;
            if !v.is_null() {
                props.insert(k.clone(), v);
            }
        }
        cx.g.nodes.push(RNode { labels: n.labels.iter().cloned().collect(), props, deleted: false });
        cx.wrote = true;
        let idx = cx.g.nodes.len() - 1;
        if let Some(v) = &n.var {
            env.insert(v.clone(), V::Node(idx));
        }
        Ok(idx)
    };
    let mut cur = mk_node(&p.start, &mut env, cx)?;
    for (r, n) in &p.steps {
        let other = mk_node(n, &mut env, cx)?;
        let (src, dst) = match r.dir {
            Dir::Out => (cur, other),
            Dir::In => (other, cur),
            Dir::Both => return Err(RefErr::Error("CREATE needs a direction".into())),
        };
        if r.types.len() != 1 || r.varlen.is_some() {
            return Err(RefErr::Error("CREATE needs exactly one type".into()));
        }
        let mut props = BTreeMap::new();
        for (k, e) in &r.props {
            let v = eval(e, &env, cx)?;
            if !v.is_null() {
                props.insert(k.clone(), v);
            }
        }
        cx.g.rels.push(RRel { src, dst, ty: r.types[0].clone(), props, deleted: false });
        cx.wrote = true;
        if let Some(v) = &r.var {
            env.insert(v.clone(), V::Rel(cx.g.rels.len() - 1));
        }
        cur = other;
    }
    Ok(env)
}

fn apply_set(items: &[SetItem], env: &Env, cx: &mut Ctx) -> Result<(), RefErr> {
    // evaluate all right-hand sides first against the pre-state of this item list? openCypher
    // applies items left to right; the generator never makes one item read what another wrote.
    for it in items {
        match it {
            SetItem::Prop(v, k, e) => {
                let val = eval(e, env, cx)?;
                match env.get(v) {
                    Some(V::Node(i)) => {
                        let i = *i;
                        if cx.g.nodes[i].deleted {
                            return Err(RefErr::Unsupported("SET on deleted node".into()));
                        }
                        if val.is_null() && !cx.quirks.set_null_keeps_property {
                            cx.g.nodes[i].props.remove(k);
                        } else {
                            cx.g.nodes[i].props.insert(k.clone(), val);
                        }
                        cx.wrote = true;
                    }
                    Some(V::Rel(i)) => {
                        let i = *i;
                        if val.is_null() && !cx.quirks.set_null_keeps_property {
                            cx.g.rels[i].props.remove(k);
                        } else {
                            cx.g.rels[i].props.insert(k.clone(), val);
                        }
                        cx.wrote = true;
                    }
                    Some(V::Null) => {}
                    _ => return Err(RefErr::Error(format!("SET on non-entity {v}"))),
                }
            }
            SetItem::Merge(v, e) | SetItem::Replace(v, e) => {
                let val = eval(e, env, cx)?;
                let m = match val {
                    V::Map(m) => m,
                    V::Null => return Err(RefErr::Unsupported("SET n = null".into())),
                    _ => return Err(RefErr::Unsupported("SET n = non-map".into())),
                };
                let replace = matches!(it, SetItem::Replace(..));
                match env.get(v) {
                    Some(V::Node(i)) => {
                        let i = *i;
                        if replace {
                            cx.g.nodes[i].props.clear();
                        }
                        for (k, x) in m {
                            if x.is_null() {
                                cx.g.nodes[i].props.remove(&k);
                            } else {
                                cx.g.nodes[i].props.insert(k, x);
                            }
                        }
                        cx.wrote = true;
                    }
                    Some(V::Rel(i)) => {
                        let i = *i;
                        if replace {
                            cx.g.rels[i].props.clear();
                        }
                        for (k, x) in m {
                            if x.is_null() {
                                cx.g.rels[i].props.remove(&k);
                            } else {
                                cx.g.rels[i].props.insert(k, x);
                            }
                        }
                        cx.wrote = true;
                    }
                    Some(V::Null) => {}
                    _ => return Err(RefErr::Error("SET on non-entity".into())),
                }
            }
            SetItem::Labels(v, ls) => match env.get(v) {
                Some(V::Node(i)) => {
                    let i = *i;
                    for l in ls {
                        cx.g.nodes[i].labels.insert(l.clone());
                    }
                    cx.wrote = true;
                }
                Some(V::Null) => {}
                _ => return Err(RefErr::Error("SET label on non-node".into())),
            },
        }
    }
    Ok(())
}

// ---------------------------------------------------------------------------------------
// clauses

fn run_part(clauses: &[Clause], cx: &mut Ctx) -> Result<(Vec<String>, Projected), RefErr> {
    let mut rows: Vec<Env> = vec![Env::new()];
    cx.after_with = false;
    for (ci, c) in clauses.iter().enumerate() {
        match c {
            Clause::Match { optional, patterns, where_ } => {
                // quirk: split the WHERE of an OPTIONAL MATCH into scoped and global conjuncts
                let mut scoped: Vec<E> = Vec::new();
                let mut global: Vec<E> = Vec::new();
                if let Some(w) = where_ {
                    if *optional && cx.quirks.optional_where_outer_global {
                        let bound: Vec<String> = rows.first().map(|e| e.keys().cloned().collect()).unwrap_or_default();
                        let introduced: Vec<String> = pattern_vars(patterns).into_iter().filter(|v| !bound.contains(v)).collect();
                        let mut cs = Vec::new();
                        conjuncts(w, &mut cs);
                        for c in cs {
                            let mut vs = Vec::new();
                            expr_vars(&c, &mut vs);
                            if vs.iter().any(|v| introduced.contains(v)) {
                                scoped.push(c);
                            } else {
                                global.push(c);
                            }
                        }
                    } else {
                        scoped.push(w.clone());
                    }
                }
                let mut next = Vec::new();
                for env in &rows {
                    let mut matched = Vec::new();
                    for e2 in match_patterns(patterns, env, cx)? {
                        let mut keep = true;
                        for w in &scoped {
                            if truth(&eval(w, &e2, cx)?)? != Some(true) {
                                keep = false;
                                break;
                            }
                        }
                        if keep {
                            matched.push(e2);
                        }
                    }
                    let disconnected = {
                        let pv = pattern_vars(patterns);
                        !pv.iter().any(|v| env.contains_key(v))
                    };
                    let produced: Vec<Env> = if matched.is_empty() && *optional && cx.quirks.optional_disconnected_drops && disconnected {
                        vec![]
                    } else if matched.is_empty() && *optional {
                        let mut e2 = env.clone();
                        for v in pattern_vars(patterns) {
                            e2.entry(v).or_insert(V::Null);
                        }
                        vec![e2]
                    } else {
                        matched
                    };
                    'row: for e2 in produced {
                        for w in &global {
                            if truth(&eval(w, &e2, cx)?)? != Some(true) {
                                continue 'row;
                            }
                        }
                        next.push(e2);
                    }
                }
                rows = next;
            }
            Clause::Unwind { expr, var } => {
                let mut next = Vec::new();
                for env in &rows {
                    match eval(expr, env, cx)? {
                        V::Null => {}
                        V::List(items) => {
                            for it in items {
                                let mut e2 = env.clone();
                                e2.insert(var.clone(), it);
                                next.push(e2);
                            }
                        }
                        other => {
                            let mut e2 = env.clone();
                            e2.insert(var.clone(), other);
                            next.push(e2);
                        }
                    }
                }
                rows = next;
            }
            Clause::With { proj, where_ } => {
                cx.after_with = true;
                let where_first = cx.quirks.with_where_before_window && where_.is_some() && (proj.skip.is_some() || proj.limit.is_some());
                let p = if where_first {
                    // quirk: filter, then apply SKIP/LIMIT
                    let mut p2 = proj.clone();
                    p2.skip = None;
                    p2.limit = None;
                    project(&p2, std::mem::take(&mut rows), cx, false)?
                } else {
                    project(proj, std::mem::take(&mut rows), cx, false)?
                };
                let mut next = Vec::new();
                for r in p.rows {
                    let env: Env = p.columns.iter().cloned().zip(r.into_iter()).collect();
                    let keep = match where_ {
                        None => true,
                        Some(w) => truth(&eval(w, &env, cx)?)? == Some(true),
                    };
                    if keep {
                        next.push(env);
                    }
                }
                if where_first {
                    let skip = proj.skip.unwrap_or(0) as usize;
                    let lim = proj.limit.map(|l| l as usize).unwrap_or(usize::MAX);
                    let n = next.len();
                    let lo = skip.min(n);
                    let hi = lo.saturating_add(lim).min(n);
                    if !(lo == 0 && hi == n) {
                        // which rows survive depends on tie order unless the window is total
                        cx.nondet = cx.nondet || proj.order.is_empty();
                        // a window edge inside a group of equal sort keys holding different rows
                        let key_eq = |a: &Env, b: &Env| p.order_cols.iter().all(|(i, _)| order_cmp(&a[&p.columns[*i]], &b[&p.columns[*i]]) == Ordering::Equal);
                        let canon_env = |e: &Env| e.values().map(|v| v.canon()).collect::<Vec<_>>();
                        for edge in [lo, hi] {
                            if !p.order_cols.is_empty() && edge > 0 && edge < n && key_eq(&next[edge - 1], &next[edge]) {
                                let mut a = edge - 1;
                                while a > 0 && key_eq(&next[a - 1], &next[edge]) {
                                    a -= 1;
                                }
                                let mut b = edge;
                                while b + 1 < n && key_eq(&next[b + 1], &next[edge]) {
                                    b += 1;
                                }
                                let first = canon_env(&next[a]);
                                if next[a..=b].iter().any(|e| canon_env(e) != first) {
                                    cx.nondet = true;
                                }
                            }
                        }
                    }
                    next = next[lo..hi].to_vec();
                }
                rows = next;
            }
            Clause::Return { proj } => {
                if ci != clauses.len() - 1 {
                    return Err(RefErr::Unsupported("RETURN not last".into()));
                }
                let p = project(proj, rows, cx, true)?;
                return Ok((p.columns.clone(), p));
            }
            Clause::Create { patterns } => {
                let mut next = Vec::new();
                for env in &rows {
                    let mut e = env.clone();
                    for p in patterns {
                        e = create_path(p, &e, cx)?;
                    }
                    next.push(e);
                }
                rows = next;
            }
            Clause::Merge { pattern, on_create, on_match } => {
                let mut next = Vec::new();
                for env in &rows {
                    // quirk: between two bound nodes the written direction is ignored (always left to right)
                    let mut pattern_q = pattern.clone();
                    if cx.quirks.merge_bound_rel_left_to_right {
                        let start_bound = pattern_q.start.var.as_ref().map(|v| env.contains_key(v)).unwrap_or(false);
                        for (r, n) in pattern_q.steps.iter_mut() {
                            if start_bound && n.var.as_ref().map(|v| env.contains_key(v)).unwrap_or(false) {
                                r.dir = Dir::Out;
                            }
                        }
                    }
                    let pattern = &pattern_q;
                    let found = match_patterns(std::slice::from_ref(pattern), env, cx)?;
                    if found.len() > 1 {
                        cx.merge_multi_match = true;
                    }
                    if found.is_empty() {
                        // MERGE of an undirected relationship creates it left-to-right
                        let mut p2 = pattern.clone();
                        for (r, _) in p2.steps.iter_mut() {
                            if r.dir == Dir::Both {
                                r.dir = Dir::Out;
                            }
                        }
                        let e2 = create_path(&p2, env, cx)?;
                        apply_set(on_create, &e2, cx)?;
                        next.push(e2);
                    } else {
                        for e2 in found {
                            apply_set(on_match, &e2, cx)?;
                            next.push(e2);
                        }
                    }
                }
                rows = next;
            }
            Clause::Set { items } => {
                for env in &rows {
                    apply_set(items, env, cx)?;
                }
            }
            Clause::Remove { items } => {
                for env in &rows {
                    for it in items {
                        match it {
                            RemoveItem::Prop(v, k) => match env.get(v) {
                                Some(V::Node(i)) => {
                                    cx.g.nodes[*i].props.remove(k);
                                    cx.wrote = true;
                                }
                                Some(V::Rel(i)) => {
                                    cx.g.rels[*i].props.remove(k);
                                    cx.wrote = true;
                                }
                                Some(V::Null) => {}
                                _ => return Err(RefErr::Error("REMOVE on non-entity".into())),
                            },
                            RemoveItem::Labels(v, ls) => match env.get(v) {
                                Some(V::Node(i)) => {
                                    for l in ls {
                                        cx.g.nodes[*i].labels.remove(l);
                                    }
                                    cx.wrote = true;
                                }
                                Some(V::Null) => {}
                                _ => return Err(RefErr::Error("REMOVE label on non-node".into())),
                            },
                        }
                    }
                }
            }
            Clause::Delete { detach, exprs } => {
                // collect everything to delete over all rows, then apply (deletion is checked at the end of the clause)
                let mut del_nodes = BTreeSet::new();
                let mut del_rels = BTreeSet::new();
                for env in &rows {
                    for e in exprs {
                        match eval(e, env, cx)? {
                            V::Null => {}
                            V::Node(i) => {
                                del_nodes.insert(i);
                            }
                            V::Rel(i) => {
                                del_rels.insert(i);
                            }
                            V::Path(ns, rs) => {
                                del_nodes.extend(ns);
                                del_rels.extend(rs);
                            }
                            _ => return Err(RefErr::Error("DELETE of non-entity".into())),
                        }
                    }
                }
                for n in &del_nodes {
                    for r in 0..cx.g.rels.len() {
                        let rel = &cx.g.rels[r];
                        if !rel.deleted && (rel.src == *n || rel.dst == *n) && !del_rels.contains(&r) {
                            if *detach || cx.quirks.delete_connected_detaches {
                                del_rels.insert(r);
                            } else {
                                return Err(RefErr::Error("cannot delete node with relationships".into()));
                            }
                        }
                    }
                }
                for r in del_rels {
                    if !cx.g.rels[r].deleted {
                        cx.g.rels[r].deleted = true;
                        cx.wrote = true;
                    }
                }
                for n in del_nodes {
                    if !cx.g.nodes[n].deleted {
                        cx.g.nodes[n].deleted = true;
                        cx.wrote = true;
                    }
                }
            }
        }
    }
    // no RETURN: empty result
    Ok((vec![], Projected { columns: vec![], rows: vec![], order_cols: vec![], pre_window: vec![] }))
}

pub struct RunOut {
    pub result: RefResult,
    pub wrote: bool,
    pub merge_multi_match: bool,
}

/// Evaluate a query on the reference graph (mutating it for write clauses).
pub fn run(g: &mut RGraph, q: &Query, quirks: &Quirks, params: &BTreeMap<String, V>) -> Result<RunOut, RefErr> {
    let mut cx = Ctx { g, quirks, params, nondet: false, num_ambig: false, wrote: false, after_with: false, path_starts_bound: false, merge_multi_match: false, window_seen: None };
    let mut columns: Vec<String> = Vec::new();
    let mut all_rows: Vec<Vec<V>> = Vec::new();
    let mut last: Option<Projected> = None;
    for (pi, part) in q.parts.iter().enumerate() {
        let (cols, p) = run_part(part, &mut cx)?;
        if pi == 0 {
            columns = cols;
        } else if cols != columns {
            return Err(RefErr::Error("UNION column mismatch".into()));
        }
        all_rows.extend(p.rows.iter().cloned());
        last = Some(p);
    }
    let last = last.unwrap();
    let result = if q.parts.len() > 1 {
        if !q.union_all {
            let mut seen = BTreeSet::new();
            let mut seen_num: BTreeMap<String, String> = BTreeMap::new();
            let mut out = Vec::new();
            for r in all_rows {
                let ck = r.iter().map(|v| v.canon()).collect::<Vec<_>>().join("|");
                let cn = r.iter().map(|v| v.canon_numeric()).collect::<Vec<_>>().join("|");
                if let Some(prev) = seen_num.get(&cn) {
                    if *prev != ck {
                        cx.num_ambig = true;
                    }
                } else {
                    seen_num.insert(cn, ck.clone());
                }
                if seen.insert(ck) {
                    out.push(r);
                }
            }
            all_rows = out;
        }
        RefResult { columns, rows: all_rows.clone(), order_cols: vec![], pre_window: all_rows, skip: None, limit: None, nondeterministic: cx.nondet, numeric_grouping_ambiguity: cx.num_ambig }
    } else {
        let (skip, limit) = match q.parts[0].last() {
            Some(Clause::Return { proj }) => (proj.skip, proj.limit),
            _ => (None, None),
        };
        RefResult { columns, rows: last.rows, order_cols: last.order_cols, pre_window: last.pre_window, skip, limit, nondeterministic: cx.nondet, numeric_grouping_ambiguity: cx.num_ambig }
    };
    Ok(RunOut { result, wrote: cx.wrote, merge_multi_match: cx.merge_multi_match })
}
