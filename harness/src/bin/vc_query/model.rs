//! Own AST for the generated Cypher fragment, plain reference graph, renderer to query text,
//! and the builder that loads a reference graph into a GraphStore.
//! Nothing here shares code with the repo's parser, planner or operators.

use samyama::graph::{EdgeId, EdgeType, GraphStore, Label, NodeId, PropertyMap, PropertyValue};
use serde::{Deserialize, Serialize};
use std::collections::{BTreeMap, BTreeSet};

// ---------------------------------------------------------------------------------------
// Values

#[derive(Clone, Debug, Serialize, Deserialize)]
pub enum V {
    Null,
    Bool(bool),
    Int(i64),
    Float(f64),
    Str(String),
    List(Vec<V>),
    Map(BTreeMap<String, V>),
    /// reference node index
    Node(usize),
    /// reference relationship index
    Rel(usize),
    Path(Vec<usize>, Vec<usize>),
}

impl V {
    pub fn is_null(&self) -> bool {
        matches!(self, V::Null)
    }
    /// canonical text: equal text <=> same value and same type (floats by value, NaN = NaN, -0.0 = 0.0)
    pub fn canon(&self) -> String {
        match self {
            V::Null => "null".into(),
            V::Bool(b) => format!("b{b}"),
            V::Int(i) => format!("i{i}"),
            V::Float(f) => {
                if f.is_nan() {
                    "fNaN".into()
                } else if *f == 0.0 {
                    "f0".into()
                } else {
                    format!("f{:?}", f)
                }
            }
            V::Str(s) => format!("s{:?}", s),
            V::List(l) => format!("[{}]", l.iter().map(|x| x.canon()).collect::<Vec<_>>().join(",")),
            V::Map(m) => format!("{{{}}}", m.iter().map(|(k, v)| format!("{:?}:{}", k, v.canon())).collect::<Vec<_>>().join(",")),
            V::Node(i) => format!("N{i}"),
            V::Rel(i) => format!("R{i}"),
            V::Path(n, r) => format!("P{:?}/{:?}", n, r),
        }
    }
    /// canonical text where numerically equal Int/Float collapse (for ambiguity detection)
    pub fn canon_numeric(&self) -> String {
        match self {
            V::Int(i) => format!("n{:?}", *i as f64),
            V::Float(f) if !f.is_nan() => format!("n{:?}", if *f == 0.0 { 0.0 } else { *f }),
            V::List(l) => format!("[{}]", l.iter().map(|x| x.canon_numeric()).collect::<Vec<_>>().join(",")),
            V::Map(m) => format!("{{{}}}", m.iter().map(|(k, v)| format!("{:?}:{}", k, v.canon_numeric())).collect::<Vec<_>>().join(",")),
            other => other.canon(),
        }
    }
    pub fn from_pv(p: &PropertyValue) -> V {
        match p {
            PropertyValue::Null => V::Null,
            PropertyValue::Boolean(b) => V::Bool(*b),
            PropertyValue::Integer(i) => V::Int(*i),
            PropertyValue::Float(f) => V::Float(*f),
            PropertyValue::String(s) => V::Str(s.clone()),
            PropertyValue::Array(a) => V::List(a.iter().map(V::from_pv).collect()),
            PropertyValue::Map(m) => V::Map(m.iter().map(|(k, v)| (k.clone(), V::from_pv(v))).collect()),
            PropertyValue::DateTime(t) => V::Str(format!("<datetime {t}>")),
            PropertyValue::Vector(v) => V::List(v.iter().map(|f| V::Float(*f as f64)).collect()),
            PropertyValue::Duration { months, days, seconds, nanos } => V::Str(format!("<duration {months} {days} {seconds} {nanos}>")),
        }
    }
    pub fn to_pv(&self) -> PropertyValue {
        match self {
            V::Null => PropertyValue::Null,
            V::Bool(b) => PropertyValue::Boolean(*b),
            V::Int(i) => PropertyValue::Integer(*i),
            V::Float(f) => PropertyValue::Float(*f),
            V::Str(s) => PropertyValue::String(s.clone()),
            V::List(l) => PropertyValue::Array(l.iter().map(|x| x.to_pv()).collect()),
            V::Map(m) => PropertyValue::Map(m.iter().map(|(k, v)| (k.clone(), v.to_pv())).collect()),
            V::Node(_) | V::Rel(_) | V::Path(..) => PropertyValue::Null,
        }
    }
    /// Cypher literal spelling
    pub fn lit(&self) -> String {
        match self {
            V::Null => "null".into(),
            V::Bool(b) => b.to_string(),
            V::Int(i) => {
                if *i < 0 {
                    format!("({i})")
                } else {
                    i.to_string()
                }
            }
            V::Float(f) => {
                let s = format!("{:?}", f);
                let s = if s.contains('.') || s.contains('e') { s } else { format!("{s}.0") };
                if *f < 0.0 || (f.is_sign_negative() && *f == 0.0) {
                    format!("({s})")
                } else {
                    s
                }
            }
            V::Str(s) => {
                let mut o = String::from("'");
                for c in s.chars() {
                    match c {
                        '\'' => o.push_str("\\'"),
                        '\\' => o.push_str("\\\\"),
                        '\n' => o.push_str("\\n"),
                        '\t' => o.push_str("\\t"),
                        '\r' => o.push_str("\\r"),
                        c => o.push(c),
                    }
                }
                o.push('\'');
                o
            }
            V::List(l) => format!("[{}]", l.iter().map(|x| x.lit()).collect::<Vec<_>>().join(", ")),
            V::Map(m) => format!("{{{}}}", m.iter().map(|(k, v)| format!("{k}: {}", v.lit())).collect::<Vec<_>>().join(", ")),
            _ => "null".into(),
        }
    }
}

// ---------------------------------------------------------------------------------------
// Reference graph

#[derive(Clone, Debug, Serialize, Deserialize, Default)]
pub struct RNode {
    pub labels: BTreeSet<String>,
    pub props: BTreeMap<String, V>,
    pub deleted: bool,
}

#[derive(Clone, Debug, Serialize, Deserialize)]
pub struct RRel {
    pub src: usize,
    pub dst: usize,
    pub ty: String,
    pub props: BTreeMap<String, V>,
    pub deleted: bool,
}

#[derive(Clone, Debug, Serialize, Deserialize, Default)]
pub struct RGraph {
    pub nodes: Vec<RNode>,
    pub rels: Vec<RRel>,
}

impl RGraph {
    pub fn live_nodes(&self) -> impl Iterator<Item = usize> + '_ {
        (0..self.nodes.len()).filter(move |i| !self.nodes[*i].deleted)
    }
    pub fn live_rels(&self) -> impl Iterator<Item = usize> + '_ {
        (0..self.rels.len()).filter(move |i| !self.rels[*i].deleted)
    }
    pub fn has_self_loop(&self) -> bool {
        self.live_rels().any(|r| self.rels[r].src == self.rels[r].dst)
    }
    /// canonical uid-keyed dump: nodes by `uid` property, rels by `rid` (or full description)
    pub fn dump(&self) -> (Vec<String>, Vec<String>) {
        let nk = |i: usize| -> String {
            match self.nodes[i].props.get("uid") {
                Some(v) if !v.is_null() => format!("u:{}", v.canon()),
                _ => format!("anon:{:?}:{:?}", self.nodes[i].labels, self.nodes[i].props.iter().filter(|(_, v)| !v.is_null()).map(|(k, v)| (k.clone(), v.canon())).collect::<Vec<_>>()),
            }
        };
        let mut ns: Vec<String> = self
            .live_nodes()
            .map(|i| format!("N {} :{} {:?}", nk(i), self.nodes[i].labels.iter().cloned().collect::<Vec<_>>().join(":"), self.nodes[i].props.iter().filter(|(_, v)| !v.is_null()).map(|(k, v)| (k.clone(), v.canon())).collect::<Vec<_>>()))
            .collect();
        ns.sort();
        let mut rs: Vec<String> = self
            .live_rels()
            .map(|r| {
                let e = &self.rels[r];
                format!("E {}-[{}]->{} {:?}", nk(e.src), e.ty, nk(e.dst), e.props.iter().filter(|(_, v)| !v.is_null()).map(|(k, v)| (k.clone(), v.canon())).collect::<Vec<_>>())
            })
            .collect();
        rs.sort();
        (ns, rs)
    }
}

/// Same dump shape, read from a GraphStore through public readers.
pub fn store_dump(store: &GraphStore) -> (Vec<String>, Vec<String>) {
    let ids = vcheck::dump::live_node_ids(store);
    let mut key: BTreeMap<u64, String> = BTreeMap::new();
    let mut ns = Vec::new();
    for id in ids {
        let n = store.get_node(id).unwrap();
        let props: BTreeMap<String, V> = store.node_properties_full(id).iter().map(|(k, v)| (k.clone(), V::from_pv(v))).collect();
        let labels: BTreeSet<String> = n.labels.iter().map(|l| l.as_str().to_string()).collect();
        let k = match props.get("uid") {
            Some(v) if !v.is_null() => format!("u:{}", v.canon()),
            _ => format!("anon:{:?}:{:?}", labels, props.iter().filter(|(_, v)| !v.is_null()).map(|(k, v)| (k.clone(), v.canon())).collect::<Vec<_>>()),
        };
        key.insert(id.as_u64(), k.clone());
        ns.push(format!("N {} :{} {:?}", k, labels.iter().cloned().collect::<Vec<_>>().join(":"), props.iter().filter(|(_, v)| !v.is_null()).map(|(k, v)| (k.clone(), v.canon())).collect::<Vec<_>>()));
    }
    ns.sort();
    let mut rs = Vec::new();
    for e in store.all_edges() {
        let props: BTreeMap<String, V> = e.properties.iter().map(|(k, v)| (k.clone(), V::from_pv(v))).collect();
        let s = key.get(&e.source.as_u64()).cloned().unwrap_or_else(|| format!("MISSING{}", e.source.as_u64()));
        let d = key.get(&e.target.as_u64()).cloned().unwrap_or_else(|| format!("MISSING{}", e.target.as_u64()));
        rs.push(format!("E {}-[{}]->{} {:?}", s, e.edge_type.as_str(), d, props.iter().filter(|(_, v)| !v.is_null()).map(|(k, v)| (k.clone(), v.canon())).collect::<Vec<_>>()));
    }
    rs.sort();
    (ns, rs)
}

pub struct Built {
    pub store: GraphStore,
    pub node_ids: Vec<NodeId>,
    pub edge_ids: Vec<EdgeId>,
}

impl Built {
    pub fn node_index(&self, id: NodeId) -> Option<usize> {
        self.node_ids.iter().position(|x| *x == id)
    }
    pub fn edge_index(&self, id: EdgeId) -> Option<usize> {
        self.edge_ids.iter().position(|x| *x == id)
    }
}

/// Load a reference graph into a fresh store through the row API.
pub fn build_store(g: &RGraph) -> Built {
    let mut store = GraphStore::new();
    let mut node_ids = Vec::new();
    for n in &g.nodes {
        let mut pm = PropertyMap::new();
        for (k, v) in &n.props {
            pm.insert(k.clone(), v.to_pv());
        }
        let id = store.create_node_with_properties("default", n.labels.iter().map(|l| Label::new(l.clone())).collect(), pm);
        node_ids.push(id);
    }
    let mut edge_ids = Vec::new();
    for r in &g.rels {
        let mut pm = PropertyMap::new();
        for (k, v) in &r.props {
            pm.insert(k.clone(), v.to_pv());
        }
        let id = if pm.is_empty() {
            store.create_edge(node_ids[r.src], node_ids[r.dst], EdgeType::new(r.ty.clone())).expect("create_edge")
        } else {
            store.create_edge_with_properties(node_ids[r.src], node_ids[r.dst], EdgeType::new(r.ty.clone()), pm).expect("create_edge")
        };
        edge_ids.push(id);
    }
    Built { store, node_ids, edge_ids }
}

// ---------------------------------------------------------------------------------------
// Query AST

#[derive(Clone, Debug, Serialize, Deserialize, PartialEq)]
pub enum CmpOp {
    Eq,
    Ne,
    Lt,
    Le,
    Gt,
    Ge,
}

#[derive(Clone, Debug, Serialize, Deserialize, PartialEq)]
pub enum ArOp {
    Add,
    Sub,
    Mul,
    Div,
    Mod,
}

#[derive(Clone, Debug, Serialize, Deserialize, PartialEq)]
pub enum AggKind {
    CountStar,
    Count,
    Sum,
    Min,
    Max,
    Avg,
    Collect,
}

#[derive(Clone, Debug, Serialize, Deserialize)]
pub enum E {
    Lit(V),
    Param(String),
    Var(String),
    Prop(String, String),
    Cmp(CmpOp, Box<E>, Box<E>),
    And(Box<E>, Box<E>),
    Or(Box<E>, Box<E>),
    Xor(Box<E>, Box<E>),
    Not(Box<E>),
    IsNull(Box<E>),
    IsNotNull(Box<E>),
    In(Box<E>, Box<E>),
    StartsWith(Box<E>, Box<E>),
    EndsWith(Box<E>, Box<E>),
    Contains(Box<E>, Box<E>),
    HasLabel(String, String),
    Arith(ArOp, Box<E>, Box<E>),
    Neg(Box<E>),
    /// labels(n), type(r), size(x), coalesce(..), abs, toString …
    Func(String, Vec<E>),
    Agg(AggKind, bool, Option<Box<E>>),
    ListE(Vec<E>),
    /// pattern predicate: exists a match of the path extending the current row
    PatExists(Box<PathPat>),
    /// searched CASE: WHEN cond THEN value … [ELSE value] END
    Case(Vec<(E, E)>, Option<Box<E>>),
}

#[derive(Clone, Debug, Serialize, Deserialize, PartialEq)]
pub enum Dir {
    Out,
    In,
    Both,
}

#[derive(Clone, Debug, Serialize, Deserialize, Default)]
pub struct NodePat {
    pub var: Option<String>,
    pub labels: Vec<String>,
    pub props: Vec<(String, E)>,
}

#[derive(Clone, Debug, Serialize, Deserialize)]
pub struct RelPat {
    pub var: Option<String>,
    pub types: Vec<String>,
    pub dir: Dir,
    pub props: Vec<(String, E)>,
    /// None = single hop; Some((lo, hi)) = variable length with optional bounds
    pub varlen: Option<(Option<u32>, Option<u32>)>,
}

#[derive(Clone, Debug, Serialize, Deserialize, PartialEq)]
pub enum Shortest {
    No,
    One,
    All,
}

#[derive(Clone, Debug, Serialize, Deserialize)]
pub struct PathPat {
    pub name: Option<String>,
    pub start: NodePat,
    pub steps: Vec<(RelPat, NodePat)>,
    pub shortest: Shortest,
}

#[derive(Clone, Debug, Serialize, Deserialize)]
pub struct Item {
    pub expr: E,
    pub alias: Option<String>,
}

#[derive(Clone, Debug, Serialize, Deserialize)]
pub struct Proj {
    pub distinct: bool,
    pub items: Vec<Item>,
    /// (expression, descending)
    pub order: Vec<(E, bool)>,
    pub skip: Option<u64>,
    pub limit: Option<u64>,
}

#[derive(Clone, Debug, Serialize, Deserialize)]
pub enum SetItem {
    Prop(String, String, E),
    /// SET n += {map}
    Merge(String, E),
    /// SET n = {map}
    Replace(String, E),
    Labels(String, Vec<String>),
}

#[derive(Clone, Debug, Serialize, Deserialize)]
pub enum RemoveItem {
    Prop(String, String),
    Labels(String, Vec<String>),
}

#[derive(Clone, Debug, Serialize, Deserialize)]
pub enum Clause {
    Match { optional: bool, patterns: Vec<PathPat>, where_: Option<E> },
    Unwind { expr: E, var: String },
    With { proj: Proj, where_: Option<E> },
    Return { proj: Proj },
    Create { patterns: Vec<PathPat> },
    Merge { pattern: PathPat, on_create: Vec<SetItem>, on_match: Vec<SetItem> },
    Set { items: Vec<SetItem> },
    Remove { items: Vec<RemoveItem> },
    Delete { detach: bool, exprs: Vec<E> },
}

#[derive(Clone, Debug, Serialize, Deserialize)]
pub struct Query {
    /// one or more single queries joined by UNION [ALL]
    pub parts: Vec<Vec<Clause>>,
    pub union_all: bool,
}

// ---------------------------------------------------------------------------------------
// Rendering

fn paren(e: &E) -> String {
    match e {
        E::Lit(_) | E::Var(_) | E::Prop(..) | E::Func(..) | E::Agg(..) | E::ListE(_) | E::Param(_) => render_expr(e),
        _ => format!("({})", render_expr(e)),
    }
}

pub fn render_expr(e: &E) -> String {
    match e {
        E::Lit(v) => v.lit(),
        E::Param(p) => format!("${p}"),
        E::Var(v) => v.clone(),
        E::Prop(v, k) => format!("{v}.{k}"),
        E::Cmp(op, a, b) => {
            let o = match op {
                CmpOp::Eq => "=",
                CmpOp::Ne => "<>",
                CmpOp::Lt => "<",
                CmpOp::Le => "<=",
                CmpOp::Gt => ">",
                CmpOp::Ge => ">=",
            };
            format!("{} {} {}", paren(a), o, paren(b))
        }
        E::And(a, b) => format!("{} AND {}", paren(a), paren(b)),
        E::Or(a, b) => format!("{} OR {}", paren(a), paren(b)),
        E::Xor(a, b) => format!("{} XOR {}", paren(a), paren(b)),
        E::Not(a) => format!("NOT {}", paren(a)),
        E::IsNull(a) => format!("{} IS NULL", paren(a)),
        E::IsNotNull(a) => format!("{} IS NOT NULL", paren(a)),
        E::In(a, b) => format!("{} IN {}", paren(a), paren(b)),
        E::StartsWith(a, b) => format!("{} STARTS WITH {}", paren(a), paren(b)),
        E::EndsWith(a, b) => format!("{} ENDS WITH {}", paren(a), paren(b)),
        E::Contains(a, b) => format!("{} CONTAINS {}", paren(a), paren(b)),
        E::HasLabel(v, l) => format!("{v}:{l}"),
        E::Arith(op, a, b) => {
            let o = match op {
                ArOp::Add => "+",
                ArOp::Sub => "-",
                ArOp::Mul => "*",
                ArOp::Div => "/",
                ArOp::Mod => "%",
            };
            format!("{} {} {}", paren(a), o, paren(b))
        }
        E::Neg(a) => format!("-{}", paren(a)),
        E::Func(name, args) => format!("{}({})", name, args.iter().map(render_expr).collect::<Vec<_>>().join(", ")),
        E::Agg(kind, distinct, arg) => {
            let d = if *distinct { "DISTINCT " } else { "" };
            match kind {
                AggKind::CountStar => "count(*)".to_string(),
                AggKind::Count => format!("count({d}{})", render_expr(arg.as_ref().unwrap())),
                AggKind::Sum => format!("sum({d}{})", render_expr(arg.as_ref().unwrap())),
                AggKind::Min => format!("min({d}{})", render_expr(arg.as_ref().unwrap())),
                AggKind::Max => format!("max({d}{})", render_expr(arg.as_ref().unwrap())),
                AggKind::Avg => format!("avg({d}{})", render_expr(arg.as_ref().unwrap())),
                AggKind::Collect => format!("collect({d}{})", render_expr(arg.as_ref().unwrap())),
            }
        }
        E::ListE(items) => format!("[{}]", items.iter().map(render_expr).collect::<Vec<_>>().join(", ")),
        E::PatExists(p) => render_path(p),
        E::Case(arms, els) => {
            let mut s = String::from("CASE");
            for (c, v) in arms {
                s.push_str(&format!(" WHEN {} THEN {}", render_expr(c), render_expr(v)));
            }
            if let Some(e) = els {
                s.push_str(&format!(" ELSE {}", render_expr(e)));
            }
            s.push_str(" END");
            s
        }
    }
}

fn render_props(props: &[(String, E)]) -> String {
    if props.is_empty() {
        String::new()
    } else {
        format!(" {{{}}}", props.iter().map(|(k, v)| format!("{k}: {}", render_expr(v))).collect::<Vec<_>>().join(", "))
    }
}

pub fn render_node(n: &NodePat) -> String {
    let mut s = String::from("(");
    if let Some(v) = &n.var {
        s.push_str(v);
    }
    for l in &n.labels {
        s.push(':');
        s.push_str(l);
    }
    s.push_str(&render_props(&n.props));
    s.push(')');
    s
}

pub fn render_rel(r: &RelPat) -> String {
    let mut inner = String::new();
    if let Some(v) = &r.var {
        inner.push_str(v);
    }
    if !r.types.is_empty() {
        inner.push(':');
        inner.push_str(&r.types.join("|"));
    }
    if let Some((lo, hi)) = &r.varlen {
        inner.push('*');
        match (lo, hi) {
            (None, None) => {}
            (Some(l), Some(h)) if l == h => inner.push_str(&l.to_string()),
            (Some(l), Some(h)) => inner.push_str(&format!("{l}..{h}")),
            (Some(l), None) => inner.push_str(&format!("{l}..")),
            (None, Some(h)) => inner.push_str(&format!("..{h}")),
        }
    }
    inner.push_str(&render_props(&r.props));
    let body = if inner.is_empty() { String::new() } else { format!("[{inner}]") };
    match r.dir {
        Dir::Out => format!("-{body}->"),
        Dir::In => format!("<-{body}-"),
        Dir::Both => format!("-{body}-"),
    }
}

pub fn render_path(p: &PathPat) -> String {
    let mut s = render_node(&p.start);
    for (r, n) in &p.steps {
        s.push_str(&render_rel(r));
        s.push_str(&render_node(n));
    }
    let s = match p.shortest {
        Shortest::No => s,
        Shortest::One => format!("shortestPath({s})"),
        Shortest::All => format!("allShortestPaths({s})"),
    };
    match &p.name {
        Some(n) => format!("{n} = {s}"),
        None => s,
    }
}

pub fn render_proj(p: &Proj) -> String {
    let mut s = String::new();
    if p.distinct {
        s.push_str("DISTINCT ");
    }
    s.push_str(
        &p.items
            .iter()
            .map(|i| match &i.alias {
                Some(a) => format!("{} AS {a}", render_expr(&i.expr)),
                None => render_expr(&i.expr),
            })
            .collect::<Vec<_>>()
            .join(", "),
    );
    if !p.order.is_empty() {
        s.push_str(" ORDER BY ");
        s.push_str(&p.order.iter().map(|(e, d)| format!("{}{}", render_expr(e), if *d { " DESC" } else { "" })).collect::<Vec<_>>().join(", "));
    }
    if let Some(k) = p.skip {
        s.push_str(&format!(" SKIP {k}"));
    }
    if let Some(k) = p.limit {
        s.push_str(&format!(" LIMIT {k}"));
    }
    s
}

pub fn render_set_item(i: &SetItem) -> String {
    match i {
        SetItem::Prop(v, k, e) => format!("{v}.{k} = {}", render_expr(e)),
        SetItem::Merge(v, e) => format!("{v} += {}", render_expr(e)),
        SetItem::Replace(v, e) => format!("{v} = {}", render_expr(e)),
        SetItem::Labels(v, ls) => format!("{v}{}", ls.iter().map(|l| format!(":{l}")).collect::<String>()),
    }
}

pub fn render_clause(c: &Clause) -> String {
    match c {
        Clause::Match { optional, patterns, where_ } => {
            let mut s = format!("{}MATCH {}", if *optional { "OPTIONAL " } else { "" }, patterns.iter().map(render_path).collect::<Vec<_>>().join(", "));
            if let Some(w) = where_ {
                s.push_str(&format!(" WHERE {}", render_expr(w)));
            }
            s
        }
        Clause::Unwind { expr, var } => format!("UNWIND {} AS {var}", render_expr(expr)),
        Clause::With { proj, where_ } => {
            let mut s = format!("WITH {}", render_proj(proj));
            if let Some(w) = where_ {
                s.push_str(&format!(" WHERE {}", render_expr(w)));
            }
            s
        }
        Clause::Return { proj } => format!("RETURN {}", render_proj(proj)),
        Clause::Create { patterns } => format!("CREATE {}", patterns.iter().map(render_path).collect::<Vec<_>>().join(", ")),
        Clause::Merge { pattern, on_create, on_match } => {
            let mut s = format!("MERGE {}", render_path(pattern));
            if !on_create.is_empty() {
                s.push_str(&format!(" ON CREATE SET {}", on_create.iter().map(render_set_item).collect::<Vec<_>>().join(", ")));
            }
            if !on_match.is_empty() {
                s.push_str(&format!(" ON MATCH SET {}", on_match.iter().map(render_set_item).collect::<Vec<_>>().join(", ")));
            }
            s
        }
        Clause::Set { items } => format!("SET {}", items.iter().map(render_set_item).collect::<Vec<_>>().join(", ")),
        Clause::Remove { items } => format!(
            "REMOVE {}",
            items
                .iter()
                .map(|i| match i {
                    RemoveItem::Prop(v, k) => format!("{v}.{k}"),
                    RemoveItem::Labels(v, ls) => format!("{v}{}", ls.iter().map(|l| format!(":{l}")).collect::<String>()),
                })
                .collect::<Vec<_>>()
                .join(", ")
        ),
        Clause::Delete { detach, exprs } => format!("{}DELETE {}", if *detach { "DETACH " } else { "" }, exprs.iter().map(render_expr).collect::<Vec<_>>().join(", ")),
    }
}

pub fn render_query(q: &Query) -> String {
    q.parts
        .iter()
        .map(|clauses| clauses.iter().map(render_clause).collect::<Vec<_>>().join(" "))
        .collect::<Vec<_>>()
        .join(if q.union_all { " UNION ALL " } else { " UNION " })
}

/// Replace every `E::Param(name)` with the literal value (C35's inlined twin).
pub fn inline_params(q: &Query, params: &BTreeMap<String, V>) -> Query {
    fn fe(e: &E, p: &BTreeMap<String, V>) -> E {
        let b = |x: &E| Box::new(fe(x, p));
        match e {
            E::Param(n) => E::Lit(p.get(n).cloned().unwrap_or(V::Null)),
            E::Lit(_) | E::Var(_) | E::Prop(..) | E::HasLabel(..) => e.clone(),
            E::Cmp(o, a, c) => E::Cmp(o.clone(), b(a), b(c)),
            E::And(a, c) => E::And(b(a), b(c)),
            E::Or(a, c) => E::Or(b(a), b(c)),
            E::Xor(a, c) => E::Xor(b(a), b(c)),
            E::Not(a) => E::Not(b(a)),
            E::IsNull(a) => E::IsNull(b(a)),
            E::IsNotNull(a) => E::IsNotNull(b(a)),
            E::In(a, c) => E::In(b(a), b(c)),
            E::StartsWith(a, c) => E::StartsWith(b(a), b(c)),
            E::EndsWith(a, c) => E::EndsWith(b(a), b(c)),
            E::Contains(a, c) => E::Contains(b(a), b(c)),
            E::Arith(o, a, c) => E::Arith(o.clone(), b(a), b(c)),
            E::Neg(a) => E::Neg(b(a)),
            E::Func(n, args) => E::Func(n.clone(), args.iter().map(|x| fe(x, p)).collect()),
            E::Agg(k, d, a) => E::Agg(k.clone(), *d, a.as_ref().map(|x| b(x))),
            E::ListE(items) => E::ListE(items.iter().map(|x| fe(x, p)).collect()),
            E::PatExists(pp) => E::PatExists(Box::new(fp(pp, p))),
            E::Case(arms, els) => E::Case(arms.iter().map(|(c, v)| (fe(c, p), fe(v, p))).collect(), els.as_ref().map(|x| b(x))),
        }
    }
    fn fnode(n: &NodePat, p: &BTreeMap<String, V>) -> NodePat {
        NodePat { var: n.var.clone(), labels: n.labels.clone(), props: n.props.iter().map(|(k, e)| (k.clone(), fe(e, p))).collect() }
    }
    fn fp(pp: &PathPat, p: &BTreeMap<String, V>) -> PathPat {
        PathPat {
            name: pp.name.clone(),
            start: fnode(&pp.start, p),
            steps: pp.steps.iter().map(|(r, n)| (RelPat { props: r.props.iter().map(|(k, e)| (k.clone(), fe(e, p))).collect(), ..r.clone() }, fnode(n, p))).collect(),
            shortest: pp.shortest.clone(),
        }
    }
    fn fproj(pr: &Proj, p: &BTreeMap<String, V>) -> Proj {
        Proj {
            distinct: pr.distinct,
            items: pr.items.iter().map(|i| Item { expr: fe(&i.expr, p), alias: i.alias.clone() }).collect(),
            order: pr.order.iter().map(|(e, d)| (fe(e, p), *d)).collect(),
            skip: pr.skip,
            limit: pr.limit,
        }
    }
    fn fset(i: &SetItem, p: &BTreeMap<String, V>) -> SetItem {
        match i {
            SetItem::Prop(v, k, e) => SetItem::Prop(v.clone(), k.clone(), fe(e, p)),
            SetItem::Merge(v, e) => SetItem::Merge(v.clone(), fe(e, p)),
            SetItem::Replace(v, e) => SetItem::Replace(v.clone(), fe(e, p)),
            SetItem::Labels(..) => i.clone(),
        }
    }
    Query {
        union_all: q.union_all,
        parts: q
            .parts
            .iter()
            .map(|cs| {
                cs.iter()
                    .map(|c| match c {
                        Clause::Match { optional, patterns, where_ } => Clause::Match { optional: *optional, patterns: patterns.iter().map(|x| fp(x, params)).collect(), where_: where_.as_ref().map(|w| fe(w, params)) },
                        Clause::Unwind { expr, var } => Clause::Unwind { expr: fe(expr, params), var: var.clone() },
                        Clause::With { proj, where_ } => Clause::With { proj: fproj(proj, params), where_: where_.as_ref().map(|w| fe(w, params)) },
                        Clause::Return { proj } => Clause::Return { proj: fproj(proj, params) },
                        Clause::Create { patterns } => Clause::Create { patterns: patterns.iter().map(|x| fp(x, params)).collect() },
                        Clause::Merge { pattern, on_create, on_match } => Clause::Merge { pattern: fp(pattern, params), on_create: on_create.iter().map(|i| fset(i, params)).collect(), on_match: on_match.iter().map(|i| fset(i, params)).collect() },
                        Clause::Set { items } => Clause::Set { items: items.iter().map(|i| fset(i, params)).collect() },
                        Clause::Remove { .. } => c.clone(),
                        Clause::Delete { detach, exprs } => Clause::Delete { detach: *detach, exprs: exprs.iter().map(|e| fe(e, params)).collect() },
                    })
                    .collect()
            })
            .collect(),
    }
}
