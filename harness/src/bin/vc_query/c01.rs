//! C01 — read queries return the openCypher rows (or are refused).
use crate::*;
use std::io::Write;

pub struct Case {
    pub g: RGraph,
    pub q: Query,
    pub modes: Vec<ColMode>,
}

impl Case {
    pub fn to_json(&self) -> serde_json::Value {
        json!({"graph": self.g, "query": self.q, "modes": modes_json(&self.modes), "text": render_query(&self.q)})
    }
    pub fn from_json(v: &serde_json::Value) -> Case {
        Case { g: serde_json::from_value(v["graph"].clone()).expect("graph"), q: serde_json::from_value(v["query"].clone()).expect("query"), modes: modes_from(&v["modes"]) }
    }
}

pub enum Verdict {
    /// engine and specification agree; bool = non-trivial
    Agree(bool),
    Refused(String),
    /// not compared: reference outside its fragment / result not determined by the spec
    Skipped(&'static str),
    /// divergence explained by an active known finding
    Known(&'static str),
    Violation(String),
}

/// which known findings are active (witness still fails and listed)
#[derive(Default, Clone)]
pub struct ActiveKf {
    pub ids: Vec<&'static str>,
}
impl ActiveKf {
    pub fn has(&self, id: &str) -> bool {
        self.ids.iter().any(|x| *x == id)
    }
}

/// C01 findings that are modelled as quirk switches of the reference evaluator
pub const QUIRK_KFS: [&str; 9] = ["KF-C01-1", "KF-C01-2", "KF-C01-3", "KF-C01-4", "KF-C01-5", "KF-C01-6", "KF-C01-7", "KF-C01-8", "KF-C01-10"];
pub const ALL_KFS: [&str; 12] = ["KF-C01-1", "KF-C01-2", "KF-C01-3", "KF-C01-4", "KF-C01-5", "KF-C01-6", "KF-C01-7", "KF-C01-8", "KF-C01-9", "KF-C01-10", "KF-C01-11", "KF-C01-12"];

fn set_quirk(q: &mut Quirks, id: &str) {
    match id {
        "KF-C01-1" => q.multi_label_union = true,
        "KF-C01-2" => q.varlen_bfs_reachability = true,
        "KF-C01-8" => q.post_with_rel_props_ignored = true,
        "KF-C01-10" => q.with_where_before_window = true,
        "KF-C01-3" => q.optional_where_outer_global = true,
        "KF-C01-4" => q.with_agg_empty_no_row = true,
        "KF-C01-5" => q.optional_disconnected_drops = true,
        "KF-C01-6" => q.no_cross_pattern_rel_uniqueness = true,
        "KF-C01-7" => q.shortest_ignores_upper_bound = true,
        _ => {}
    }
}

pub fn judge(case: &Case, kf: &ActiveKf) -> Verdict {
    let text = render_query(&case.q);
    let spec = ref_read(&case.g, &case.q, &Quirks::default());
    let built = build_store(&case.g);
    let eng = run_engine_read(&built, &text);
    let rows = match eng {
        EngineOut::Panicked(p) => return Verdict::Violation(format!("engine panicked (neither refuses nor answers): {p}\n  query: {text}")),
        EngineOut::Refused(e) => return Verdict::Refused(e),
        EngineOut::Rows(r) => r,
    };
    let spec = match spec {
        Ok(s) => s,
        Err(RefErr::Unsupported(_)) => return Verdict::Skipped("ref_unsupported"),
        Err(RefErr::Error(_)) => return Verdict::Skipped("spec_error_engine_answered"),
    };
    if spec.numeric_grouping_ambiguity {
        return Verdict::Skipped("numeric_grouping_ambiguity");
    }
    if spec.nondeterministic {
        // An intermediate SKIP/LIMIT without ORDER BY admits many correct outcomes (any
        // `take` of the n rows may survive). Enumerate them (bounded) and accept the engine's
        // answer iff it equals one of them.
        // Some(n>0 matched?) : (matched, outcomes tried); None = cannot be determined
        let enumerate = |base: &Quirks| -> Option<(bool, usize)> {
            let mut tried = 0usize;
            for choice in 0..400usize {
                let q = Quirks { window_choice: Some(choice), ..base.clone() };
                match ref_read(&case.g, &case.q, &q) {
                    Ok(s2) => {
                        if s2.nondeterministic || s2.numeric_grouping_ambiguity {
                            return None;
                        }
                        tried += 1;
                        if compare(&rows, &s2, &case.modes).is_ok() {
                            return Some((true, tried));
                        }
                    }
                    Err(RefErr::Unsupported(m)) if m.contains("window choices exhausted") => {
                        return if tried == 0 { None } else { Some((false, tried)) };
                    }
                    Err(_) => return None,
                }
            }
            None
        };
        match enumerate(&Quirks::default()) {
            Some((true, _)) => return Verdict::Agree(true),
            None => return Verdict::Skipped("nondeterministic_by_spec"),
            Some((false, tried)) => {
                // none of the valid outcomes: explained by a known deviation?
                let act: Vec<&'static str> = QUIRK_KFS.iter().cloned().filter(|id| kf.has(id)).collect();
                let mut undetermined = false;
                for id in &act {
                    let mut q = Quirks::default();
                    set_quirk(&mut q, id);
                    match enumerate(&q) {
                        Some((true, _)) => return Verdict::Known(id),
                        None => undetermined = true,
                        Some((false, _)) => {}
                    }
                }
                if act.len() > 1 {
                    let mut q = Quirks::default();
                    for id in &act {
                        set_quirk(&mut q, id);
                    }
                    match enumerate(&q) {
                        Some((true, _)) => return Verdict::Known("KF-C01-combined"),
                        None => undetermined = true,
                        Some((false, _)) => {}
                    }
                }
                if undetermined {
                    return Verdict::Skipped("nondeterministic_by_spec");
                }
                if kf.has("KF-C01-5") && query_has_disconnected_optional(&case.q) {
                    return Verdict::Skipped("excluded:KF-C01-5(disconnected OPTIONAL MATCH)");
                }
                if kf.has("KF-C01-2") && query_varlen_inside_longer_pattern(&case.q) {
                    return Verdict::Skipped("excluded:KF-C01-2(varlen hop inside a multi-hop pattern)");
                }
                if kf.has("KF-C01-11") && query_post_with_step_onto_bound(&case.q) {
                    return Verdict::Skipped("excluded:KF-C01-11(MATCH after WITH stepping onto a bound node)");
                }
                if kf.has("KF-C01-9") && query_closes_varlen_on_bound_var(&case.q) {
                    return Verdict::Skipped("excluded:KF-C01-9(varlen closing on a bound node)");
                }
                return Verdict::Violation(format!("the engine's answer equals none of the {tried} outcomes openCypher allows for the intermediate SKIP/LIMIT without ORDER BY\n  query: {text}\n  engine rows: {:?}", rows.rows.iter().take(8).map(|r| norm::canon_row(r, &case.modes)).collect::<Vec<_>>()));
            }
        }
    }
    match compare(&rows, &spec, &case.modes) {
        Ok(()) => {
            let nontrivial = !spec.pre_window.is_empty() || !case.g.nodes.is_empty();
            Verdict::Agree(nontrivial && (!spec.pre_window.is_empty() || query_filters(&case.q)))
        }
        Err(d) => {
            // explained by a known deviation? each active quirk alone, then all active together;
            // the ORDER BY tie deviation (KF-C01-12) may combine with any of them
            let tie = kf.has("KF-C01-12");
            let cmp_q = |s2: &eval::RefResult| -> bool {
                match compare(&rows, s2, &case.modes) {
                    Ok(()) => true,
                    Err(d2) if tie && (d2.starts_with("ORDER BY violated") || d2.starts_with("window sort keys differ")) => {
                        norm::INT_FIRST_ON_NUMERIC_TIE.with(|c| c.set(true));
                        let r = compare(&rows, s2, &case.modes);
                        norm::INT_FIRST_ON_NUMERIC_TIE.with(|c| c.set(false));
                        r.is_ok()
                    }
                    Err(_) => false,
                }
            };
            if tie && (d.starts_with("ORDER BY violated") || d.starts_with("window sort keys differ")) && cmp_q(&spec) {
                return Verdict::Known("KF-C01-12");
            }
            let act: Vec<&'static str> = QUIRK_KFS.iter().cloned().filter(|id| kf.has(id)).collect();
            // the answer under a known deviation may itself be one the specification leaves open
            // (ties between 2 and 2.0 under max(), a window over tied keys): such a case cannot be judged
            let mut open_under_quirk = false;
            for id in &act {
                let mut q = Quirks::default();
                set_quirk(&mut q, id);
                if let Ok(s2) = ref_read(&case.g, &case.q, &q) {
                    if cmp_q(&s2) {
                        return Verdict::Known(id);
                    }
                    if (s2.numeric_grouping_ambiguity || s2.nondeterministic) && s2.rows.len() != spec.rows.len() || (s2.numeric_grouping_ambiguity || s2.nondeterministic) && norm::bag_diff(&s2.rows, &spec.rows, &case.modes).is_some() {
                        open_under_quirk = true;
                    }
                }
            }
            if act.len() > 1 {
                let mut q = Quirks::default();
                for id in &act {
                    set_quirk(&mut q, id);
                }
                if let Ok(s2) = ref_read(&case.g, &case.q, &q) {
                    if cmp_q(&s2) {
                        return Verdict::Known("KF-C01-combined");
                    }
                }
            }
            if kf.has("KF-C01-5") && query_has_disconnected_optional(&case.q) {
                return Verdict::Skipped("excluded:KF-C01-5(disconnected OPTIONAL MATCH)");
            }
            if kf.has("KF-C01-2") && query_varlen_inside_longer_pattern(&case.q) {
                // the BFS model is exact for a lone variable-length hop; inside a longer path
                // the planner's expansion order decides which walks survive
                return Verdict::Skipped("excluded:KF-C01-2(varlen hop inside a multi-hop pattern)");
            }
            if kf.has("KF-C01-11") && query_post_with_step_onto_bound(&case.q) {
                return Verdict::Skipped("excluded:KF-C01-11(MATCH after WITH stepping onto a bound node)");
            }
            if kf.has("KF-C01-9") && query_closes_varlen_on_bound_var(&case.q) {
                return Verdict::Skipped("excluded:KF-C01-9(varlen closing on a bound node)");
            }
            if open_under_quirk {
                return Verdict::Skipped("undetermined_under_known_deviation");
            }
            Verdict::Violation(format!("{d}  query: {text}\n  engine rows: {}\n  spec rows: {}", rows.rows.len(), spec.rows.len()))
        }
    }
}

/// an OPTIONAL MATCH whose pattern shares no variable with what is bound before it
fn query_has_disconnected_optional(q: &Query) -> bool {
    for part in &q.parts {
        let mut bound: Vec<String> = Vec::new();
        for c in part {
            match c {
                Clause::Match { optional, patterns, .. } => {
                    let mut vars = Vec::new();
                    for p in patterns {
                        vars.extend(p.name.clone());
                        vars.extend(p.start.var.clone());
                        for (r, n) in &p.steps {
                            vars.extend(r.var.clone());
                            vars.extend(n.var.clone());
                        }
                    }
                    if *optional && !vars.iter().any(|v| bound.contains(v)) {
                        return true;
                    }
                    bound.extend(vars);
                }
                Clause::Unwind { var, .. } => bound.push(var.clone()),
                Clause::With { proj, .. } => {
                    bound = proj.items.iter().map(gen::item_col).collect();
                }
                _ => {}
            }
        }
    }
    false
}

pub fn query_varlen_inside_longer_pattern(q: &Query) -> bool {
    q.parts.iter().flatten().any(|c| match c {
        Clause::Match { patterns, .. } => patterns.iter().any(|p| p.shortest == Shortest::No && p.steps.len() > 1 && p.steps.iter().any(|(r, _)| r.varlen.is_some())),
        _ => false,
    })
}

/// a MATCH placed after WITH in which a step's far node variable is already bound
fn query_post_with_step_onto_bound(q: &Query) -> bool {
    for part in &q.parts {
        let mut bound: Vec<String> = Vec::new();
        let mut after_with = false;
        for c in part {
            match c {
                Clause::With { proj, .. } => {
                    after_with = true;
                    bound = proj.items.iter().map(gen::item_col).collect();
                }
                Clause::Match { patterns, .. } => {
                    for p in patterns {
                        if let Some(v) = &p.start.var {
                            bound.push(v.clone());
                        }
                        for (_, n) in &p.steps {
                            if let Some(v) = &n.var {
                                if after_with && bound.contains(v) {
                                    return true;
                                }
                                bound.push(v.clone());
                            }
                        }
                    }
                }
                Clause::Unwind { var, .. } => bound.push(var.clone()),
                _ => {}
            }
        }
    }
    false
}

/// a variable-length step whose far node variable is already bound (earlier in the pattern or clause)
fn query_closes_varlen_on_bound_var(q: &Query) -> bool {
    for part in &q.parts {
        let mut bound: Vec<String> = Vec::new();
        for c in part {
            if let Clause::Match { patterns, .. } = c {
                for p in patterns {
                    if let Some(v) = &p.start.var {
                        bound.push(v.clone());
                    }
                    for (r, n) in &p.steps {
                        if let Some(v) = &n.var {
                            if r.varlen.is_some() && bound.contains(v) {
                                return true;
                            }
                            bound.push(v.clone());
                        }
                    }
                }
            }
        }
    }
    false
}

fn query_filters(q: &Query) -> bool {
    q.parts.iter().flatten().any(|c| matches!(c, Clause::Match { where_: Some(_), .. } | Clause::With { where_: Some(_), .. }))
}

const RULE: &str = "tape-driven grammar: small graph (0-6 nodes, labels within {A,B,C}, mixed-type/missing properties, multi-edges, self-loops) x read query (single MATCH 0-3 hops, OPTIONAL MATCH, WITH pipeline, UNWIND, UNION, two-pattern MATCH, shortestPath, var-length; WHERE 3-valued predicates; projections, DISTINCT, aggregates, ORDER BY, SKIP, LIMIT) compared as bags (valid order / valid window when ORDER BY/SKIP/LIMIT) with an independent brute-force evaluator. Non-trivial = compared case whose pre-window reference result is non-empty, or empty with a WHERE on a non-empty graph; distinct = distinct (graph, query text).";

pub fn run(args: &Args) {
    let mut ev = Evidence::new(args, "exploration", RULE);
    ev.assume("reference evaluator implements openCypher 9 semantics for the generated fragment only; results the specification leaves open (LIMIT without total order upstream, ties at a window edge, grouping of numerically equal Integer/Float) are skipped and counted");
    let kf = Known::load(args);

    if let Some(p) = &args.replay {
        let case = Case::from_json(&load_replay(p));
        ev.case();
        ev.sample(case.to_json());
        ev.nontrivial(&"replay");
        ev.nontrivial(&render_query(&case.q));
        match judge(&case, &ActiveKf::default()) {
            Verdict::Violation(m) => {
                report_violation(&mut ev, &case.to_json(), &m);
            }
            Verdict::Agree(_) => println!("replay: engine and specification agree"),
            Verdict::Refused(e) => println!("replay: engine refuses the query: {e}"),
            Verdict::Skipped(w) => println!("replay: not compared ({w})"),
            Verdict::Known(k) => println!("replay: known {k}"),
        }
        finish(&ev);
    }

    // witnesses of open findings
    let mut active = ActiveKf::default();
    for id in ALL_KFS {
        if let Some(w) = witness_case(&kf, id) {
            let case = Case::from_json(&w);
            let fails = matches!(judge(&case, &ActiveKf::default()), Verdict::Violation(_));
            if kf.witness_result(&mut ev, id, fails) {
                active.ids.push(id);
            }
        }
    }

    // pinned corpus: constructs supported today must not start failing
    let corpus_path = std::path::Path::new(VERIF_ROOT).join("baselines/c01_supported.jsonl");
    if std::env::var("VERIF_GEN_BASELINE").is_ok() {
        gen_baseline(args, &corpus_path);
        return;
    }
    if std::env::var("VERIF_BOOTSTRAP_KF").is_ok() {
        bootstrap_witnesses(args);
        return;
    }
    if let Ok(txt) = std::fs::read_to_string(&corpus_path) {
        for line in txt.lines().filter(|l| !l.trim().is_empty()) {
            let v: serde_json::Value = serde_json::from_str(line).expect("corpus line");
            let g: RGraph = serde_json::from_value(v["graph"].clone()).expect("graph");
            let text = v["text"].as_str().unwrap().to_string();
            let built = build_store(&g);
            ev.case();
            ev.class("supported_corpus");
            match run_engine_read(&built, &text) {
                EngineOut::Rows(_) => {}
                EngineOut::Refused(e) => {
                    report_violation(&mut ev, &json!({"graph": g, "text": text, "corpus": true}), &format!("a query the engine supported at the pinned commit is now refused: {text}: {e}"));
                    finish(&ev);
                }
                EngineOut::Panicked(e) => {
                    report_violation(&mut ev, &json!({"graph": g, "text": text, "corpus": true}), &format!("a query the engine supported at the pinned commit now panics: {text}: {e}"));
                    finish(&ev);
                }
            }
        }
    }

    for (p, c) in corpus_cases("C01") {
        let case = Case::from_json(&c);
        ev.case();
        ev.class("regression_corpus");
        if let Verdict::Violation(m) = judge(&case, &active) {
            report_violation(&mut ev, &case.to_json(), &format!("{m} (corpus {})", p.display()));
            finish(&ev);
        }
    }

    let n = std::env::var("VERIF_CASES").ok().and_then(|s| s.parse().ok()).unwrap_or(args.tier.pick(80_000u32, 2_000_000u32));
    let trace_slow = std::env::var("VERIF_TRACE_SLOW").is_ok();
    let survey = survey_limit();
    if std::env::var("VERIF_ASSUME_KF").is_ok() {
        // triage aid only: pretend every C01 finding is active
        active = ActiveKf { ids: ALL_KFS[1..].to_vec() };
    }
    let evc = RefCell::new(&mut ev);
    let strat = tape_strategy(220);
    let res = search(args.seed, n, &strat, |tape| {
        let (g, q, modes, tags) = build_case(tape);
        let case = Case { g, q, modes };
        let mut e = evc.borrow_mut();
        e.case();
        let t0 = std::time::Instant::now();
        if trace_slow {
            eprintln!("CASE {} (nodes {}, rels {})", render_query(&case.q), case.g.nodes.len(), case.g.rels.len());
        }
        let v = judge(&case, &active);
        if trace_slow && t0.elapsed().as_millis() > 100 {
            eprintln!("SLOW {} ms: {} (nodes {}, rels {})", t0.elapsed().as_millis(), render_query(&case.q), case.g.nodes.len(), case.g.rels.len());
        }
        match v {
            Verdict::Agree(nt) => {
                e.class("agree");
                for t in &tags {
                    e.class(&format!("tag:{t}"));
                }
                if nt {
                    let key = format!("{}#{}", serde_json::to_string(&case.g).unwrap(), render_query(&case.q));
                    e.nontrivial(&key);
                    e.class("nontrivial");
                    if e.want_sample() && tags.len() >= 4 {
                        e.sample(json!({"query": render_query(&case.q), "nodes": case.g.nodes.len(), "rels": case.g.rels.len(), "tags": tags}));
                    }
                }
                Ok(())
            }
            Verdict::Refused(why) => {
                e.refusal();
                e.class("refused");
                let short: String = why.chars().filter(|c| !c.is_ascii_digit()).take(60).collect();
                e.class(&format!("refused:{short}"));
                Ok(())
            }
            Verdict::Skipped(w) => {
                e.class(&format!("skipped:{w}"));
                Ok(())
            }
            Verdict::Known(k) => {
                e.kf_hit(k);
                Ok(())
            }
            Verdict::Violation(m) => {
                if survey > 0 {
                    SURVEY.with(|s| {
                        let mut s = s.borrow_mut();
                        let sig = format!("{tags:?}");
                        if s.len() < survey && !s.iter().any(|x| x.ends_with(&sig)) {
                            let p = write_replay("survey", &case.to_json(), &m);
                            s.push(format!("{m}\n  saved: {}\n  tags: {sig}", p.display()));
                        }
                    });
                    e.class("survey_divergence");
                    return Ok(());
                }
                e.frozen = true;
                Err(m)
            }
        }
    });
    drop(evc);
    if survey > 0 {
        SURVEY.with(|s| {
            for (i, m) in s.borrow().iter().enumerate() {
                eprintln!("--- divergence {i}\n{m}");
            }
        });
    }
    if let Some((tape, msg)) = res {
        let (g, q, modes, _) = build_case(&tape);
        let case = Case { g, q, modes };
        let msg = match judge(&case, &active) {
            Verdict::Violation(m) => m,
            _ => msg,
        };
        report_violation(&mut ev, &case.to_json(), &msg);
    }
    finish(&ev);
}

fn gen_baseline(args: &Args, path: &std::path::Path) {
    let tapes = generate(20260921, 6000, &tape_strategy(220));
    let mut out = std::fs::File::create(path).expect("baseline file");
    let mut seen = std::collections::BTreeSet::new();
    let mut n = 0;
    for tape in tapes {
        let (g, q, _modes, _) = build_case(&tape);
        let text = render_query(&q);
        let built = build_store(&g);
        if let EngineOut::Rows(_) = run_engine_read(&built, &text) {
            if seen.insert(text.clone()) {
                writeln!(out, "{}", json!({"graph": g, "text": text})).unwrap();
                n += 1;
                if n >= 3000 {
                    break;
                }
            }
        }
    }
    eprintln!("wrote {n} supported cases to {} (tier {:?})", path.display(), args.tier);
}

/// developer tool (never run by a check): find a minimal witness for every modelled deviation
/// by searching with the deviations found so far switched on, and save each under
/// replays/known/<id>.json.
fn bootstrap_witnesses(args: &Args) {
    let mut active = ActiveKf::default();
    let dir = std::path::Path::new(VERIF_ROOT).join("replays/known");
    for round in 0..12 {
        let act = active.clone();
        let res = search(args.seed + round, 30000, &tape_strategy(220), |tape| {
            let (g, q, modes, _) = build_case(tape);
            let case = Case { g, q, modes };
            match judge(&case, &act) {
                Verdict::Violation(m) => Err(m),
                _ => Ok(()),
            }
        });
        let (tape, msg) = match res {
            Some(x) => x,
            None => {
                eprintln!("round {round}: nothing left");
                if !active.has("KF-C01-8") {
                    // rare shape: hand-built witness (inline relationship property after WITH)
                    let mut g = RGraph::default();
                    for i in 0..2 {
                        let mut n = RNode::default();
                        n.props.insert("uid".into(), V::Int(i));
                        g.nodes.push(n);
                    }
                    let mut props = BTreeMap::new();
                    props.insert("w".to_string(), V::Int(2));
                    g.rels.push(RRel { src: 1, dst: 0, ty: "T".into(), props, deleted: false });
                    let a = || NodePat { var: Some("a".into()), labels: vec![], props: vec![] };
                    let q = Query {
                        union_all: false,
                        parts: vec![vec![
                            Clause::Match { optional: false, patterns: vec![PathPat { name: None, start: a(), steps: vec![], shortest: Shortest::No }], where_: None },
                            Clause::With { proj: Proj { distinct: false, items: vec![Item { expr: E::Var("a".into()), alias: None }], order: vec![], skip: None, limit: None }, where_: None },
                            Clause::Match {
                                optional: false,
                                patterns: vec![PathPat {
                                    name: None,
                                    start: a(),
                                    steps: vec![(RelPat { var: None, types: vec!["T".into()], dir: Dir::In, props: vec![("w".into(), E::Lit(V::Int(1)))], varlen: None }, NodePat { var: Some("b".into()), labels: vec![], props: vec![] })],
                                    shortest: Shortest::No,
                                }],
                                where_: None,
                            },
                            Clause::Return { proj: Proj { distinct: false, items: vec![Item { expr: E::Prop("a".into(), "uid".into()), alias: Some("c0".into()) }], order: vec![], skip: None, limit: None } },
                        ]],
                    };
                    let case = Case { g, q, modes: vec![ColMode::Exact] };
                    if let Verdict::Violation(m) = judge(&case, &ActiveKf::default()) {
                        let body = json!({"property": "C01", "message": m, "case": case.to_json()});
                        std::fs::write(dir.join("KF-C01-8.json"), serde_json::to_string_pretty(&body).unwrap()).unwrap();
                        eprintln!("hand-built KF-C01-8 witness written");
                    } else {
                        eprintln!("hand-built KF-C01-8 witness does NOT fail");
                    }
                }
                break;
            }
        };
        let (g, q, modes, _) = build_case(&tape);
        let case = Case { g, q, modes };
        // which single deviation explains it?
        let mut found = None;
        for id in ALL_KFS {
            if active.has(id) {
                continue;
            }
            let one = ActiveKf { ids: vec![id] };
            if matches!(judge(&case, &one), Verdict::Known(_) | Verdict::Skipped(_)) {
                found = Some(id);
                break;
            }
        }
        match found {
            Some(id) => {
                let body = json!({"property": "C01", "message": msg, "case": case.to_json()});
                std::fs::write(dir.join(format!("{id}.json")), serde_json::to_string_pretty(&body).unwrap()).unwrap();
                eprintln!("round {round}: {id} <- {}", render_query(&case.q));
                active.ids.push(id);
            }
            None => {
                eprintln!("round {round}: UNEXPLAINED {}\n{msg}", render_query(&case.q));
                let p = write_replay("unexplained", &case.to_json(), &msg);
                eprintln!("  saved {}", p.display());
                break;
            }
        }
    }
}
